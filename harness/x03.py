"""X03 (extension) — element-wise operations on dense tensors, tenfun (spec: DenseElem*.tla)."""
from __future__ import annotations

import json
import operator as op_

import numpy as np

import core
import tla
from core import Outcome

PROP = "X03"
PYOP = {"add": op_.add, "sub": op_.sub, "mul": op_.mul, "div": op_.truediv, "eq": op_.eq, "ne": op_.ne, "lt": op_.lt,
        "le": op_.le, "gt": op_.gt, "ge": op_.ge}


def operand(v, op: str = ""):
    import bind
    if v["kind"] != "scalar":
        return bind.gamma(v)
    # the type of a scalar operand is a presentation (rotated with the array layout), as in harness/c03.py
    x = float(v["val"])
    if op in ("radd", "rsub", "rdiv", "div"):
        return x
    return {"default": float, "swapped": (np.int64 if x.is_integer() else np.float64),
            "strided": np.float32, "grown": (int if x.is_integer() else float)}[bind.get_layout()](x)


def apply(X, op: str, a: dict):
    r = operand(a["rhs"], op) if "rhs" in a else None
    with np.errstate(all="ignore"):
        if op in PYOP:
            return PYOP[op](X, r)
        if op == "and":
            return X.logical_and(r)
        if op == "or":
            return X.logical_or(r)
        if op == "xor":
            return X.logical_xor(r)
        if op == "radd":
            return r + X
        if op == "rsub":
            return r - X
        if op == "rmul":
            return r * X
        if op == "rdiv":
            return r / X
        if op == "not":
            return X.logical_not()
        if op == "neg":
            return -X
        if op == "pos":
            return +X
        if op == "abs":
            return X.tenfun(lambda x: np.abs(x))
        if op == "pow":
            return X ** a["k"]
        if op == "tf_bin_max":
            return X.tenfun(lambda x, y: np.maximum(x, y), r)
        if op == "tf_bin_xm2y":
            return X.tenfun(lambda x, y: x - 2 * y, r)
        if op == "tf_un_neg":
            return X.tenfun(lambda x: -x)
        if op == "tf_un_colmax":
            return X.tenfun(lambda M: np.max(M, axis=0), r, operand(a["rhs2"]))
        if op == "tf_un_first_minus_last":
            return X.tenfun(lambda M: M[0, :] - M[-1, :], r, operand(a["rhs2"]))
    raise ValueError(op)


def event(b: dict) -> dict:
    import bind
    import c05
    ttb = bind.ttb
    X = bind.gamma(b["obj"])
    snap = c05.snapshot(X)
    try:
        r = apply(X, b["op"], b["args"])
        ret = bind.alpha(r, conv=bind.rat) if isinstance(r, (ttb.tensor, ttb.sptensor)) else {"kind": "other", "type": type(r).__name__}
    except bind.Inexact as e:
        ret = {"kind": "inexact", "msg": str(e)[:150]}
    except Exception as e:
        ret = {"kind": "raised", "msg": f"{type(e).__name__}: {e}"[:150]}
    if c05.snapshot(X) != snap:
        ret = {"kind": "operand-modified"}
    return {"op": b["op"], "args": {"obj": b["obj"], "a": b["args"]}, "ret": ret}


def replay(b: dict) -> dict:
    tr = {"init": {}, "b": b, "ev": [event(b)]}
    return {"traces": [tr], "divs": [{"site": "s", "why": "candidate", "trace_index": 0, "event": 1}], "events": 1,
            "nontrivial": [json.dumps(b, sort_keys=True)]}


def record(stim: dict) -> dict:
    return {"init": {}, "b": stim["b"], "ev": [event(stim["b"])]}


def main(tier: str) -> int:
    rp = core.replay_arg()
    if rp:
        return core.replay_file(rp, PROP, "x03", "DenseElem_Trace")
    out = Outcome(PROP, tier)
    shapes = [(3,), (2, 3), (2, 1, 2)] if tier == "quick" else [(3,), (1,), (2, 3), (2, 1, 2), (2, 2, 2), (3, 2, 2)]
    jobs = [dict(module="DenseElem_Gen", cfg_text="SPECIFICATION GSpec\nINVARIANT CommLaw\n", defs={"ShapeC": tla.tla(list(s))}, timeout=2400)
            for s in shapes]
    behaviours = []
    for r in tla.run_many(jobs):
        out.add_tlc(r)
        behaviours += r.json
    out.notes["stimuli"] = len(behaviours)

    def site(tr, k):
        ev = tr["ev"][k - 1]
        rk = ev["args"]["a"].get("rhs", {}).get("kind", "")
        return f"tensor.{ev['op']}" + (f"({rk})" if rk else "")
    core.pipeline(out, "x03", behaviours, "DenseElem_Trace", lock_mode="superset", chunk=600, site_of=site,
                  tags_of=lambda tr, k: (["raised_type_error"] if "TypeError" in tr["ev"][k - 1]["ret"].get("msg", "") else []))
    out.rule = ("dense receiver x {+, -, *, /, comparisons, and / or / xor} x {dense operand (with and without zeros, itself), scalar "
                "0 / 2 / -1}, reflected scalar forms, not / neg / pos / abs, integer powers 0..3, tenfun with a binary function "
                "(commutative and not) against operands of every kind and scalars, tenfun with a column-wise function over one "
                "and three stacked tensors (row order observable); division by zero follows IEEE (nan / signed inf)")
    out.exhaustive = True
    out.trusted = ["alpha/gamma", "apply() in harness/x03.py", "TLC"]
    return core.finish(out)


if __name__ == "__main__":
    core.main_wrap(main)
