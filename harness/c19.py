"""C19 — ill-formed requests are rejected, not answered (spec: Requests*.tla)."""
from __future__ import annotations

import json
import warnings
from typing import Any, Callable, List, Tuple

import numpy as np

import core
import tla
from core import Outcome

PROP = "C19"


def mk_dense(shape, seed=0):
    import bind
    n = int(np.prod(shape))
    return bind.ttb.tensor(((np.arange(1, n + 1) * 3 + seed) % 7 - 2.0).reshape(tuple(shape), order="F"))


def mk_sparse(shape, seed=0):
    return mk_dense(shape, seed).to_sptensor()


def mk_kt(rows, cols=None, nweights=None):
    import bind
    cols = cols or [2] * len(rows)
    U = [((2 * np.arange(r)[:, None] + np.arange(c)[None, :] + k) % 4 - 1.0) for k, (r, c) in enumerate(zip(rows, cols))]
    w = np.arange(1, (nweights if nweights is not None else cols[0]) + 1, dtype=float)
    return bind.ttb.ktensor(U, w)


def mk_tt(rows, core=None, cols=None):
    import bind
    core = core or [min(2, r) for r in rows]
    cols = cols or core
    U = [((np.arange(r)[:, None] + 2 * np.arange(c)[None, :] + k) % 3 - 1.0) for k, (r, c) in enumerate(zip(rows, cols))]
    return bind.ttb.ttensor(mk_dense(core, 1), U)


def holders(shape, kinds):
    import bind
    out = []
    for k in kinds:
        if k == "dense":
            out.append((k, mk_dense(shape)))
        elif k == "sparse":
            out.append((k, mk_sparse(shape)))
            # a receiver without stored entries: shortcuts for "nothing to do" must not skip the validation
            out.append((k, bind.ttb.sptensor(shape=tuple(shape))))
        elif k == "ktensor":
            out.append((k, mk_kt(shape)))
        elif k == "ttensor":
            out.append((k, mk_tt(shape)))
        elif k == "sum":
            out.append((k, bind.ttb.sumtensor([mk_dense(shape), mk_sparse(shape, 1)])))
    return out


def bind_ttb():
    import bind
    return bind.ttb


CLS = {"dense": "tensor", "sparse": "sptensor", "ktensor": "ktensor", "ttensor": "ttensor", "sum": "sumtensor"}


def calls(fam: str, a: dict) -> List[Tuple[str, List[Any], Callable[[], Any]]]:
    """concrete calls realising the abstract request: (site, objects to watch, thunk)"""
    import bind
    from pyttb import pyttb_utils as u
    ttb = bind.ttb
    out = []
    I = lambda x: np.array(x, dtype=int)
    if fam == "ttv":
        vecs = [np.arange(1.0, n + 1) for n in a["vlen"]]
        for k, o in holders(a["shape"], ["dense", "sparse", "ktensor", "ttensor", "sum"]):
            out.append((f"{CLS[k]}.ttv", [o] + vecs, (lambda o=o: o.ttv(vecs, dims=I(a["dims"])))))
    elif fam == "ttm":
        mats = [(np.arange(2.0 * c).reshape(c, 2) if a["transp"] else np.arange(2.0 * c).reshape(2, c)) for c in a["mcols"]]
        for k, o in holders(a["shape"], ["dense", "sparse", "ttensor"]):
            out.append((f"{CLS[k]}.ttm", [o] + mats,
                        (lambda o=o: o.ttm(mats, dims=I(a["dims"]), transpose=bool(a["transp"])))))
    elif fam == "mttkrp":
        U = [np.arange(1.0, r * c + 1).reshape(r, c) for r, c in zip(a["rows"], a["cols"])]
        for k, o in holders(a["shape"], ["dense", "sparse", "ktensor", "ttensor", "sum"]):
            out.append((f"{CLS[k]}.mttkrp", [o] + U, (lambda o=o: o.mttkrp(U, a["n"]))))
            # the same factor collection handed over as a Kruskal tensor (possible when the column counts agree)
            if len({u.shape[1] for u in U}) == 1 and len(U) >= 1:
                try:
                    KU = bind.ttb.ktensor([u.copy() for u in U], np.ones(U[0].shape[1]))
                except Exception:
                    KU = None
                if KU is not None:
                    out.append((f"{CLS[k]}.mttkrp(ktensor)", [o, KU], (lambda o=o, KU=KU: o.mttkrp(KU, a["n"]))))
    elif fam == "permute":
        for k, o in holders(a["shape"], ["dense", "sparse", "ktensor", "ttensor"]):
            out.append((f"{CLS[k]}.permute", [o], (lambda o=o: o.permute(I(a["order"])))))
    elif fam == "reshape":
        for k, o in holders(a["shape"], ["dense", "sparse"]):
            out.append((f"{CLS[k]}.reshape", [o], (lambda o=o: o.reshape(tuple(a["target"])))))
    elif fam == "sameshape":
        s, t = a["shape"], a["other"]
        kinds = ["dense", "sparse", "ktensor", "ttensor"]
        for k, o in holders(s, kinds + ["sum"]):
            for k2, p in holders(t, kinds):
                out.append((f"{CLS[k]}.innerprod({CLS[k2]})", [o, p], (lambda o=o, p=p: o.innerprod(p))))
        import operator as op
        S = mk_sparse(s)
        for nm, f in (("__add__", op.add), ("__sub__", op.sub), ("__mul__", op.mul), ("__truediv__", op.truediv),
                      ("__eq__", op.eq), ("__ne__", op.ne), ("__lt__", op.lt), ("__le__", op.le), ("__gt__", op.gt),
                      ("__ge__", op.ge), ("logical_and", lambda x, y: x.logical_and(y)),
                      ("logical_or", lambda x, y: x.logical_or(y)), ("logical_xor", lambda x, y: x.logical_xor(y))):
            for k2, p in holders(t, ["dense", "sparse"]):
                out.append((f"sptensor.{nm}({CLS[k2]})", [S, p], (lambda f=f, p=p: f(S, p))))
        K = mk_kt(s)
        K2 = mk_kt(t)
        out.append(("ktensor.__add__(ktensor)", [K, K2], lambda: K + K2))
        out.append(("ktensor.__sub__(ktensor)", [K, K2], lambda: K - K2))
        out.append(("sptensor.__mul__(ktensor)", [S, K2], lambda: S * K2))
        out.append(("ktensor.mask(tensor)", [K, mk_dense(t)], lambda: K.mask(mk_dense(t))) if len(t) != len(s) or any(
            x > y for x, y in zip(t, s)) else ("ktensor.__add__(ktensor)#2", [K, K2], lambda: K + K2))
    elif fam == "contract":
        for k, o in holders(a["shape"], ["dense", "sparse"]):
            out.append((f"{CLS[k]}.contract", [o], (lambda o=o: o.contract(a["i"], a["j"]))))
    elif fam == "scale":
        F = mk_dense(a["fshape"], 2)
        for k, o in holders(a["shape"], ["dense", "sparse"]):
            out.append((f"{CLS[k]}.scale(tensor)", [o, F], (lambda o=o: o.scale(F, I(a["dims"])))))
        o = mk_dense(a["shape"])
        Fa = F.data.copy()
        out.append(("tensor.scale(ndarray)", [o, Fa], (lambda: o.scale(Fa, I(a["dims"])))))
    elif fam == "collapse":
        for k, o in holders(a["shape"], ["dense", "sparse"]):
            out.append((f"{CLS[k]}.collapse", [o], (lambda o=o: o.collapse(I(a["dims"])))))
    elif fam == "to_tenmat":
        D, S = mk_dense(a["shape"]), mk_sparse(a["shape"])
        out.append(("tensor.to_tenmat", [D], lambda: D.to_tenmat(I(a["rdims"]), I(a["cdims"]))))
        out.append(("sptensor.to_sptenmat", [S], lambda: S.to_sptenmat(I(a["rdims"]), I(a["cdims"]))))
        n = int(np.prod(a["shape"]))
        rp = int(np.prod([a["shape"][d] for d in a["rdims"] if 0 <= d < len(a["shape"])])) or 1
        data = np.arange(float(n)).reshape(rp, max(1, n // rp)) if n % rp == 0 else np.arange(float(n)).reshape(1, n)
        out.append(("tenmat.__init__", [data], lambda: ttb.tenmat(data, I(a["rdims"]), I(a["cdims"]), tuple(a["shape"]))))
        out.append(("sptenmat.__init__", [], lambda: ttb.sptenmat(np.array([[0, 0]]), np.array([[1.0]]), I(a["rdims"]),
                                                                   I(a["cdims"]), tuple(a["shape"]))))
    elif fam == "ctor_tensor":
        data = np.arange(float(a["count"]))
        out.append(("tensor.__init__", [data], lambda: ttb.tensor(data, tuple(a["shape"]))))
    elif fam == "ctor_sptensor":
        subs = np.zeros((a["nsubs"], a["width"]), dtype=int)
        for m in range(min(a["width"], len(a["maxsub"]))):
            subs[0, m] = a["maxsub"][m]
        for r in range(1, a["nsubs"]):
            subs[r, 0] = 0
            if a["width"] > 1:
                subs[r, 1] = r - 1
        vals = np.arange(1.0, a["nvals"] + 1)[:, None]
        out.append(("sptensor.__init__", [subs, vals], lambda: ttb.sptensor(subs, vals, tuple(a["shape"]))))
        out.append(("sptensor.__init__(copy=False)", [subs, vals], lambda: ttb.sptensor(subs, vals, tuple(a["shape"]), copy=False)))
        out.append(("sptensor.from_aggregator", [subs, vals], lambda: ttb.sptensor.from_aggregator(subs, vals, tuple(a["shape"]))))
    elif fam == "ctor_ktensor":
        U = [np.ones((r, c)) for r, c in zip(a["rows"], a["cols"])]
        w = np.ones(a["nweights"])
        out.append(("ktensor.__init__", U + [w], lambda: ttb.ktensor(U, w)))
        Uf = [np.asfortranarray(u) for u in U]
        out.append(("ktensor.__init__(copy=False)", Uf + [w], lambda: ttb.ktensor(Uf, w, copy=False)))
    elif fam == "ctor_ttensor":
        core_t = mk_dense(a["core"])
        U = [np.ones((r, c)) for r, c in zip(a["rows"] + [2] * 3, a["cols"])]
        out.append(("ttensor.__init__", [core_t] + U, lambda: ttb.ttensor(core_t, U)))
        Uf = [np.asfortranarray(u) for u in U]
        out.append(("ttensor.__init__(copy=False)", [core_t] + Uf, lambda: ttb.ttensor(core_t, Uf, copy=False)))
    elif fam == "ctor_sumtensor":
        parts = [mk_dense(s, i) for i, s in enumerate(a["shapes"])]
        out.append(("sumtensor.__init__", parts, lambda: ttb.sumtensor(parts)))
        if len(parts) == 2:
            S0 = ttb.sumtensor([parts[0]])
            out.append(("sumtensor.__add__", [S0, parts[1]], lambda: S0 + parts[1]))
    elif fam in ("tenmat_mul", "tenmat_add"):
        def tm(ms):
            if 1 in ms and max(ms) > 1:
                # a column / row unfolding of a one-way tensor: same tensor shape, different matrix shapes
                n = max(ms)
                col = ms[1] == 1
                return ttb.tenmat(np.arange(1.0, n + 1).reshape(ms[0], ms[1]), I([0]) if col else I([]), I([]) if col else I([0]), (n,))
            return ttb.tenmat(np.arange(1.0, ms[0] * ms[1] + 1).reshape(ms[0], ms[1]), I([0]), I([1]), tuple(ms))
        A, B = tm(a["left"]), tm(a["right"])
        if fam == "tenmat_mul":
            out.append(("tenmat.__mul__", [A, B], lambda: A * B))
        else:
            out.append(("tenmat.__add__", [A, B], lambda: A + B))
            out.append(("tenmat.__sub__", [A, B], lambda: A - B))
    elif fam == "khatrirao":
        ms = [np.ones((2 + i, c)) for i, c in enumerate(a["cols"])]
        out.append(("khatrirao", ms, lambda: ttb.khatrirao(*ms)))
        out.append(("khatrirao(reverse)", ms, lambda: ttb.khatrirao(*ms, reverse=True)))
    elif fam == "k_arrange_perm":
        K = mk_kt([2, 3, 2], [a["R"]] * 3)
        for form, nm in ((I, "array"), (list, "list"), (tuple, "tuple")):
            out.append((f"ktensor.arrange(permutation:{nm})", [K], (lambda form=form: K.arrange(permutation=form(a["perm"])))))
    elif fam == "k_update":
        K = mk_kt(a["rows"], [a["R"]] * len(a["rows"]))
        data = np.arange(1.0, max(a["datalen"], 0) + 1)
        out.append(("ktensor.update", [K], lambda: K.update(I(a["modes"]) if len(a["modes"]) > 1 else int(a["modes"][0]), data)))
    elif fam == "sp_reshape_modes":
        for k, o in holders(a["shape"], ["sparse"]):
            out.append(("sptensor.reshape(old_modes)", [o], (lambda o=o: o.reshape(tuple(a["target"]), I(a["old_modes"])))))
    elif fam == "ctor_tenmat":
        ms = a["mshape"]
        data = np.arange(1.0, ms[0] * ms[1] + 1).reshape(ms[0], ms[1], order="F")
        out.append(("tenmat.__init__", [data], lambda: ttb.tenmat(data, I(a["rdims"]), I(a["cdims"]), tuple(a["shape"]))))
    elif fam == "ctor_sptenmat":
        subs = np.array([[0, 0], [a["maxrow"], a["maxcol"]]])
        vals = np.array([[1.0], [2.0]])
        out.append(("sptenmat.__init__", [subs, vals], lambda: ttb.sptenmat(subs, vals, I(a["rdims"]), I(a["cdims"]), tuple(a["shape"]))))
    elif fam == "ctor_sptensor_neg":
        N = len(a["shape"])
        subs = np.array([[0] * N, [a["minsub"]] + [0] * (N - 1)]) if a["minsub"] != 0 else np.array([[0] * N, [1] + [0] * (N - 1)])
        vals = np.array([[1.0], [2.0]])
        out.append(("sptensor.__init__", [subs, vals], lambda: ttb.sptensor(subs, vals, tuple(a["shape"]))))
    elif fam == "k_mode_arg":
        K = mk_kt([2, 3, 2][:a["N"]], [2] * a["N"])
        m = int(a["mode"])
        thunk = {"normalize_wf": lambda: K.normalize(weight_factor=m), "normalize_mode": lambda: K.normalize(mode=m),
                 "redistribute": lambda: K.redistribute(m), "arrange_wf": lambda: K.arrange(weight_factor=m)}[a["op"]]
        out.append((f"ktensor.{a['op']}", [K], thunk))
    elif fam == "k_extract":
        K = mk_kt([2, 3, 2], [a["R"]] * 3)
        ix = [int(i) for i in a["idx"]]
        arg = {"list": ix, "tuple": tuple(ix), "array": I(ix), "int": (np.int64(ix[0]) if a["R"] % 2 == 0 else ix[0]) if ix else None}[a["form"]]
        out.append(("ktensor.extract", [K], lambda: K.extract(arg)))
    elif fam == "sptenmat_setitem":
        M = mk_sparse([a["nrows"], 2, a["ncols"] // 2]).to_sptenmat(np.array([0]))
        out.append(("sptenmat.__setitem__", [M], lambda: M.__setitem__((int(a["r"]), int(a["c"])), 7.0)))
    elif fam == "mttkrps_factors":
        X = mk_dense(a["shape"])
        U = [np.arange(1.0, r * c + 1).reshape(r, c) for r, c in zip(a["rows"], a["cols"])]
        out.append(("tensor.mttkrps", [X] + U, lambda: X.mttkrps(U)))
    elif fam == "setitem_block":
        key = tuple(slice(0, int(h)) for h in a["hi"])
        val = np.arange(1.0, int(np.prod(a["vshape"])) + 1).reshape(tuple(a["vshape"]))
        for k, o in holders(a["shape"], ["dense", "sparse"]):
            v = val if k == "dense" else bind_ttb().tensor(val).to_sptensor()      # (a sparse receiver takes sparse blocks)
            out.append((f"{CLS[k]}.__setitem__(block)", [o, v], (lambda o=o, v=v: o.__setitem__(key, v))))
    elif fam == "fixsigns_other":
        K = mk_kt(a["rows"], [a["R"]] * len(a["rows"]))
        K.factor_matrices[0][0, :] *= -3.0          # (so that there is a sign to fix and a norm to move)
        O = mk_kt(a["orows"], [a["oR"]] * len(a["orows"]))
        out.append(("ktensor.fixsigns(other)", [K, O], lambda: K.fixsigns(O)))
    elif fam == "tt_reconstruct":
        T = ttb.ttensor(mk_dense([2, 2, 2]), [np.arange(1.0, 2 * r + 1).reshape(r, 2) for r in (3, 4, 2)])
        ms = [int(m) for m in a["modes"]]
        samples = [np.array([0, 1]) for _ in ms]
        out.append(("ttensor.reconstruct", [T], lambda: T.reconstruct(samples if len(ms) > 1 else samples[0], I(ms) if len(ms) > 1 else ms[0])))
    elif fam == "tucker_ranks":
        X = mk_dense(a["shape"])
        rk = [int(r) for r in a["ranks"]]
        if a["auto"]:
            out.append(("hosvd(ranks)", [X], lambda: ttb.hosvd(X, 0.2, verbosity=0, ranks=I(rk))))
        else:
            out.append(("tucker_als(ranks)", [X], lambda: ttb.tucker_als(X, I(rk), maxiters=1, printitn=0)))
    elif fam == "als_optdims":
        X = mk_dense([2, 3, 2][:a["N"]])
        init = mk_kt([2, 3, 2][:a["N"]], [2] * a["N"])
        out.append(("cp_als(optdims)", [X, init], lambda: ttb.cp_als(X, 2, maxiters=1, printitn=0, init=init, optdims=I(a["optdims"]))))
    elif fam == "ctor_sptenmat_neg":
        subs = np.array([[1, 1], [a["minrow"], a["mincol"]]])
        vals = np.array([[1.0], [2.0]])
        out.append(("sptenmat.__init__", [subs, vals], lambda: ttb.sptenmat(subs, vals, I([0]), I([1, 2]), (2, 3, 2))))
    elif fam == "nvecs_args":
        for k, o in holders(a["shape"], ["dense", "sparse", "ktensor", "ttensor"]):
            out.append((f"{type(o).__name__}.nvecs", [o], (lambda o=o: o.nvecs(int(a["n"]), int(a["r"])))))
    elif fam == "sym_groups":
        X = mk_dense([2] * a["N"])
        g = I(a["grps"]) if len(a["grps"]) > 1 else I(a["grps"][0])
        if a["version"]:
            out.append(("tensor.symmetrize(version=1)", [X], lambda: X.symmetrize(g, 1)))
        else:
            out.append(("tensor.symmetrize", [X], lambda: X.symmetrize(g)))
    elif fam == "als_options":
        X = mk_dense(a["shape"])
        init = mk_kt(a["initrows"], a["initcols"])
        out.append(("cp_als", [X, init], lambda: ttb.cp_als(X, a["rank"], maxiters=1, printitn=0, init=init,
                                                              dimorder=I(a["dimorder"]))))
        Xs = X.to_sptensor()
        out.append(("cp_als(sptensor)", [Xs, init], lambda: ttb.cp_als(Xs, a["rank"], maxiters=1, printitn=0, init=init,
                                                                        dimorder=I(a["dimorder"]))))
        # the same options for the Tucker routine: rank per mode, the guess as a list of factor matrices
        linit = [np.linalg.qr(np.arange(1.0, r * c + 1).reshape(r, c) % 5 + np.eye(r, c))[0] if r >= c else np.ones((r, c))
                 for r, c in zip(a["initrows"], a["initcols"])]
        out.append(("tucker_als(init list)", [X] + linit, lambda: ttb.tucker_als(X, a["rank"], maxiters=1, printitn=0, init=linit,
                                                                                 dimorder=I(a["dimorder"]))))
    else:
        raise ValueError(fam)
    return out


def run_request(fam: str, a: dict) -> List[dict]:
    import c05
    evs = []
    for site, watch, thunk in calls(fam, a):
        before = [c05.snapshot(w) for w in watch]
        raised = False
        msg = ""
        try:
            with warnings.catch_warnings(), np.errstate(all="ignore"):
                warnings.simplefilter("ignore")
                thunk()
        except Exception as e:
            raised = True
            msg = f"{type(e).__name__}: {e}"[:100]
        unchanged = all(c05.snapshot(w) == b for w, b in zip(watch, before))
        evs.append({"op": fam, "args": a, "site": site, "ret": {"raised": raised, "unchanged": unchanged, "msg": msg}})
    return evs


def record(stim: dict) -> dict:
    evs = []
    for e in stim["ev"]:
        evs += [x for x in run_request(e["op"], e["args"]) if x["site"] == e.get("site", x["site"])]
    return {"init": {}, "ev": evs}


def replay(b: dict) -> dict:
    tr = {"init": {}, "ev": []}
    divs, nontrivial = [], []
    for st in b["ev"]:
        for ev in run_request(st["fam"], st["a"]):
            tr["ev"].append(ev)
            illformed = st["clause"] != "ok"
            if illformed:
                nontrivial.append(json.dumps([ev["site"], st["fam"], st["a"]], sort_keys=True))
            bad = (illformed and (not ev["ret"]["raised"] or not ev["ret"]["unchanged"])) or \
                  (not illformed and ev["ret"]["raised"])
            if bad:
                divs.append({"site": ev["site"], "why": "candidate", "expected": None,
                             "detail": json.dumps(ev["ret"])[:200], "trace_index": 0, "event": len(tr["ev"])})
    return {"traces": [tr], "divs": divs, "events": len(tr["ev"]), "nontrivial": nontrivial}


def tags_of(tr: dict, k: int) -> List[str]:
    ev = tr["ev"][k - 1]
    fam, a = ev["op"], ev["args"]
    tags = [f"fam:{fam}"]
    return tags


def main(tier: str) -> int:
    if core.replay_arg():
        return core.replay_file(core.replay_arg(), PROP, "c19", "Requests_Trace")
    out = Outcome(PROP, tier)
    jobs = []
    for fams in (["ttv"], ["ttm"], ["mttkrp"], ["permute"], ["misc"], ["more"], ["args"]):
        cfg = ("SPECIFICATION Spec\nCONSTANTS\n Fams = {%s}\nINVARIANT OneClause\n"
               % ", ".join(f'"{f}"' for f in fams))
        jobs.append(dict(module="Requests_Gen", cfg_text=cfg, timeout=3000))
    results = tla.run_many(jobs)
    stimuli = []
    for r in results:
        out.add_tlc(r)
        stimuli += r.json
    behaviours = [{"ev": stimuli[i:i + 20]} for i in range(0, len(stimuli), 20)]
    from collections import Counter
    out.notes["abstract_requests"] = len(stimuli)
    out.notes["per_family_clause"] = {f"{k[0]}/{k[1]}": n for k, n in sorted(Counter(
        (s["fam"], s["clause"]) for s in stimuli).items())}
    core.pipeline(out, "c19", behaviours, "Requests_Trace", lock_mode="exact", chunk=150,
                  site_of=lambda tr, k: tr["ev"][k - 1]["site"], tags_of=tags_of)
    out.rule = ("every abstract request of Requests_Gen (well-formed bases and every request in scope violating "
                "exactly one named precondition clause: wrong multiplicand size incl. broadcastable 1 and multiples, "
                "wrong multiplicand count, modes out of range / negative / repeated, non-permutations, element-count "
                "changes, mismatched shapes, inconsistent constructor components, inconsistent algorithm options) "
                "instantiated on every class that offers the operation; non-trivial = ill-formed request")
    out.exhaustive = True
    out.trusted = ["instantiation of abstract requests in harness/c19.py calls()", "byte snapshots (harness/c05.py)", "TLC"]
    out.assumptions = ["only clauses named in the property statement are negated; documented permissive behaviours are "
                       "not part of Pre"]
    return core.finish(out)


if __name__ == "__main__":
    core.main_wrap(main)
