"""C09 — CP-ALS returns a model consistent with everything it reports (spec: CpAls*.tla)."""
from __future__ import annotations

import contextlib
import hashlib
import io
import json
import warnings
from typing import List

import numpy as np

import core
import tla
from core import Outcome

PROP = "C09"


class Recorder:
    """duck-typed wrapper around the data tensor: records every mttkrp call (mode, factor identities)"""

    def __init__(self, X, ids):
        self._X = X
        self.calls: List = []
        self._ids = ids

    ndims = property(lambda s: s._X.ndims)
    shape = property(lambda s: s._X.shape)

    def norm(self):
        return self._X.norm()

    def innerprod(self, other):
        return self._X.innerprod(other)

    def nvecs(self, n, r, flipsign=True):
        return self._X.nvecs(n, r)

    def mttkrp(self, U, n):
        self.calls.append([int(n), [self._ids(u) for u in (U.factor_matrices if hasattr(U, "factor_matrices") else U)]])
        return self._X.mttkrp(U, n)


def make_ids():
    table = {}

    def ids(a):
        h = hashlib.md5(np.ascontiguousarray(a).tobytes() + str(a.shape).encode()).hexdigest()
        return table.setdefault(h, len(table) + 1)
    return ids


def make_data(kind: str, shape, seed: int, rank: int, dtype: str = "float"):
    """data in the requested holder and its dense float reference.  dtype "int": integer-valued data stored as int64
    (count-like data; the element type is a presentation - the fit must not depend on it)"""
    X, Xd = _make_data(kind, shape, seed, rank, integral=(dtype in ("int", "int8")))
    if dtype == "int8" and kind in ("dense", "sparse"):
        # counts stored in 8 bits: every entry fits, sums of squares do not
        import bind
        ttb = bind.ttb
        small = np.clip(np.round(Xd.data), -100, 100)
        Xd = ttb.tensor(small.astype(float))
        Xi = ttb.tensor(small.astype(np.int8))
        X = Xi if kind == "dense" else Xi.to_sptensor()
        if kind == "sparse":
            # the sparse holder keeps the sparsity pattern _make_data chose: its dense reference is Xd itself
            Xd = ttb.tensor(X.full().data.astype(float))
        return X, Xd
    if dtype == "int" and kind in ("dense", "sparse"):
        import bind
        ttb = bind.ttb
        Xi = ttb.tensor(np.round(Xd.data).astype(np.int64))
        X = Xi if kind == "dense" else Xi.to_sptensor()
        assert X.data.dtype == np.int64 if kind == "dense" else X.vals.dtype == np.int64
    return X, Xd


def _make_data(kind: str, shape, seed: int, rank: int, integral: bool = False):
    import bind
    ttb = bind.ttb
    rng = np.random.RandomState(seed)
    # low rank + noise, unfoldings of rank >= requested rank
    U = [rng.rand(s, max(rank, 2) + 1) for s in shape]
    # component sizes in the order (middle, small, large, ...): sorting them is not an involution
    wts = np.array([2.0, 1.0, 3.0, 5.0, 4.0, 6.0])[:U[0].shape[1]] if U[0].shape[1] >= 3 else np.arange(1, U[0].shape[1] + 1, dtype=float)
    base = ttb.ktensor(U, wts).full().data + 0.1 * rng.rand(*shape)
    if integral:
        base = np.round(4 * base)
    X = ttb.tensor(base)
    if kind == "dense":
        return X, X
    if kind == "sparse":
        D = base.copy()
        D[rng.rand(*shape) < 0.3] = 0
        if seed % 2 == 0 and len(shape) >= 3 and max(shape) >= 4:
            # a sparsely populated mode: the upper half of the slices of the longest mode holds no data (the sparse
            # holder then answers its single-mode products in sparse form)
            k = int(np.argmax(shape))
            idx = [slice(None)] * len(shape)
            idx[k] = slice(shape[k] // 2, None)
            D[tuple(idx)] = 0
        if integral and np.count_nonzero(D) < 2:
            D.reshape(-1)[:2] = [1, 2]
        S = ttb.tensor(D).to_sptensor()
        return S, ttb.tensor(D)
    if kind == "ttensor":
        cr = [min(s, max(rank, 2)) for s in shape]
        core_t = ttb.tensor(rng.rand(*cr))
        T = ttb.ttensor(core_t, [rng.rand(s, k) for s, k in zip(shape, cr)])
        return T, T.full()
    if kind == "sum":
        S = ttb.tensor(np.where(rng.rand(*shape) < 0.5, base, 0)).to_sptensor()
        K = ttb.ktensor([rng.rand(s, 2) for s in shape], np.array([1.0, 0.5]))
        return ttb.sumtensor([S, K]), ttb.tensor(S.full().data + K.full().data)
    raise ValueError(kind)


def np_mttkrp(Xa: np.ndarray, U, n: int) -> np.ndarray:
    """plain numpy MTTKRP (part of the trusted base: independent of pyttb's kernels)"""
    N = Xa.ndim
    R = U[0].shape[1] if n != 0 else U[1].shape[1]
    out = np.zeros((Xa.shape[n], R))
    for r in range(R):
        T = Xa
        # contract the modes from the last to the first so that axis numbers stay valid
        for m in range(N - 1, -1, -1):
            if m != n:
                T = np.tensordot(T, U[m][:, r], axes=([m], [0]))
        out[:, r] = T
    return out


def e9(x: float) -> int:
    x = float(x)
    return 2000000000 if x != x else int(min(abs(x) * 1e9, 2e9))


def run_config(c: dict) -> dict:
    """one trace: start, kernel*, return, truncated*"""
    import bind
    import c05
    ttb = bind.ttb
    shape = tuple(c["shape"])
    N = len(shape)
    rank = c["rank"]
    X, Xd = make_data(c["kind"], shape, c["seed"], rank, c.get("dtype", "float"))
    # the magnitude of the data is a presentation: CP-ALS is equivariant under a power-of-two factor (exact in
    # floating point), so the run on sc * X is observed through M / sc and normresidual / sc
    sc = 2.0 ** int(c.get("scale2", 0)) if (c.get("dtype", "float") == "float" and c["kind"] in ("dense", "sparse", "ttensor")) else 1.0
    if sc != 1.0:
        if c["kind"] == "dense":
            X = ttb.tensor(X.data * sc)
        elif c["kind"] == "sparse":
            X = ttb.sptensor(X.subs.copy(), X.vals * sc, X.shape)
        else:
            # (history of the object: its norm was asked for before the core was rescaled in place)
            X.norm()
            X.core.data[...] = X.core.data * sc
    ids = make_ids()
    rng = np.random.RandomState(c["seed"] + 7)
    init_kt = ttb.ktensor([rng.rand(s, rank) for s in shape], np.ones(rank))
    if c.get("eye") and c["kind"] == "dense":     # (positive dense data: no component of the guess is orthogonal to it)
        # a guess whose columns are exactly orthogonal (disjoint supports covering every row, so that no component is
        # orthogonal to the data): the Gram matrices have exact zeros
        init_kt = ttb.ktensor([np.array([[1.0 if (i + k) % rank == r else 0.0 for r in range(rank)] for i in range(s)])
                               for k, s in enumerate(shape)], np.ones(rank))
    dimorder = np.array(c["dimorder"], dtype=int)
    optdims = np.array(c["optdims"], dtype=int)

    def run(maxiters, stoptol, printitn, fixsigns, init_mode):
        rec = Recorder(X, ids)
        if init_mode == "given":
            init = init_kt.copy()
        else:
            init = init_mode
            np.random.seed(c["seed"])
        snap_x = c05.snapshot(X)
        snap_i = c05.snapshot(init) if init_mode == "given" else None
        buf = io.StringIO()
        with contextlib.redirect_stdout(buf), warnings.catch_warnings():
            warnings.simplefilter("ignore")
            M, Minit, out = ttb.cp_als(rec, rank, stoptol=stoptol, maxiters=maxiters, dimorder=dimorder.copy(),
                                       optdims=optdims.copy(), init=init, printitn=printitn, fixsigns=fixsigns)
        return rec, M, Minit, out, init, c05.snapshot(X) == snap_x, (snap_i is None or c05.snapshot(init) == snap_i)

    tr = {"init": {}, "cfg": c, "ev": []}
    try:
        rec, M, Minit, out, init, x_ok, i_ok = run(c["maxiters"], c["stoptol"], c["printitn"], c["fixsigns"], c["init"])
    except Exception as e:
        tr["ev"].append({"op": "start", "args": {"cfg": {"N": N, "dimorder": c["dimorder"], "optdims": c["optdims"],
                                                          "maxiters": c["maxiters"], "generic": bool(rank < min(shape) and len([d for d in c["dimorder"] if d in c["optdims"]]) >= 2)}, "ids": []},
                         "ret": {"raised": f"{type(e).__name__}: {e}"[:150]}})
        return tr
    init_ids = [ids(f) for f in Minit.factor_matrices]
    tr["ev"].append({"op": "start", "args": {"cfg": {"N": N, "dimorder": c["dimorder"], "optdims": c["optdims"],
                                                     "maxiters": c["maxiters"], "generic": bool(rank < min(shape) and len([d for d in c["dimorder"] if d in c["optdims"]]) >= 2)}, "ids": init_ids}})
    for n, cid in rec.calls:
        tr["ev"].append({"op": "kernel", "args": {"n": n, "ids": cid}})
    # observations on the returned triple, recomputed independently with numpy on dense arrays
    if sc != 1.0:
        M = ttb.ktensor([f.copy() for f in M.factor_matrices], M.weights / sc)
        out = dict(out, normresidual=out["normresidual"] / sc)
    Mf = M.full().data
    Xn = np.linalg.norm(Xd.data)
    res_re = np.linalg.norm(Xd.data - Mf)
    if c["kind"] == "sum":   # norm of a sum tensor is not available: the reported value is ||M||^2 - 2<X,M>
        fit_re = np.linalg.norm(Mf) ** 2 - 2 * float(np.sum(Xd.data * Mf))
        res_rep_re = fit_re
    else:
        fit_re = 1 - res_re / Xn
        res_rep_re = res_re
    eff = [d for d in c["dimorder"] if d in c["optdims"]]
    nl = eff[-1]
    # stationarity of the factor updated last: (U_n diag(lambda)) * Y = X_(n) * KR
    others = [m for m in range(N) if m != nl]
    Y = np.ones((rank, rank))
    for m in others:
        Y = Y * (M.factor_matrices[m].T @ M.factor_matrices[m])
    lhs = (M.factor_matrices[nl] * M.weights) @ Y
    rhs = np_mttkrp(Xd.data, M.factor_matrices, nl)
    stat = np.linalg.norm(lhs - rhs) / max(1.0, np.linalg.norm(rhs))
    colnorm = [np.linalg.norm(f, axis=0) for f in M.factor_matrices]
    unit = all(np.all((np.abs(cn - 1) < 1e-8) | (cn < 1e-12)) for cn in colnorm)
    w = M.weights
    obs = {"iters_reported": int(out["iters"]),
           "rank_and_shape_ok": bool(M.ncomponents == rank and tuple(M.shape) == shape),
           "unit_columns": bool(unit),
           "weights_nonneg_sorted": bool(np.all(w >= -1e-12) and np.all(np.diff(w) <= 1e-9 * max(1.0, float(np.max(np.abs(w)))))),
           # compared through the squared residual (the well-conditioned quantity: a residual near 0 carries an
           # absolute error of sqrt(eps) * ||X|| whichever way it is computed)
           "fit_dev": (e9((out["fit"] - fit_re) / max(1.0, abs(fit_re))) if c["kind"] == "sum" else
                       e9((((1 - out["fit"]) * Xn) ** 2 - res_re ** 2) / max(1.0, Xn ** 2))),
           "res_dev": (e9((out["normresidual"] - res_rep_re) / max(1.0, abs(res_rep_re))) if c["kind"] == "sum" else
                       e9((out["normresidual"] ** 2 - res_re ** 2) / max(1.0, Xn ** 2))),
           "stationarity_dev": e9(stat),
           "data_untouched": bool(x_ok), "init_untouched": bool(i_ok),
           "returned_init_is_the_one_used": bool(len(rec.calls) > 0 and rec.calls[0][1] == init_ids)}
    tr["ev"].append({"op": "return", "args": obs})
    # truncated runs from the same start (stoptol = 0, no printing)
    if c["init"] == "given" and c["kind"] != "sum":
        for k in range(1, c["maxiters"] + 1):
            rk, Mk, _, outk, _, _, _ = run(k, 0.0, 0, c["fixsigns"], "given")
            tr["ev"].append({"op": "truncated", "args": {"k": k, "calls": rk.calls, "fit": (-int(round((1 - outk["fit"]) ** 2 * 1e9)) if np.isfinite(outk["fit"]) and abs(outk["fit"]) < 2 else -2000000000)}})
    return tr


def record(stim: dict) -> dict:
    return run_config(stim["cfg"])


def replay(b: dict) -> dict:
    tr = run_config(b)
    return {"traces": [tr], "divs": [{"site": "cp_als(" + b["kind"] + ")", "why": "candidate", "expected": None,
                                      "detail": "", "trace_index": 0, "event": i + 1} for i in range(len(tr["ev"]))],
            "events": len(tr["ev"]), "nontrivial": [json.dumps(b, sort_keys=True)]}


def configs(cfgs: List[dict], tier: str) -> List[dict]:
    out = []
    kinds = ["dense", "sparse", "ttensor", "sum"]
    inits = ["given", "given", "random", "nvecs"]
    i = 0
    for c in cfgs:
        for kind in kinds:
            if tier == "quick" and (i % 3) and kind in ("ttensor", "sum"):
                i += 1
                continue
            init = inits[i % 4]
            if kind == "sum" and init == "nvecs":
                init = "given"
            shape = ([3, 4, 3, 3][:c["N"]] if i % 4 == 1 else [3, 4, 2, 3][:c["N"]]) if i % 2 else [4, 3, 3, 2][:c["N"]]
            # options are drawn independently of the loop counters (a fixed pseudo-random stream per configuration):
            # correlated choices had hidden "sum-tensor data with printing" and "rank 3" from the quick tier
            import random
            rr = random.Random(1000 * core.seed() + i)
            out.append({"shape": shape, "kind": kind, # in scope: unfoldings of rank >= requested rank, i.e. rank <= smallest mode size
                        "rank": rr.choice([r for r in (1, 2, 2, 3, 3) if r <= min(shape)]),
                        "seed": core.seed() + i % 7, "dimorder": c["dimorder"], "optdims": c["optdims"],
                        "maxiters": c["maxiters"], "stoptol": rr.choice([0.0, 1e-4]), "printitn": rr.choice([0, 1, 2]),
                        "fixsigns": rr.choice([False, True]), "init": init,
                        "dtype": rr.choice(["float", "float", "int", "int8"]) if kind in ("dense", "sparse") else "float",
                        "scale2": rr.choice([0, 0, -40, 30, -70]), "eye": rr.random() < 0.25})
            i += 1
    return out


def main(tier: str) -> int:
    rp = core.replay_arg()
    if rp:
        data = json.loads(open(rp).read())
        tr = run_config(data["stimulus"]["cfg"])
        tv = tla.validate_traces("CpAls_Trace", [tr])
        if tv.rejected:
            print(f"VIOLATION property={PROP} replay={rp}  # event {tv.rejected[0]['event']}: {tv.rejected[0]['why']}")
            return 1
        print(f"{PROP}: replay accepted")
        return 0
    out = Outcome(PROP, tier)
    mc = ("SPECIFICATION MCSpec\nCONSTANTS\n NMax = 3\n MaxIt = %d\n Jacobi = %s\nINVARIANT NeverStuck\nINVARIANT IterBound\n"
          "INVARIANT NonOptFixed\nINVARIANT SweepFair\nINVARIANT JacobiRefused\n")
    mi = 3 if tier == "quick" else 4
    r = tla.run_tlc("CpAls_MC", mc % (mi, "FALSE"), workers=4)
    out.add_tlc(r)
    r2 = tla.run_tlc("CpAls_MC", mc % (mi, "TRUE"), workers=4)
    out.add_tlc(r2)
    if not (r2.distinct < r.distinct):
        out.machinery_errors.append("specification sanity check failed: a Jacobi-style implementation is not refused")
    seen, cfgs = set(), []
    for c in r.json:
        k = json.dumps(c, sort_keys=True)
        if k not in seen:
            seen.add(k)
            cfgs.append(c)
    # order 4 (interior-mode kernels) is run on a few mode orders; the control skeleton itself is
    # model-checked up to order 3
    for d in ([0, 1, 2, 3], [0, 1, 3, 2], [2, 0, 3, 1], [3, 2, 1, 0]):
        cfgs.append({"N": 4, "dimorder": d, "optdims": [0, 1, 2, 3], "maxiters": 2})
        cfgs.append({"N": 4, "dimorder": d, "optdims": [1, 2], "maxiters": 2})
    runs = configs(cfgs, tier)
    out.notes["control_configurations"] = len(cfgs)
    out.notes["runs"] = len(runs)
    core.pipeline(out, "c09", runs, "CpAls_Trace", lock_mode="superset", chunk=150,
                  site_of=lambda tr, k: "cp_als(" + tr["cfg"]["kind"] + ")",
                  tags_of=lambda tr, k: [])
    out.rule = ("control skeleton model-checked for every mode order x every set of optimised modes x iteration limit "
                "(N <= 3) against an abstract Gauss-Seidel implementation (and a Jacobi one, which must be refused); "
                "every such configuration is run on dense / sparse / Tucker / sum data with given / random / nvecs "
                "starts, ranks 1-3, both tolerances, sign fixing on/off, three printing intervals; one trace per run: "
                "start, every kernel call with factor identities, return observations, truncated runs")
    out.exhaustive = True
    out.trusted = ["recording wrapper and numpy recomputation of fit / residual / stationarity in harness/c09.py", "TLC"]
    out.assumptions = ["fits compared with tolerance 1e-7; data are generic (low rank + noise), so an ALS update never "
                       "reproduces its input bit for bit"]
    return core.finish(out)


if __name__ == "__main__":
    core.main_wrap(main)
