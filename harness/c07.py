"""C07 — permute, reshape and squeeze are exact index maps (spec: IndexMaps*.tla)."""
from __future__ import annotations

import itertools
import json
import sys
from typing import Any, Dict, List

import numpy as np

import core
import tla
from core import Divergence, Outcome

PROP = "C07"

LAWS = ["LastOk", "RoundTrip", "FlatLaw", "HolderLaw", "ValuesKept"]


def shapes(tier: str) -> List[tuple]:
    all3 = [s for n in (1, 2, 3) for s in itertools.product((1, 2, 3), repeat=n)]
    if tier == "thorough":
        return all3 + [(2, 2, 2, 2), (2, 1, 3, 2), (1, 2, 2, 3)]
    return [(3,), (1,), (2, 3), (3, 1), (1, 1), (3, 3), (2, 3, 2), (1, 2, 3), (2, 1, 2),
            (3, 1, 1), (2, 2, 1, 2)]


def cfg(D: int, laws: bool, tier: str, maxfac: int = 3, rich: bool = True) -> str:
    s = ("SPECIFICATION Spec\nCONSTANTS\n"
         f" D = {D}\n MaxFac = {maxfac}\n AllOrders = {'TRUE' if tier == 'thorough' else 'FALSE'}\n"
         f" Rich = {'TRUE' if rich else 'FALSE'}\n"
         "INVARIANT LastOk\n")
    if laws:
        s += "".join(f"INVARIANT {x}\n" for x in LAWS[1:])
    return s


# ---------------------------------------------------------------------------
# replay of one behaviour into the real classes

def apply(obj, ev: dict):
    op, a = ev["op"], ev["args"]
    if op == "permute":
        # the form of the order argument is a presentation (rotated with the array layout)
        import bind
        form = {"default": lambda o: np.array(o, dtype=int), "swapped": lambda o: np.array(o, dtype=np.uint8),
                "strided": lambda o: np.array(o, dtype=np.int16), "grown": lambda o: np.array(o, dtype=np.uint32)}[bind.get_layout()]
        return obj.permute(form(a["order"]))
    if op == "reshape":
        # the spelling of the target shape is a presentation (rotated with the array layout): tuple, list, integer array,
        # and - for a single new mode - the bare integer
        import bind
        sh = [int(x) for x in a["shape"]]
        lay = bind.get_layout()
        target = {"default": tuple(sh), "swapped": list(sh), "strided": np.array(sh, dtype=np.int64),
                  "grown": (sh[0] if len(sh) == 1 else tuple(np.int64(x) for x in sh))}[lay] if sh else tuple(sh)
        if a["all"]:
            return obj.reshape(target)
        return obj.reshape(target, np.array(a["old"], dtype=int))
    if op == "squeeze":
        return obj.squeeze()
    raise ValueError(op)


# presentation of the VALUES: index maps move entries and change none, so the labels may equally be huge integers
# (label + 2^53, stored as int64: not representable as doubles).  The harness adds the offset to every non-zero entry on
# the way in and removes it on the way out; an entry that went through a double comes back as another label.
BIG = 2 ** 53


def is_big(b: dict) -> bool:
    import hashlib
    if b.get("big") is not None:
        return bool(b["big"])
    if b["init"].get("kind") not in ("dense", "sparse"):
        return False
    return hashlib.md5(json.dumps(b["init"], sort_keys=True).encode()).digest()[4] % 4 == 0


def to_big(obj):
    import bind
    ttb = bind.ttb
    if isinstance(obj, ttb.sptensor):
        if obj.nnz == 0:
            return obj
        v = np.round(obj.vals).astype(np.int64)
        return ttb.sptensor(obj.subs.copy(), np.where(v != 0, v + BIG, 0), obj.shape)
    if isinstance(obj, ttb.tensor):
        v = np.round(obj.data).astype(np.int64)
        return ttb.tensor(np.where(v != 0, v + BIG, 0))
    return obj


def from_big(res):
    import bind
    ttb = bind.ttb
    if isinstance(res, ttb.sptensor):
        if res.nnz == 0:
            return res
        return ttb.sptensor(res.subs.copy(), np.where(res.vals != 0, res.vals - BIG, 0), res.shape)
    if isinstance(res, ttb.tensor):
        return ttb.tensor(np.where(res.data != 0, res.data - BIG, 0))
    if isinstance(res, (int, float, np.number)):
        return res - BIG if res != 0 else res
    return res


def admissible(ret: dict, exp: dict) -> str:
    """Python-side lock-step comparison (same clauses as IndexMaps!…Why)."""
    import bind
    if ret.get("kind") != exp.get("kind"):
        return "result-kind"
    k = exp["kind"]
    if k == "scalar":
        return "ok" if ret["val"] == exp["val"] else "scalar-value"
    if k in ("ktensor", "ttensor"):
        return "ok" if ret == exp else f"{k}-parameters"
    if k == "dense":
        if "data_shape" in ret:
            return "dense-size"
        if ret["shape"] != exp["shape"]:
            return "shape"
        return "ok" if ret["v"] == exp["v"] else "entries-moved-wrongly"
    if k == "sparse":
        if len(ret["subs"]) != len(ret["vals"]):
            return "len(vals)#len(subs)"
        if ret["shape"] != exp["shape"]:
            return "shape"
        d = bind.den(ret)
        if d is None:
            return "subscript-out-of-range"
        if len({tuple(s) for s in ret["subs"]}) != len(ret["subs"]):
            return "duplicate-subscript"
        return "ok" if d == bind.den(exp) else "entries-moved-wrongly"
    return "unknown-kind"


def site_of(init_kind: str, op: str) -> str:
    cls = {"dense": "tensor", "sparse": "sptensor", "ktensor": "ktensor",
           "ttensor": "ttensor"}[init_kind]
    return f"{cls}.{op}"


def record(stim: dict) -> dict:
    """Re-execute a stored stimulus (init + events) on the real code; no expectations needed."""
    import bind
    obj = bind.gamma(stim["init"])
    big = is_big(stim)
    if big:
        obj = to_big(obj)
    tr = {"init": stim["init"], "big": big, "ev": []}
    for ev in stim["ev"]:
        try:
            obj = apply(obj, ev)
            ret = bind.alpha(from_big(obj) if big else obj)
        except bind.Inexact as e:
            ret = {"kind": "inexact", "msg": str(e)[:200]}
        except Exception as e:
            ret = {"kind": "raised", "msg": f"{type(e).__name__}: {e}"[:200]}
        tr["ev"].append({"op": ev["op"], "args": ev["args"], "ret": ret})
        if ret["kind"] in ("inexact", "raised", "scalar"):
            break
    return tr


def replay(b: dict) -> dict:
    """Drive the real object along behaviour b; return traces for (V) and lock-step divergences."""
    import bind
    traces = []
    divs = []
    obj = bind.gamma(b["init"])
    big = is_big(b)
    if big:
        obj = to_big(obj)
    cur = {"init": b["init"], "big": big, "ev": []}
    pre_spec = b["init"]
    nev = 0
    nontrivial = []
    for i, ev in enumerate(b["ev"]):
        nev += 1
        if ev["ret"] != pre_spec:
            nontrivial.append(json.dumps([pre_spec, ev["op"], ev["args"]], sort_keys=True))
        try:
            import c05
            snap = c05.snapshot(obj)
            res = apply(obj, ev)
            ret = bind.alpha(from_big(res) if big else res)
            if c05.snapshot(obj) != snap:
                ret = {"kind": "operand-changed"}
            elif res is not None and not isinstance(res, (int, float, np.number)) and c05.aliased(res, obj):
                # "change no value": also later, when the result is worked on in place
                ret = {"kind": "result-shares-storage"}
        except bind.Inexact as e:
            ret = {"kind": "inexact", "msg": str(e)[:200]}
            res = None
        except Exception as e:  # the call is inside its documented domain: raising is a failure
            ret = {"kind": "raised", "msg": f"{type(e).__name__}: {e}"[:200]}
            res = None
        cur["ev"].append({"op": ev["op"], "args": ev["args"], "ret": ret})
        why = admissible(ret, ev["ret"])
        if why != "ok":
            divs.append({"site": site_of(pre_spec["kind"], ev["op"]), "why": why,
                         "expected": ev["ret"],
                         "detail": json.dumps(ret)[:300], "trace_index": len(traces),
                         "event": len(cur["ev"])})
            traces.append(cur)
            # continue the behaviour from the specification's expected state
            cur = {"init": ev["ret"], "big": big, "ev": []}
            if ev["ret"]["kind"] == "scalar":
                break
            obj = bind.gamma(ev["ret"])
            if big:
                obj = to_big(obj)
        else:
            obj = res
        pre_spec = ev["ret"]
    traces.append(cur)
    return {"traces": traces, "divs": divs, "events": nev, "nontrivial": nontrivial}


# ---------------------------------------------------------------------------

def main(tier: str) -> int:
    if core.replay_arg():
        if json.loads(open(core.replay_arg()).read())["stimulus"].get("bits"):
            return core.replay_file(core.replay_arg(), PROP, "c07b", "IndexMaps_Bits_Trace")
        return core.replay_file(core.replay_arg(), PROP, "c07", "IndexMaps_Trace")
    out = Outcome(PROP, tier)
    shp = shapes(tier)
    jobs = []
    for s in shp:
        d = {"ShapeC": tla.tla(list(s))}
        jobs.append(dict(module="IndexMaps_Gen", cfg_text=cfg(0, True, tier), defs=d, timeout=1500))
        rich = tier == "thorough" or len(s) < 4
        jobs.append(dict(module="IndexMaps_Gen", cfg_text=cfg(1, False, tier, rich=rich), defs=d,
                         timeout=1500))
    # shapes with a mode of size zero (no entries, but the modes still move): dense, Kruskal and Tucker holders only -
    # the sparse class rejects such a shape at construction
    zero_shapes = [(2, 0, 3), (0, 2), (3, 1, 0)]
    nzero = (len(jobs), len(jobs) + len(zero_shapes))
    for s in zero_shapes:
        jobs.append(dict(module="IndexMaps_Gen", cfg_text=cfg(1, False, tier, rich=False), defs={"ShapeC": tla.tla(list(s))},
                         timeout=1500))
    # random chains of depth 4 on a few shapes (simulation mode)
    sim_shapes = [(2, 3, 2), (1, 2, 3), (2, 2, 1, 2)] if tier == "quick" else \
        [(2, 3, 2), (1, 2, 3), (3, 2, 1), (2, 2, 2, 2), (2, 1, 3, 2), (3, 3, 2), (2, 3)]
    nsim = 150 if tier == "quick" else 2000
    for s in sim_shapes:
        jobs.append(dict(module="IndexMaps_Gen", cfg_text=cfg(4, False, tier, maxfac=2, rich=False),
                         defs={"ShapeC": tla.tla(list(s))}, simulate=f"num={nsim}", depth=6,
                         seed=core.seed() + 1, timeout=1500))
    # wide shapes: the reshaped modes are longer than every mode of the operand (IndexMaps_Wide)
    wide = [((16, 10), "{{1, 160}, {7, 33, 97, 150, 160}}", "{<<160>>, <<2, 80>>, <<80, 2>>, <<4, 40>>}"),
            ((20, 30), "{{2, 299, 600}, {1, 255, 256, 257, 511, 513}}", "{<<600>>, <<2, 300>>, <<300, 2>>}")]
    if tier == "thorough":
        wide.append(((3, 50, 4), "{{1, 600}, {5, 128, 129, 384, 599}}", "{<<600>>, <<150, 4>>, <<3, 200>>, <<2, 300>>}"))
    nwide = len(jobs)
    for s, cells, targets in wide:
        jobs.append(dict(module="IndexMaps_Wide", cfg_text="SPECIFICATION Spec\nINVARIANT RoundTripWide\nINVARIANT LastOkWide\n",
                         defs={"ShapeC": tla.tla(list(s)), "CellSetsC": cells, "TargetsC": targets}, timeout=1500))
    results = tla.run_many(jobs)
    behaviours: List[dict] = []
    for k, r in enumerate(results):
        out.add_tlc(r)
        bs = [b for b in r.json if b["ev"]]
        if nzero[0] <= k < nzero[1]:
            bs = [b for b in bs if b["init"].get("kind") != "sparse"]
            out.notes["zero_size_behaviours"] = out.notes.get("zero_size_behaviours", 0) + len(bs)
        if k >= nwide:
            # narrow subscript types are part of the presentation of a sparse operand (bind.g_sparse, "strided")
            for i, b in enumerate(bs):
                if i % 2 == 0:
                    b["layout"] = "strided"
            out.notes["wide_behaviours"] = out.notes.get("wide_behaviours", 0) + len(bs)
        behaviours += bs
    # tiny operands (one or two cells: the results include bare scalars) are run under both value presentations
    extra = []
    for b in behaviours:
        if b["init"].get("kind") in ("dense", "sparse") and int(np.prod(b["init"]["shape"])) <= 2 and "big" not in b:
            b["big"] = False
            extra.append(dict(b, big=True))
    behaviours += extra
    out.notes["tlc_runs"] = len(jobs)
    out.notes["shapes"] = [list(s) for s in shp]
    out.notes["behaviours"] = len(behaviours)

    # power-of-two shapes with up to 2^62 cells: subscripts as bit strings (IndexMaps_Bits)
    pairs = ("{<<<<20, 20, 20>>, <<30, 30>>>>, <<<<30, 30>>, <<20, 20, 20>>>>, <<<<31, 29>>, <<7, 53>>>>, <<<<55, 3, 2>>, <<2, 58>>>>, "
             "<<<<15, 15, 15, 15>>, <<60>>>>, <<<<62>>, <<31, 31>>>>}")
    rb = tla.run_tlc("IndexMaps_Bits_Gen", "SPECIFICATION Spec\nINVARIANT RoundTrip\nINVARIANT Injective\n", defs={"Pairs": pairs},
                     timeout=1500)
    out.add_tlc(rb)
    out.notes["bit_string_behaviours"] = len(rb.json)
    core.pipeline(out, "c07b", rb.json, "IndexMaps_Bits_Trace", lock_mode="superset",
                  site_of=lambda tr, k: "sptensor.reshape(2^k modes)")
    core.pipeline(out, "c07", behaviours, "IndexMaps_Trace",
                  site_of=lambda tr, k: site_of(tr["init"]["kind"] if k == 1 else
                                                tr["ev"][k - 2]["ret"]["kind"], tr["ev"][k - 1]["op"]))
    out.rule = ("every behaviour of IndexMaps_Gen for the listed shapes (depth 1 exhaustive: all mode "
                "orders, all ordered factorizations into <=3 modes, every list of old modes for "
                "sparse, all sparsity pattern classes and stored orders, four holders) plus simulated "
                "chains of depth 4; non-trivial = the expected result differs from the operand")
    out.exhaustive = True
    out.trusted = ["alpha/gamma in harness/bind.py (plain constructors and attribute reads)",
                   "TLC 1.8 evaluation of the specification"]
    out.assumptions = ["small-scope: no defect needs a mode size > 3 or order > 4 (DESIGN 2.5)",
                       "index maps are parametric in the values, so pairwise distinct labels suffice"]
    return core.finish(out)


if __name__ == "__main__":
    core.main_wrap(main)
