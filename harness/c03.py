"""C03 — sparse element-wise arithmetic, logic, comparison match dense semantics (Elementwise*.tla)."""
from __future__ import annotations

import json
import operator
from typing import List

import numpy as np

import core
import tla
from core import Outcome

PROP = "C03"
BIN = ["add", "sub", "mul", "div", "and", "or", "xor", "eq", "ne", "lt", "le", "gt", "ge"]
UN = ["not", "neg", "pos", "ones", "elem_neg", "elem_sq", "elem_dec", "elem_inc"]
PYOP = {"add": operator.add, "sub": operator.sub, "mul": operator.mul, "div": operator.truediv,
        "eq": operator.eq, "ne": operator.ne, "lt": operator.lt, "le": operator.le,
        "gt": operator.gt, "ge": operator.ge}
SYM = {"add": "__add__", "sub": "__sub__", "mul": "__mul__", "div": "__truediv__", "and": "logical_and",
       "or": "logical_or", "xor": "logical_xor", "eq": "__eq__", "ne": "__ne__", "lt": "__lt__",
       "le": "__le__", "gt": "__gt__", "ge": "__ge__", "rmul": "__rmul__", "rdiv": "__rtruediv__",
       "not": "logical_not", "neg": "__neg__", "pos": "__pos__", "ones": "ones"}
RK = {"scalar": "scalar", "dense": "tensor", "sparse": "sptensor"}


def cfg(ops, all_orders, sl, sr, laws=True) -> str:
    st = lambda xs: "{" + ", ".join(f'"{x}"' for x in xs) + "}"
    return ("SPECIFICATION Spec\nCONSTANTS\n OpsC = %s\n AllOrders = %s\n SchemesL = %s\n SchemesR = %s\n"
            % (st(ops), "TRUE" if all_orders else "FALSE", st(sl), st(sr))
            + "INVARIANT CanonicalOk\n" + ("INVARIANT DomainLaws\n" if laws else ""))


def plan(tier: str):
    """[(shape, ops-shards, all_orders, schemesL, schemesR)]"""
    shards = [[o] for o in BIN] + [["rmul", "rdiv"] + UN]
    if tier == "thorough":
        few = [["mul"], ["div"], ["eq"], ["ne"], ["le"], ["gt"], ["and"], ["sub"], ["xor"]]
        return [((2, 2), shards, True, "AB", "AB"), ((4,), shards, True, "AB", "AB"),
                ((2, 1, 2), shards, True, "AB", "AB"), ((3,), shards, True, "AB", "AB"),
                ((2, 3), shards, False, "AB", "AB"), ((2, 2, 2), few, False, "A", "B")]
    return [((2, 2), shards, False, "AB", "AB"), ((3,), shards, True, "AB", "AB"),
            ((2, 1, 2), [["mul", "div", "eq"], ["ne", "le", "gt"], ["and", "sub", "xor"]], False, "A", "B"),
            ((2, 3), [["mul"], ["div"], ["eq"], ["le"], ["ne"]], False, "A", "B")]


# the answers of these operators depend only on which entries are zero (logic) or on the order of the two
# values (comparisons), so a common positive power-of-two factor on BOTH operands is a presentation of the call
SCALE_FREE = {"and", "or", "xor", "not", "ones", "eq", "ne", "lt", "le", "gt", "ge"}
MAGS = (0, 0, -600, 600)


def mag_of(b: dict) -> int:
    import hashlib
    if b.get("mag") in MAGS:
        return b["mag"]
    return MAGS[hashlib.md5(json.dumps([b["init"], b["ev"]], sort_keys=True).encode()).digest()[2] % len(MAGS)]


def apply(S, ev: dict, mag: int = 0):
    import bind
    ttb = bind.ttb
    op = ev["op"]
    rv = ev["args"]["rhs"]
    if rv["kind"] == "scalar":
        # the type of a scalar operand is a presentation (rotated with the array layout): Python float / int, or the
        # numpy scalars that arithmetic on arrays produces (X.data.max(), np.float32 settings, ...)
        v = float(rv["val"])
        r = {"default": float, "swapped": (np.int64 if v.is_integer() else np.float64),
             # (a quotient by a float32 scalar is rounded to float32 by numpy's own promotion rules: float64 there)
             "strided": (np.float64 if op in ("div", "rdiv") else np.float32), "grown": ((np.uint8 if v >= 0 else int) if v.is_integer() else float)}[bind.get_layout()](v)
    else:
        r = bind.gamma(rv)
    if mag and op in SCALE_FREE and S.vals.dtype.kind == "f":
        f = 2.0 ** mag
        S = ttb.sptensor(S.subs.copy(), S.vals * f, S.shape)
        if rv["kind"] == "scalar":
            r = float(r) * f
        elif isinstance(r, ttb.sptensor):
            r = ttb.sptensor(r.subs.copy(), r.vals * f, r.shape)
        else:
            r = ttb.tensor(r.data * f)
    lay = bind.get_layout()
    # two more presentations that leave the specified result unchanged (all factors are powers of two: exact)
    if op in ("mul", "rmul") and rv["kind"] == "scalar" and lay in ("swapped", "strided") and mag:
        # (S 2^-40) * (c 2^-40) = (S c) 2^-80: small products are entries like any other
        S2 = ttb.sptensor(S.subs.copy(), S.vals.astype(float) * 2.0 ** -40, S.shape)
        c2 = float(r) * 2.0 ** -40
        with np.errstate(all="ignore"):
            out = S2 * c2 if op == "mul" else c2 * S2
        if isinstance(out, ttb.sptensor):
            return ttb.sptensor(out.subs.copy(), out.vals * 2.0 ** 80, out.shape) if out.nnz else out
        return out
    if op == "div" and rv["kind"] == "dense" and lay in ("swapped", "grown") and isinstance(r, ttb.tensor) and r.data.dtype.kind == "f" \
            and np.any(r.data == 0):
        # the zeros of the dense divisor stored as negative zeros (what -T or T * -1 leave behind): x / -0 = -(x / 0), so
        # the infinite quotients over those zeros come back with the opposite sign and are flipped here
        zero = r.data == 0
        T2 = ttb.tensor(np.where(zero, -0.0, r.data))
        with np.errstate(all="ignore"):
            out = S / T2
        if isinstance(out, ttb.sptensor) and out.nnz:
            v = out.vals.astype(float).copy()
            flip = np.isinf(v[:, 0]) & zero[tuple(out.subs.T)]
            v[flip, 0] = -v[flip, 0]
            return ttb.sptensor(out.subs.copy(), v, out.shape)
        if isinstance(out, ttb.tensor):
            d = out.data.astype(float).copy()
            flip = np.isinf(d) & zero
            d[flip] = -d[flip]
            return ttb.tensor(d)
        return out
    if op in ("add", "sub") and rv["kind"] == "dense" and lay in ("grown", "default") and mag and \
            np.all(r.data == np.round(r.data)):
        # S = S/2 + S/2: the sparse operand holds halves, the dense operand is stored as integers; the second half is
        # added by the harness in numpy
        half = ttb.sptensor(S.subs.copy(), S.vals.astype(float) * 0.5, S.shape)
        Tint = ttb.tensor(np.round(r.data).astype(np.int64))
        with np.errstate(all="ignore"):
            out = PYOP[op](half, Tint)
        if isinstance(out, ttb.tensor):
            dense_half = np.zeros(S.shape)
            if half.nnz:
                dense_half[tuple(half.subs.T)] = half.vals[:, 0]
            return ttb.tensor(out.data.astype(float) + dense_half)
        return out
    with np.errstate(all="ignore"):
        if op in PYOP:
            return PYOP[op](S, r)
        if op == "and":
            return S.logical_and(r)
        if op == "or":
            return S.logical_or(r)
        if op == "xor":
            return S.logical_xor(r)
        if op == "rmul":
            return r * S
        if op == "rdiv":
            return r / S
        if op == "not":
            return S.logical_not()
        if op == "neg":
            return -S
        if op == "pos":
            return +S
        if op == "ones":
            return S.ones()
        if op == "elem_neg":
            return S.elemfun(lambda v: -v)
        if op == "elem_sq":
            return S.elemfun(lambda v: v * v)
        if op == "elem_dec":
            return S.elemfun(lambda v: v - 1)
        if op == "elem_inc":
            return S.elemfun(lambda v: v + 1)
    raise ValueError(op)


def call(S, ev, mag: int = 0):
    import bind
    ttb = bind.ttb
    try:
        import c05
        before = c05.snapshot(S)
        r = apply(S, ev, mag)
        if c05.snapshot(S) != before:
            return {"kind": "operand-changed"}
        if ev["op"] == "div" and ev["args"]["rhs"]["kind"] == "scalar" and isinstance(r, (ttb.tensor, ttb.sptensor)) \
                and S.vals.dtype.kind == "f" and not mag:
            # every stored quotient is THE correctly rounded IEEE quotient (what the expanded array gives), not a
            # product with a rounded reciprocal: compared bit for bit with numpy's own division
            c = float(ev["args"]["rhs"]["val"])
            if c != 0:
                got = r.full().data if isinstance(r, ttb.sptensor) else r.data
                ref = np.zeros(S.shape)
                if S.nnz:
                    ref[tuple(S.subs.T)] = S.vals[:, 0] / c
                if not np.array_equal(got, ref):
                    return {"kind": "inexact", "msg": "a quotient by a scalar is not the correctly rounded quotient"}
        if isinstance(r, (ttb.tensor, ttb.sptensor)):
            return bind.alpha(r, conv=bind.rat)
        return {"kind": "other", "type": type(r).__name__}
    except bind.Inexact as e:
        return {"kind": "inexact", "msg": str(e)[:200]}
    except Exception as e:
        return {"kind": "raised", "msg": f"{type(e).__name__}: {e}"[:200]}


def den_q(ret: dict):
    if ret["kind"] == "dense":
        if "data_shape" in ret:
            return None
        return ret["shape"], ret["v"]
    if ret["kind"] != "sparse" or len(ret["subs"]) != len(ret["vals"]):
        return None
    shape = ret["shape"]
    n = int(np.prod(shape, dtype=int))
    flat = [["q", 0, 1] for _ in range(n)]
    seen = set()
    for sub, v in zip(ret["subs"], ret["vals"]):
        if len(sub) != len(shape) or any(not (0 <= i < s) for i, s in zip(sub, shape)):
            return None
        if tuple(sub) in seen:
            return None
        seen.add(tuple(sub))
        lin, mul = 0, 1
        for i, s in zip(sub, shape):
            lin += i * mul
            mul *= s
        flat[lin] = v
    return shape, flat


def site_of(ev: dict) -> str:
    return f"sptensor.{SYM.get(ev['op'], 'elemfun')}" + (
        f"({RK[ev['args']['rhs']['kind']]})" if ev["op"] in BIN else "")


def tags_of(tr: dict, k: int) -> List[str]:
    """stimulus predicates used by known_findings.json"""
    ev = tr["ev"][k - 1]
    rhs = ev["args"]["rhs"]
    S = tr["init"]
    tags = []
    if rhs["kind"] == "sparse":
        common_l = [tuple(s) for s in S["subs"] if s in rhs["subs"]]
        common_r = [tuple(s) for s in rhs["subs"] if s in S["subs"]]
        if common_l != common_r:
            tags.append("common_subs_in_different_relative_order")
        if len(S["subs"]) == 0 or len(rhs["subs"]) == 0:
            tags.append("an_operand_stores_no_entries")
    if rhs["kind"] == "dense":
        if any(v == 0 for v in rhs["v"]):
            tags.append("dense_operand_has_zeros")
    if rhs["kind"] == "scalar":
        tags.append("scalar_zero" if rhs["val"] == 0 else "scalar_nonzero")
    if len(S["subs"]) == 0:
        tags.append("receiver_stores_no_entries")
    if len(S["subs"]) == 1:
        tags.append("receiver_stores_one_entry")
    if any(v < 0 for v in S["vals"]):
        tags.append("receiver_has_negative_values")
    # known upstream conventions: tag the event only if the observed result is EXACTLY what the
    # convention produces, so that any other deviation at the same site is still a violation
    if ev["op"] == "div" and rhs["kind"] in ("sparse", "dense") and ev["ret"].get("kind") in ("sparse", "dense"):
        import bind
        shape = S["shape"]
        x = bind.den(S)[1]
        y = bind.den(rhs)[1]
        d = den_q(ev["ret"])
        if d is not None:
            def q(a, b):
                if b == 0:
                    return ["nan", 0, 1] if a == 0 else (["pinf", 0, 1] if a > 0 else ["ninf", 0, 1])
                return bind.rat(a / b)
            if rhs["kind"] == "sparse":
                alt = [(["nan", 0, 1] if (a != 0 and b == 0) else q(a, b)) for a, b in zip(x, y)]
                if d[1] == alt and any(a != 0 and b == 0 for a, b in zip(x, y)):
                    tags.append("only_deviation_is_nan_for_nonzero_over_zero")
            else:
                alt = [(["q", 0, 1] if a == 0 else q(a, b)) for a, b in zip(x, y)]
                if d[1] == alt and any(a == 0 and b == 0 for a, b in zip(x, y)):
                    tags.append("only_deviation_is_zero_for_zero_over_zero")
    return tags


def record(stim: dict) -> dict:
    import bind
    S = bind.g_sparse(stim["init"])
    mag = mag_of(stim)
    return {"init": stim["init"], "mag": mag,
            "ev": [{"op": e["op"], "args": e["args"], "ret": call(S, e, mag)} for e in stim["ev"]]}


def replay(b: dict) -> dict:
    import bind
    S = bind.g_sparse(b["init"])
    mag = mag_of(b)
    tr = {"init": b["init"], "mag": mag, "ev": []}
    divs, nontrivial = [], []
    for i, ev in enumerate(b["ev"]):
        ret = call(S, ev, mag)
        tr["ev"].append({"op": ev["op"], "args": ev["args"], "ret": ret})
        exp = ev["ret"]
        if any(v != ["q", 0, 1] for v in exp["v"]):
            nontrivial.append(json.dumps([b["init"], ev["op"], ev["args"]], sort_keys=True))
        d = den_q(ret) if ret.get("kind") in ("dense", "sparse") else None
        if d is None or list(d[0]) != list(exp["shape"]) or d[1] != exp["v"]:
            divs.append({"site": site_of(ev), "why": "differs-from-dense-semantics", "expected": exp,
                         "detail": json.dumps(ret)[:300], "trace_index": 0, "event": i + 1})
    return {"traces": [tr], "divs": divs, "events": len(b["ev"]), "nontrivial": nontrivial}


def main(tier: str) -> int:
    if core.replay_arg():
        if json.loads(open(core.replay_arg()).read())["stimulus"].get("big"):
            return core.replay_file(core.replay_arg(), PROP, "c03b", "Elementwise_Big_Trace")
        return core.replay_file(core.replay_arg(), PROP, "c03", "Elementwise_Trace")
    out = Outcome(PROP, tier)
    jobs = []
    first = True
    for shape, shards, allo, sl, sr in plan(tier):
        for ops in shards:
            jobs.append(dict(module="Elementwise_Gen", cfg_text=cfg(ops, allo, sl, sr, laws=first),
                             defs={"ShapeC": tla.tla(list(shape))}, timeout=3400))
            first = False
    results = tla.run_many(jobs)
    behaviours = []
    for r in results:
        out.add_tlc(r)
        behaviours += r.json
    merged = {}
    for b in behaviours:
        key = json.dumps(b["init"], sort_keys=True)
        merged.setdefault(key, {"init": b["init"], "ev": []})["ev"] += b["ev"]
    groups = []
    for g in merged.values():
        for i in range(0, len(g["ev"]), 80):
            groups.append({"init": g["init"], "ev": g["ev"][i:i + 80]})
    from collections import Counter
    out.notes["calls_per_op_rhs"] = {f"{k[0]}/{k[1]}": n for k, n in sorted(Counter(
        (b["ev"][0]["op"], b["ev"][0]["args"]["rhs"]["kind"]) for b in behaviours).items())}
    out.notes["plan"] = [[list(p[0]), p[2], p[3], p[4]] for p in plan(tier)]
    # operands with more than 2048 stored entries (Elementwise_Big): values position by position
    ops_big = ["add", "mul", "eq", "le", "and", "xor"] if tier == "quick" else ["add", "sub", "mul", "eq", "ne", "lt", "le", "gt", "ge", "and", "or", "xor"]
    rbig = tla.run_tlc("Elementwise_Big_Gen", "SPECIFICATION Spec\nCONSTANTS\n NCells = 2496\n OpsC = {%s}\n" % ", ".join(f'"{o}"' for o in ops_big),
                       timeout=3000)
    out.add_tlc(rbig)
    out.notes["large_operand_calls"] = len(rbig.json)
    core.pipeline(out, "c03b", rbig.json, "Elementwise_Big_Trace", lock_mode="superset", chunk=6,
                  site_of=lambda tr, k: f"sptensor.{tr['ev'][k - 1]['args']['op']}({tr['ev'][k - 1]['args']['rk']}) [large]")
    core.pipeline(out, "c03", groups, "Elementwise_Trace", lock_mode="superset", chunk=300,
                  site_of=lambda tr, k: site_of(tr["ev"][k - 1]), tags_of=tags_of)
    out.rule = ("every call of Elementwise_Gen: for each shape ALL pairs of sparsity patterns of the two "
                "operands (2^k x 2^k), value schemes A (positive) / B (sign-mixed, differs from A everywhere), "
                "right-hand sides scalar {-2,0,3} / dense / sparse, 13 binary operators + reflected * and / + "
                "8 unary / elemfun forms; stored orders varied per pattern (all orders in the thorough tier); "
                "non-trivial = expected result has a non-zero somewhere")
    out.exhaustive = True
    out.trusted = ["alpha with rational projection (bind.rat), apply() in harness/c03.py", "TLC"]
    out.assumptions = ["arrays of <= 4 cells exhaustively in pattern pairs (6 cells for 5 operators; 8 cells in the "
                       "thorough tier for 9 operators); values are small integers so every quotient is an exact "
                       "small rational or an IEEE special"]
    return core.finish(out)


if __name__ == "__main__":
    core.main_wrap(main)
