"""Binding between specification values and real pyttb objects.

gamma(v)  : spec value (JSON as emitted by TLC)  -> real object
alpha(o)  : real object -> spec value (JSON fed to TLC)

Exact domain: every float that is (within 1e-9) an integer becomes that int.  Anything
else makes alpha raise Inexact, which the drivers turn into a verdict, never into a TLC
type error (DESIGN 2.2, uniform typing).
"""
from __future__ import annotations

import os
import sys
from fractions import Fraction
from typing import Any, List

import numpy as np

REPO = os.environ.get("VERIF_REPO", "/repo")
if REPO not in sys.path:
    sys.path.insert(0, REPO)
import pyttb as ttb  # noqa: E402

assert os.path.realpath(ttb.__file__).startswith(os.path.realpath(REPO) + os.sep), (
    f"pyttb imported from {ttb.__file__}, expected under {REPO}")


class Inexact(Exception):
    pass


def num(x: Any) -> int:
    """float -> exact int of the spec's value domain."""
    if isinstance(x, (bool, np.bool_)):
        return int(x)
    if isinstance(x, (int, np.integer)):
        return int(x)
    if isinstance(x, (complex, np.complexfloating)):
        if abs(x.imag) > 0:
            raise Inexact(f"complex value {x!r}")
        x = x.real
    xf = float(x)
    if xf != xf or xf in (float("inf"), float("-inf")):
        raise Inexact(f"non-finite value {xf!r}")
    r = round(xf)
    if abs(xf - r) > 1e-9 * max(1.0, abs(xf)):
        raise Inexact(f"non-integer value {xf!r}")
    if abs(r) >= 2 ** 31:
        raise Inexact(f"value {r} exceeds TLC's 32-bit integers")
    return int(r)


def rat(x: Any, maxden: int = 1000):
    """float -> ["q", n, d] | ["nan",0,1] | ["pinf",0,1] | ["ninf",0,1]  (uniform triples)."""
    xf = float(x)
    if xf != xf:
        return ["nan", 0, 1]
    if xf == float("inf"):
        return ["pinf", 0, 1]
    if xf == float("-inf"):
        return ["ninf", 0, 1]
    q = Fraction(xf).limit_denominator(maxden)
    if abs(float(q) - xf) > 1e-12 * max(1.0, abs(xf)):
        raise Inexact(f"value {xf!r} is not a small rational")
    return ["q", q.numerator, q.denominator]


def flatF(a: np.ndarray, conv=num) -> List[Any]:
    return [conv(x) for x in np.asarray(a).flatten(order="F")]


def matrix(a: np.ndarray, conv=num) -> List[List[Any]]:
    a = np.asarray(a)
    assert a.ndim == 2, f"matrix expected, got ndim={a.ndim}"
    return [[conv(x) for x in row] for row in a]


# ---------------------------------------------------------------------------
# alpha

def a_dense(t, conv=num) -> dict:
    shape = [int(s) for s in t.shape]
    if tuple(t.data.shape) != tuple(shape):
        # the object reports a shape its data does not have: report the data's true layout
        return {"kind": "dense", "shape": shape, "v": flatF(t.data, conv),
                "data_shape": [int(s) for s in t.data.shape]}
    return {"kind": "dense", "shape": shape, "v": flatF(t.data, conv)}


def a_sparse(s, conv=num) -> dict:
    shape = [int(x) for x in s.shape]
    subs = np.asarray(s.subs)
    vals = np.asarray(s.vals)
    if subs.size == 0:
        sl = []
    else:
        if subs.ndim != 2:
            raise Inexact(f"subs has ndim {subs.ndim}")
        if not np.issubdtype(subs.dtype, np.integer):
            # well-formedness: subscripts are integers (a float-typed subscript array breaks full(), indexing ...)
            raise Inexact(f"subscripts stored with non-integer dtype {subs.dtype}")
        sl = [[int(x) for x in row] for row in subs]
    vl = [] if vals.size == 0 else [conv(x) for x in vals.reshape(-1)]
    return {"kind": "sparse", "shape": shape, "subs": sl, "vals": vl}


def a_ktensor(k, conv=num) -> dict:
    return {"kind": "ktensor", "w": [conv(x) for x in np.asarray(k.weights).reshape(-1)],
            "U": [matrix(f, conv) for f in k.factor_matrices]}


def a_ttensor(t, conv=num) -> dict:
    core = t.core
    if isinstance(core, ttb.sptensor):
        core = core.full()
    return {"kind": "ttensor",
            "core": {"shape": [int(s) for s in core.shape], "v": flatF(core.data, conv)},
            "U": [matrix(f, conv) for f in t.factor_matrices]}


def a_tenmat(m, conv=num) -> dict:
    return {"kind": "tenmat", "tshape": [int(s) for s in m.tshape],
            "rdims": [int(x) for x in m.rindices], "cdims": [int(x) for x in m.cindices],
            "m": matrix(np.asarray(m.data).reshape(m.shape) if np.asarray(m.data).ndim != 2
                        else m.data, conv),
            "mshape": [int(s) for s in m.shape]}


def a_sptenmat(m, conv=num) -> dict:
    subs = np.asarray(m.subs)
    vals = np.asarray(m.vals)
    sl = [] if subs.size == 0 else [[int(x) for x in row] for row in subs]
    vl = [] if vals.size == 0 else [conv(x) for x in vals.reshape(-1)]
    return {"kind": "sptenmat", "tshape": [int(s) for s in m.tshape],
            "rdims": [int(x) for x in m.rdims], "cdims": [int(x) for x in m.cdims],
            "subs": sl, "vals": vl, "mshape": [int(s) for s in m.shape]}


def a_sum(s, conv=num) -> dict:
    return {"kind": "sum", "parts": [alpha(p, conv) for p in s.parts]}


def alpha(o: Any, conv=num) -> dict:
    if isinstance(o, ttb.tensor):
        return a_dense(o, conv)
    if isinstance(o, ttb.sptensor):
        return a_sparse(o, conv)
    if isinstance(o, ttb.ktensor):
        return a_ktensor(o, conv)
    if isinstance(o, ttb.ttensor):
        return a_ttensor(o, conv)
    if isinstance(o, ttb.tenmat):
        return a_tenmat(o, conv)
    if isinstance(o, ttb.sptenmat):
        return a_sptenmat(o, conv)
    if isinstance(o, ttb.sumtensor):
        return a_sum(o, conv)
    if isinstance(o, np.ndarray):
        if o.ndim == 2:
            return {"kind": "matrix", "m": matrix(o, conv)}
        if o.ndim == 0:
            return {"kind": "scalar", "val": conv(o.item())}
        return {"kind": "array", "shape": [int(s) for s in o.shape], "v": flatF(o, conv)}
    if isinstance(o, (int, float, np.integer, np.floating, bool, np.bool_, complex,
                      np.complexfloating)):
        return {"kind": "scalar", "val": conv(o)}
    return {"kind": "other", "type": type(o).__name__}


# ---------------------------------------------------------------------------
# gamma
#
# Memory layout of the numpy arrays handed to pyttb's constructors is a PRESENTATION of the same abstract object: the
# specification does not mention it, so every layout must behave alike.  core.py rotates the layout per behaviour.
#   "default"  dense data F-contiguous, matrices / subscript arrays C-contiguous (what np.array gives)
#   "swapped"  dense data C-contiguous, matrices / subscript / value arrays F-contiguous
#   "strided"  every array is a non-contiguous view into a larger buffer
#   "grown"    dense tensors are built from a leading block and completed by assignment beyond the current shape (the
#              library then reallocates: the stored array is C-ordered although the object reports order F); other
#              arrays as in "default"
LAYOUTS = ("default", "swapped", "strided", "grown")
_LAYOUT = "default"


def set_layout(name: str) -> None:
    global _LAYOUT
    assert name in LAYOUTS, name
    _LAYOUT = name


def get_layout() -> str:
    return _LAYOUT


def _strided(a: np.ndarray) -> np.ndarray:
    """a non-contiguous view with the same content: every second element of a twice-as-large buffer along each axis"""
    if a.size == 0 or a.ndim == 0:
        return a
    big = np.full(tuple(2 * s for s in a.shape), 77, dtype=a.dtype)
    view = big[tuple(slice(0, 2 * s, 2) for s in a.shape)]
    view[...] = a
    return view


def lay(a: np.ndarray, dense: bool = False) -> np.ndarray:
    """present array `a` in the current layout (dense: a tensor's data array, otherwise a matrix / vector / subs array)"""
    if _LAYOUT == "strided":
        return _strided(a)
    if _LAYOUT == "swapped":
        return np.ascontiguousarray(a) if dense else np.asfortranarray(a)
    # "default" and "grown"
    return np.asfortranarray(a) if dense else np.ascontiguousarray(a)


# element type of the arrays handed to pyttb: a second presentation coordinate, used where every value of the object is
# an integer ("int": int64 storage).  Drivers opt in through set_dtype (core rotates it for the drivers listed there).
_DTYPE = os.environ.get("VERIF_DTYPE", "float")      # development aid: force a dtype for experiments


DTYPES = ("float", "int", "int32", "int16")      # "int" = int64


def set_dtype(name: str) -> None:
    global _DTYPE
    assert name in DTYPES, name
    _DTYPE = name


def _dt(values, dtype):
    if dtype is float and _DTYPE != "float":
        flat = np.asarray(values, dtype=float).reshape(-1)
        # narrow types only for small values: sums and products of a few of them must stay representable
        lim = {"int": 2 ** 40, "int32": 2 ** 12, "int16": 2 ** 4}[_DTYPE]
        if flat.size and np.all(flat == np.round(flat)) and np.all(np.abs(flat) < lim):
            return {"int": np.int64, "int32": np.int32, "int16": np.int16}[_DTYPE]
    return dtype


def g_dense(v: dict, dtype=float):
    dtype = _dt(v["v"], dtype)
    shape = tuple(v["shape"])
    if _LAYOUT == "grown" and shape and shape[-1] >= 2 and all(s >= 1 for s in shape):
        full = np.array(v["v"], dtype=dtype).reshape(shape, order="F")
        head = tuple([slice(None)] * (len(shape) - 1) + [slice(0, shape[-1] - 1)])
        T = ttb.tensor(np.asfortranarray(full[head]).copy())
        tail = tuple([slice(None)] * (len(shape) - 1) + [shape[-1] - 1])
        T[tail] = full[tail] if len(shape) > 1 else float(full[-1]) if dtype is float else full[-1]
        assert tuple(int(x) for x in T.shape) == shape and np.array_equal(T.data, full), "gamma: grown tensor differs"
        return T
    data = lay(np.array(v["v"], dtype=dtype).reshape(shape, order="F"), dense=True) if shape else np.array([])
    return ttb.tensor(data, shape)


def g_sparse(v: dict, dtype=float):
    shape = tuple(v["shape"])
    if len(v["subs"]) == 0:
        return ttb.sptensor(shape=shape)
    # subscripts may be stored with a narrow integer type when every mode size fits ("strided" presentation)
    sdt = np.int8 if (_LAYOUT == "strided" and all(s <= 127 for s in shape)) else int
    subs = lay(np.array(v["subs"], dtype=sdt).reshape(len(v["subs"]), len(shape)))
    vals = lay(np.array(v["vals"], dtype=_dt(v["vals"], dtype)).reshape(-1, 1))
    return ttb.sptensor(subs, vals, shape)


def g_matrix(m, ncols=None, dtype=float):
    if len(m) == 0:
        return np.zeros((0, ncols or 0), dtype=dtype)
    return lay(np.array(m, dtype=dtype))


def g_ktensor(v: dict, dtype=float):
    # (ktensor documents float factor matrices: no integer presentation)
    R = len(v["w"])
    return ttb.ktensor([g_matrix(m, R, dtype) for m in v["U"]], lay(np.array(v["w"], dtype=dtype)))


def g_ttensor(v: dict, dtype=float, sparse_core=False):
    core = g_dense({"shape": v["core"]["shape"], "v": v["core"]["v"]}, dtype)
    if sparse_core:
        core = core.to_sptensor()
    return ttb.ttensor(core, [g_matrix(m, None, dtype) for m in v["U"]])


def g_tenmat(v: dict, dtype=float):
    return ttb.tenmat(np.array(v["m"], dtype=dtype).reshape(
        int(np.prod([v["tshape"][d] for d in v["rdims"]], dtype=int)),
        int(np.prod([v["tshape"][d] for d in v["cdims"]], dtype=int))),
        np.array(v["rdims"], dtype=int), np.array(v["cdims"], dtype=int), tuple(v["tshape"]))


def gamma(v: dict, dtype=float):
    k = v["kind"]
    if k == "dense":
        return g_dense(v, dtype)
    if k == "sparse":
        return g_sparse(v, dtype)
    if k == "ktensor":
        return g_ktensor(v, dtype)
    if k == "ttensor":
        return g_ttensor(v, dtype)
    if k == "tenmat":
        return g_tenmat(v, dtype)
    if k == "sum":
        return ttb.sumtensor([gamma(p, dtype) for p in v["parts"]])
    if k == "scalar":
        return float(v["val"])
    if k == "matrix":
        return g_matrix(v["m"], None, dtype)
    raise ValueError(f"gamma: unknown kind {k}")


# ---------------------------------------------------------------------------
# python-side denotation (for lock-step comparison only; TLC's verdict is authoritative)

def den(v: dict):
    """spec value -> (shape tuple, flat F-order list) or None if not comparable."""
    k = v.get("kind")
    if k == "dense":
        return tuple(v["shape"]), list(v["v"])
    if k == "sparse":
        shape = tuple(v["shape"])
        n = int(np.prod(shape, dtype=int)) if shape else 0
        flat = [0] * n
        if len(v["subs"]) != len(v["vals"]):
            return None
        for sub, val in zip(v["subs"], v["vals"]):
            if len(sub) != len(shape) or any(not (0 <= i < s) for i, s in zip(sub, shape)):
                return None
            lin = 0
            mul = 1
            for i, s in zip(sub, shape):
                lin += i * mul
                mul *= s
            flat[lin] = val
        return shape, flat
    if k in ("ktensor", "ttensor", "sum", "tenmat"):
        o = gamma(v)
        f = o.full() if k != "tenmat" else o.to_tensor()
        return tuple(int(s) for s in f.shape), flatF(f.data)
    return None


def wf_sparse(v: dict, strict: bool = True) -> str:
    """First failing well-formedness clause of a projected sparse tensor / sptenmat (as Sparse!WFWhy)."""
    shape = v["mshape"] if v["kind"] == "sptenmat" else v["shape"]
    if len(v["subs"]) != len(v["vals"]):
        return "len(vals)#len(subs)"
    for sub in v["subs"]:
        if len(sub) != len(shape) or any(not (0 <= i < s) for i, s in zip(sub, shape)):
            return "subscript-out-of-range"
    if len({tuple(s) for s in v["subs"]}) != len(v["subs"]):
        return "duplicate-subscript"
    if strict and any(x == 0 for x in v["vals"]):
        return "explicit-zero"
    return "ok"


def den_any(v: dict):
    """(shape, flat F-order values) of any projected object kind, computed in plain python/numpy."""
    k = v["kind"]
    if k in ("dense", "sparse"):
        return den(v)
    if k == "array":
        return tuple(v["shape"]), list(v["v"])
    if k == "tenmat" or k == "sptenmat":
        ts = tuple(v["tshape"])
        order = list(v["rdims"]) + list(v["cdims"])
        ms = v["mshape"]
        if k == "tenmat":
            M = np.array(v["m"], dtype=float).reshape(ms)
        else:
            M = np.zeros(ms)
            for (r, c), x in zip(v["subs"], v["vals"]):
                M[r, c] = x
        data = np.reshape(M, [ts[d] for d in order], order="F")
        if len(order) > 1:
            data = np.transpose(data, np.argsort(order))
        return ts, flatF(data)
    if k == "ktensor":
        shape = tuple(len(U) for U in v["U"])
        R = len(v["w"])
        out = np.zeros(shape)
        for r in range(R):
            t = np.array(v["w"][r], dtype=float)
            for U in v["U"]:
                t = np.multiply.outer(t, np.array([row[r] for row in U], dtype=float))
            out += t
        return shape, flatF(out)
    if k == "ttensor":
        core = np.array(v["core"]["v"], dtype=float).reshape(v["core"]["shape"], order="F")
        for n, U in enumerate(v["U"]):
            core = np.moveaxis(np.tensordot(np.array(U, dtype=float).reshape(len(U), -1), core,
                                            axes=(1, n)), 0, n)
        return tuple(core.shape), flatF(core)
    if k == "sum":
        ds = [den_any(p) for p in v["parts"]]
        return ds[0][0], [sum(x) for x in zip(*[d[1] for d in ds])]
    return None
