"""C04 — reads and writes behave like an F-ordered mutable array over any history (ArrayHistory*.tla)."""
from __future__ import annotations

import json
from typing import List

import numpy as np

import core
import tla
from core import Outcome

PROP = "C04"


def cfg(start: str, D: int, alpha: str, laws: bool = True) -> str:
    s = f'SPECIFICATION Spec\nCONSTANTS\n StartC = "{start}"\n D = {D}\n Alphabet = "{alpha}"\nINVARIANT TypeOK\n'
    if laws:
        s += "INVARIANT ReadLaws\nPROPERTY Frame\n"
    return s


# ---------------------------------------------------------------------------

def pykey(key: List[dict]):
    out = []
    for k in key:
        if k["t"] == "i":
            out.append(int(k["a"]))
        elif k["t"] == "s":
            out.append(slice(None if k["a"] < 0 else k["a"], None if k["b"] < 0 else k["b"], None if k.get("c", 1) == 1 else k["c"]))
        else:
            out.append(list(k["idx"]))
    return tuple(out)


def linear_list(idx):
    """a list of linear indices is an integer vector, a list of Python integers or a list of numpy integers (what an
    index computation leaves): presentations of the same key, rotated with the array layout"""
    import bind
    lay = bind.get_layout()
    if lay == "swapped" and len(idx):
        return [np.int64(i) for i in idx]
    if lay == "grown" and len(idx):
        return [int(i) for i in idx]
    return np.array(idx, dtype=int)


def present_key(key: tuple, shape) -> tuple:
    """a slice bound inside the current extent can equally be counted from the end (lo - n, hi - n): a presentation of
    the same key, rotated with the array layout"""
    import bind
    lay = bind.get_layout()
    if lay not in ("swapped", "grown"):
        return key
    out = []
    for m, k in enumerate(key):
        if isinstance(k, int) and lay == "swapped":
            # an integer key that comes out of an index computation is a numpy integer
            out.append(np.int64(k))
        elif isinstance(k, list) and lay == "grown" and m < len(shape) and all(0 <= e < int(shape[m]) for e in k):
            # entries of an index list counted from the end
            out.append([e - int(shape[m]) for e in k])
        elif isinstance(k, slice) and m < len(shape):
            n = int(shape[m])
            lo, hi = k.start, k.stop
            # (also when the upper bound grows the mode: "from the end" refers to the extent before the assignment)
            if lo == 0 and lay == "grown" and n > 0:
                # a start counted from the end that reaches before the beginning is the beginning (slice semantics)
                lo = -(n + 2)
            elif lo is not None and 0 <= lo < n:
                lo = lo - n
            if hi is not None and 0 < hi < n:
                hi = hi - n
            out.append(slice(lo, hi, k.step))
        else:
            out.append(k)
    return tuple(out)


def holders(A: dict):
    """dense and sparse holder of the abstract array A (sparse: stored in reversed order)"""
    import bind
    ttb = bind.ttb
    if len(A["shape"]) == 0:
        return ttb.tensor(), ttb.sptensor()
    D = bind.g_dense({"shape": A["shape"], "v": A["v"]})
    subs, vals = [], []
    n = len(A["v"])
    for lin in reversed(range(n)):
        if A["v"][lin] != 0:
            subs.append([int(x) for x in np.unravel_index(lin, A["shape"], order="F")])
            vals.append(A["v"][lin])
    S = bind.g_sparse({"shape": A["shape"], "subs": subs, "vals": vals})
    return D, S


def proj_state(X) -> dict:
    import bind
    ttb = bind.ttb
    if isinstance(X, ttb.tensor):
        if X.shape == () or X.data.size == 0:
            return {"kind": "dense", "shape": [], "v": [0]}
        return bind.a_dense(X)
    if X.shape == ():
        return {"kind": "sparse", "shape": [], "subs": [], "vals": []}
    return bind.a_sparse(X)


def proj_value(r) -> dict:
    import bind
    ttb = bind.ttb
    if isinstance(r, tuple) and r and r[0] == "answered":
        return {"kind": "scalar", "val": 0}
    if isinstance(r, np.ndarray):
        if r.ndim == 0:
            return {"kind": "scalar", "val": bind.num(r.item())}
        return {"kind": "array", "shape": [int(s) for s in r.shape], "v": bind.flatF(r)}
    if isinstance(r, (ttb.tensor, ttb.sptensor)):
        return proj_state(r)
    return bind.alpha(r)


def do_write(X, sparse: bool, ev: dict, k: int):
    """apply write ev to holder X in place; returns status"""
    import bind
    ttb = bind.ttb
    op, a = ev["op"], ev["args"]
    if op == "set_region":
        key = present_key(pykey(a["key"]), X.shape)
        r = a["rhs"]
        if r["kind"] == "scalar":
            val = float(r["val"]) if r["val"] != 0 or k % 2 else 0
            # the type of a scalar right-hand side is a presentation (as in harness/c03.py)
            lay = bind.get_layout()
            if lay == "swapped":
                val = np.int64(val) if float(val).is_integer() else np.float64(val)
            elif lay == "strided":
                val = np.float32(val)
        else:
            blk = bind.g_dense(r)
            if sparse:
                val = blk.to_sptensor()
            else:
                val = blk if k % 2 else blk.data.copy()
        import c05
        snap = c05.snapshot(val) if not isinstance(val, (int, float)) else None
        X[key] = val
        if snap is not None and c05.snapshot(val) != snap:
            # the right-hand side is an operand: it is the same object afterwards (it may be assigned again)
            return "right-hand-side-changed-by-the-assignment"
        return "ok"
    if op == "set_subs":
        subs = np.array(a["subs"], dtype=int)
        if a["scalar"]:
            val = float(a["vals"][0])
        elif sparse:
            val = np.array(a["vals"], dtype=float)[:, None]
        else:
            val = np.array(a["vals"], dtype=float)
        subs0 = subs.copy()
        val0 = None if isinstance(val, float) else val.copy()
        X[subs] = val
        if not np.array_equal(subs, subs0) or (val0 is not None and not np.array_equal(val, val0)):
            return "right-hand-side-changed-by-the-assignment"
        return "ok"
    if op == "set_linear":
        if sparse and X.ndims != 1:
            return "n/a"          # documented: linear assignment is not supported for sparse tensors
        idx = a["idx"]
        if a["scalar"]:
            val = float(a["vals"][0])
        elif sparse:
            val = np.array(a["vals"], dtype=float)[:, None]
        else:
            val = np.array(a["vals"], dtype=float)
        if len(idx) == 1 and k % 2:
            X[int(idx[0])] = float(a["vals"][0])
        elif sparse:
            # one-way sparse tensor: subscripts and linear indices coincide
            X[np.array(idx, dtype=int)[:, None]] = val
        else:
            X[linear_list(idx)] = val
        return "ok"
    raise ValueError(op)


def do_read(X, sparse: bool, ev: dict):
    op, a = ev["op"], ev["args"]
    if op == "linear_beyond":
        # one past the last position: reading it, and (dense) writing it on a copy, must both be refused
        n = int(a["idx"][0])
        try:
            v = X[n]
            return ("answered", v)
        except Exception:
            pass
        if not sparse:
            Y = X.copy()
            Y[n] = 9.0          # raises on the unchanged tree; a silent write is an answer
            return ("answered", 9.0)
        raise IndexError("refused")
    if op == "get_subs":
        return X[np.array(a["subs"], dtype=int)]
    if op == "get_linear":
        f = a["form"]
        if f == "list":
            return X[linear_list(a["idx"])]
        if f == "slice":
            import bind
            n = int(np.prod(X.shape))
            lo, hi = a["idx"][0], a["idx"][-1]
            if lo > hi:                       # descending positions: the slice with step -1
                return X[slice(None, None, -1)] if (lo == n - 1 and hi == 0) else X[slice(lo, (hi - 1) if hi > 0 else None, -1)]
            # the same positions as a slice with bounds counted from the end / running past the end (clipped):
            # presentations rotated with the array layout
            lay = bind.get_layout()
            if lay == "swapped":
                return X[slice(lo - n, None if hi == n - 1 else hi + 1 - n)]
            if lay == "strided" and hi == n - 1:
                return X[slice(lo, n + 5)]
            return X[slice(lo, hi + 1)]
        return X[int(a["idx"][0])]
    if op == "get_region":
        return X[present_key(pykey(a["key"]), X.shape)]
    raise ValueError(op)


def run(init: dict, evs: List[dict], reads: List[dict], expected: bool):
    """drive both holders; returns (traces, divs, nev)"""
    import bind
    D, S = holders(init)
    traces, divs = [], []
    cur = {"init": init, "ev": []}
    nev = 0
    A = init
    for k, ev in enumerate(evs):
        nev += 1
        rep = {}
        for who, X in (("dense", D), ("sparse", S)):
            try:
                held = hold_reads(X)
                st = do_write(X, who == "sparse", ev, k)
                rep[who] = {"st": st, "obj": proj_state(X)} if st == "ok" else {"st": st}
                if st == "ok" and held_changed(held):
                    # a value read earlier is a value: a later write to the array may not change it
                    rep[who] = {"st": "earlier-read-result-changed-by-this-write"}
            except bind.Inexact as e:
                rep[who] = {"st": "inexact", "msg": str(e)[:120]}
            except Exception as e:
                rep[who] = {"st": "raised", "msg": f"{type(e).__name__}: {e}"[:160]}
        cur["ev"].append({"op": ev["op"], "args": ev["args"], "ret": rep})
        if not expected:
            if any(rep[w]["st"] not in ("ok", "n/a") for w in rep):
                break
            continue
        post = ev["post"]
        bad = [w for w in ("dense", "sparse") if rep[w]["st"] != "n/a" and
               (rep[w]["st"] != "ok" or not same_state(rep[w]["obj"], post))]
        if bad:
            divs.append({"site": ("tensor" if bad[0] == "dense" else "sptensor") + ".__setitem__:" + kind_of(ev),
                         "why": bad[0] + "-state", "expected": post, "detail": json.dumps(rep[bad[0]])[:300],
                         "trace_index": len(traces), "event": len(cur["ev"])})
            traces.append(cur)
            cur = {"init": post, "ev": []}
            D, S = holders(post)
        elif rep["sparse"]["st"] == "n/a":
            _, S = holders(post)
        A = post
    # read-back
    if expected or True:
        for ev in reads:
            nev += 1
            rep = {}
            for who, X in (("dense", D), ("sparse", S)):
                try:
                    rep[who] = {"st": "ok", "val": proj_value(do_read(X, who == "sparse", ev))}
                except bind.Inexact as e:
                    rep[who] = {"st": "inexact", "msg": str(e)[:120]}
                except Exception as e:
                    rep[who] = {"st": "raised", "msg": f"{type(e).__name__}: {e}"[:160]}
            cur["ev"].append({"op": ev["op"], "args": ev["args"], "ret": rep})
            if ev["op"] == "linear_beyond":
                bad = [w for w in ("dense", "sparse") if rep[w]["st"] == "ok"]
                if bad:
                    divs.append({"site": ("tensor" if bad[0] == "dense" else "sptensor") + ".__getitem__:linear-beyond",
                                 "why": bad[0] + "-answered", "expected": None, "detail": json.dumps(rep[bad[0]])[:200],
                                 "trace_index": len(traces), "event": len(cur["ev"])})
                continue
            if expected:
                E = read_expect(A, ev)
                bad = [w for w in ("dense", "sparse") if rep[w]["st"] != "ok" or not same_value(rep[w]["val"], E)]
                if bad:
                    divs.append({"site": ("tensor" if bad[0] == "dense" else "sptensor") + ".__getitem__:" + kind_of(ev),
                                 "why": bad[0] + "-value", "expected": E, "detail": json.dumps(rep[bad[0]])[:300],
                                 "trace_index": len(traces), "event": len(cur["ev"])})
    traces.append(cur)
    return traces, divs, nev


def hold_reads(X):
    """region reads taken before a write: one is kept untouched (it must not change when X is written), one is written
    into (X must not change: that would show up as wrong entries after the write)"""
    import c05
    try:
        n = X.ndims
        if n == 0 or 0 in tuple(X.shape) or len(X.shape) == 0:
            return []
        keys = [tuple([slice(None)] * n), tuple([slice(None)] * (n - 1) + [int(X.shape[-1]) - 1])]
        held = []
        for key in keys:
            r = X[key]
            if hasattr(r, "shape") and not np.isscalar(r):
                held.append((r, c05.snapshot(r)))
            p = X[key]
            if hasattr(p, "ndims") and p.ndims >= 1 and 0 not in tuple(p.shape):
                p[tuple([0] * p.ndims)] = 77.0
        return held
    except Exception:
        return []


def held_changed(held) -> bool:
    import c05
    return any(c05.snapshot(r) != snap for r, snap in held)


def kind_of(ev: dict) -> str:
    op = ev["op"]
    if op.endswith("region"):
        forms = "".join(k["t"] for k in ev["args"]["key"])
        r = ev["args"].get("rhs")
        return "region[" + forms + "]" + ("" if r is None else ("=scalar" if r["kind"] == "scalar" else "=block"))
    if op.endswith("subs"):
        return "subs" + ("" if "vals" not in ev["args"] else ("=scalar" if ev["args"]["scalar"] else "=vector"))
    return "linear" + ("" if "vals" not in ev["args"] else ("=scalar" if ev["args"]["scalar"] else "=vector"))


def same_state(obj: dict, post: dict) -> bool:
    import bind
    if obj["kind"] == "sparse":
        if bind.wf_sparse(obj, strict=True) != "ok":
            return False
    d = bind.den(obj) if obj["shape"] else ((), [0])
    if d is None:
        return False
    return list(d[0]) == list(post["shape"]) and list(d[1]) == list(post["v"])


def read_expect(A: dict, ev: dict):
    """python mirror of ArrayHistory!RegionRead / SubsRead / LinRead (lock-step only)"""
    arr = np.array(A["v"], dtype=float).reshape(A["shape"], order="F")
    op, a = ev["op"], ev["args"]
    if op == "get_subs":
        return {"flat": [int(arr[tuple(s)]) for s in a["subs"]]}
    if op == "get_linear":
        fl = arr.flatten(order="F")
        return {"flat": [int(fl[i]) for i in a["idx"]]}
    key = pykey(a["key"])
    ix = []
    for m, k in enumerate(key):
        n = A["shape"][m]
        if isinstance(k, int):
            ix.append([k % n])
        elif isinstance(k, slice):
            ix.append(list(range(n))[k])
        else:
            ix.append(list(k))
    sub = arr[np.ix_(*ix)]
    keep = [m for m, k in enumerate(key) if not isinstance(k, int)]
    sub = sub.reshape([len(ix[m]) for m in keep], order="F") if keep else sub.reshape(())
    return {"shape": [len(ix[m]) for m in keep], "flat": [int(x) for x in sub.flatten(order="F")]}


def same_value(val: dict, E: dict) -> bool:
    import bind
    k = val.get("kind")
    if k == "scalar":
        return len(E["flat"]) == 1 and val["val"] == E["flat"][0]
    if k == "array":
        return val["v"] == E["flat"]
    if k in ("dense", "sparse"):
        if k == "sparse" and bind.wf_sparse(val, strict=True) != "ok":
            return False
        d = bind.den(val)
        return d is not None and list(d[0]) == list(E.get("shape", [len(E["flat"])])) and list(d[1]) == E["flat"]
    return False


def record(stim: dict) -> dict:
    tr, _, _ = run(stim["init"], stim["ev"], [], expected=False)
    return tr[0]


def replay(b: dict) -> dict:
    traces, divs, nev = run(b["init"], b["ev"], b["reads"], expected=True)
    nontrivial = [json.dumps([b["init"], [[e["op"], e["args"]] for e in b["ev"]]], sort_keys=True)]
    return {"traces": traces, "divs": divs, "events": nev, "nontrivial": nontrivial}


def plan(tier: str):
    starts = ["empty", "zeros22", "one11", "lab22", "lab3", "lab23", "lab222"]
    jobs = []
    if tier == "quick":
        for s in starts:
            jobs.append((s, 1, "full" if s in ("empty", "lab22", "lab3", "lab222") else "medium", None))
        for s in ["empty", "zeros22", "one11", "lab22", "lab3"]:
            jobs.append((s, 2, "small", None))
        for s in ["lab22", "lab222"]:
            jobs.append((s, 3, "small", None))
        for s in ["lab22", "lab23", "empty", "lab3"]:
            jobs.append((s, 10, "small", 100))
    else:
        for s in starts:
            jobs.append((s, 1, "full", None))
            jobs.append((s, 2, "small", None))
            jobs.append((s, 3, "small", None))
        jobs.append(("lab22", 4, "small", None))
        for s in starts:
            jobs.append((s, 25, "small", 500))
        # walks over the medium alphabet (its exhaustive depth-2 instance has 2 M states and a million histories per
        # start: too many to replay)
        for s in ["lab22", "lab23", "zeros22"]:
            jobs.append((s, 3, "medium", 15))
    return jobs


def main(tier: str) -> int:
    if core.replay_arg():
        return core.replay_file(core.replay_arg(), PROP, "c04", "ArrayHistory_Trace")
    out = Outcome(PROP, tier)
    jobs = []
    for start, D, alpha, nsim in plan(tier):
        j = dict(module="ArrayHistory_Gen", cfg_text=cfg(start, D, alpha, laws=(nsim is None and D <= 3)),
                 timeout=3400, workers=(4 if alpha == "medium" and nsim is None else 1))
        if nsim:
            j.update(simulate=f"num={nsim}", depth=D + 2, seed=core.seed() + 1)
        jobs.append(j)
    results = tla.run_many(jobs)
    behaviours = []
    for (start, D, alpha, nsim), r in zip(plan(tier), results):
        out.add_tlc(r)
        behaviours += r.json
    out.notes["histories"] = len(behaviours)
    out.notes["plan"] = [list(p) for p in plan(tier)]

    def site(tr, k):
        ev = tr["ev"][k - 1]
        ret = ev["ret"]
        who = "tensor"
        # attribute to the holder that fails first (the specification checks dense first)
        return f"{ev['op']}:{kind_of(ev)}"
    core.pipeline(out, "c04", behaviours, "ArrayHistory_Trace", lock_mode="superset", chunk=400,
                  site_of=site, tags_of=tags_of)
    out.rule = ("every history of ArrayHistory_Gen: depth-1 over the full key alphabet (11 key forms per mode: "
                "non-negative / negative / growing integers, bounded / unbounded / growing slices, index lists in "
                "both orders; scalar, zero and block right-hand sides mixing zero and non-zero; subscript batches; "
                "linear indices) from 7 start tensors (empty, all-zero, 1x1, labelled 2x2 / 3 / 2x3 / 2x2x2, sparse "
                "holder stored in reversed order), depth 2-3 over a 13-write alphabet, simulated walks over a medium "
                "alphabet; each history is followed by a read-back through 12 read forms on both holders")
    out.exhaustive = True
    out.trusted = ["holder construction / key translation in harness/c04.py", "TLC"]
    out.assumptions = ["mode sizes <= 4 and order <= 3 after growth; duplicate subscripts inside one batch are not "
                       "generated (their outcome is documented as 'discarded')"]
    return core.finish(out)


def tags_of(tr: dict, k: int) -> List[str]:
    ev = tr["ev"][k - 1]
    tags = []
    ret = ev["ret"]
    for who in ("dense", "sparse"):
        if ret.get(who, {}).get("st") == "raised":
            tags.append(who + "_raised")
    a = ev["args"]
    if ev["op"] in ("set_region", "get_region"):
        nl = sum(1 for x in a["key"] if x["t"] == "l")
        ni = sum(1 for x in a["key"] if x["t"] == "i")
        if nl >= 2 or (nl >= 1 and ni >= 1):
            # numpy advanced indexing: several non-slice indices are paired / moved to the front
            tags.append("key_combines_index_list_with_other_non_slice_index")
    if ev["op"] == "set_subs" and not a["scalar"] and any(v == 0 for v in a["vals"]) and any(v != 0 for v in a["vals"]):
        tags.append("batch_mixes_zero_and_nonzero")
    return tags


if __name__ == "__main__":
    core.main_wrap(main)
