"""C03 at scale (spec: Elementwise_Big*.tla): operands with more than 2048 stored entries, results expanded position
by position by the harness."""
from __future__ import annotations

import json
import operator

import numpy as np

N1 = 48          # the flat vectors of the specification are laid out as an N1 x (n / N1) matrix, first index fastest
PY = {"add": operator.add, "sub": operator.sub, "mul": operator.mul, "eq": operator.eq, "ne": operator.ne, "lt": operator.lt,
      "le": operator.le, "gt": operator.gt, "ge": operator.ge}


def sparse_of(flat, shape, ttb, scramble: int):
    arr = np.array(flat, dtype=float).reshape(shape, order="F")
    subs = np.array(np.nonzero(arr)).T
    perm = np.random.RandomState(scramble).permutation(len(subs))       # stored order: scrambled
    subs = subs[perm]
    return ttb.sptensor(subs, arr[tuple(subs.T)][:, None], shape)


def run_event(a: dict) -> dict:
    import bind
    ttb = bind.ttb
    try:
        n = len(a["x"])
        shape = (N1, n // N1)
        S = sparse_of(a["x"], shape, ttb, 1)
        if a["rk"] == "scalar":
            r = float(a["y"][0])
        elif a["rk"] == "dense":
            r = ttb.tensor(np.array(a["y"], dtype=float).reshape(shape, order="F"))
        else:
            r = sparse_of(a["y"], shape, ttb, 2)
        op = a["op"]
        with np.errstate(all="ignore"):
            if op in PY:
                R = PY[op](S, r)
            else:
                R = getattr(S, "logical_" + op)(r)
        if isinstance(R, ttb.sptensor):
            out = np.zeros(shape)
            rs = np.asarray(R.subs).reshape(-1, 2)
            if len(rs) and (len({tuple(x) for x in rs.tolist()}) != len(rs) or rs.min() < 0 or np.any(rs >= np.array(shape))):
                return {"st": "ill-formed-sparse-result"}
            if len(rs):
                out[tuple(rs.T)] = np.asarray(R.vals).reshape(-1)
        elif isinstance(R, ttb.tensor):
            out = np.asarray(R.data, dtype=float)
        else:
            return {"st": "result-kind"}
        if out.shape != shape:
            return {"st": "shape"}
        return {"st": "ok", "v": [bind.rat(v) for v in out.reshape(-1, order="F")]}
    except Exception as e:
        return {"st": "raised:" + type(e).__name__ + ":" + str(e)[:100]}


def record(stim: dict) -> dict:
    return {"init": {}, "big": True, "ev": [{"op": "big", "args": e["args"], "ret": run_event(e["args"])} for e in stim["ev"]]}


def replay(b: dict) -> dict:
    ret = run_event(b["a"])
    tr = {"init": {}, "big": True, "ev": [{"op": "big", "args": b["a"], "ret": ret}]}
    divs = []
    if json.loads(json.dumps(ret)) != b["ret"]:
        divs.append({"site": f"sptensor.{b['a']['op']}({b['a']['rk']}) [large]", "why": "differs-from-dense-semantics", "expected": None,
                     "detail": json.dumps(ret)[:200], "trace_index": 0, "event": 1})
    return {"traces": [tr], "divs": divs, "events": 1, "nontrivial": [json.dumps([b["a"]["op"], b["a"]["rk"]])]}
