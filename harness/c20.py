"""C20 — generators and aggregating constructors build what they advertise (Generators*.tla)."""
from __future__ import annotations

import json
import math
from typing import List

import numpy as np

import core
import tla
from core import Outcome

PROP = "C20"

SITE = {"tenones": "tenones", "tenzeros": "tenzeros", "tendiag": "tendiag", "sptendiag": "sptendiag",
        "teneye": "teneye", "from_function_dense": "tensor.from_function",
        "from_function_ktensor": "ktensor.from_function", "aggregate": "sptensor.from_aggregator",
        "sptenrand": "sptenrand", "sptenrand_pow2": "sptenrand", "from_function_sparse": "sptensor.from_function", "tenrand": "tenrand"}


def sparse_placeholder(S, ok_values) -> dict:
    """projection of a random sparse tensor: subscripts as stored, values replaced by 1 (0 if zero)"""
    subs = np.asarray(S.subs)
    vals = np.asarray(S.vals).reshape(-1)
    return {"kind": "sparse", "shape": [int(s) for s in S.shape],
            "subs": [] if subs.size == 0 else [[int(x) for x in r] for r in subs],
            "vals": [0 if v == 0 else 1 for v in vals]}


def fresh(fn):
    """every call of a generator returns a new object: the first result is overwritten in place, the second is used"""
    import bind
    ttb = bind.ttb
    r0 = fn()
    if isinstance(r0, ttb.tensor) and r0.data.size:
        r0.data[...] = 77
    elif isinstance(r0, ttb.sptensor) and r0.vals.size:
        r0.vals[...] = 77
    return fn()


def call(op: str, a: dict) -> dict:
    import bind
    ttb = bind.ttb
    try:
        if op in ("tenones", "tenzeros"):
            r = fresh(lambda: getattr(ttb, op)(tuple(a["shape"])))
            return {"st": "ok", "obj": bind.alpha(r)}
        if op == "from_function_dense":
            seen = []
            n = int(np.prod(a["shape"]))

            def f(shape):
                seen.append([int(s) for s in shape])
                flat = np.arange(1.0, n + 1)
                # an array of the requested shape in whatever memory layout the function happens to produce (numpy's own
                # generators return C-ordered arrays), or a flat vector in first-index-fastest order
                if n % 2 and bind.get_layout() == "default":
                    return flat
                return bind.lay(flat.reshape(tuple(shape), order="F"))
            r = ttb.tensor.from_function(f, tuple(a["shape"]))
            return {"st": "ok", "obj": bind.alpha(r), "argshape": seen[0] if len(seen) == 1 else []}
        if op in ("tendiag", "sptendiag"):
            e = np.array(a["e"], dtype=float)
            r = fresh(lambda: getattr(ttb, op)(e, tuple(a["shape"])) if a["hasShape"] else getattr(ttb, op)(e))
            return {"st": "ok", "obj": bind.alpha(r)}
        if op == "teneye":
            r = fresh(lambda: ttb.teneye(a["m"], a["n"]))
            sc = ttb.tensor(r.data * math.factorial(a["m"]))
            return {"st": "ok", "obj": bind.alpha(sc)}
        if op == "from_function_ktensor":
            seen = []

            def f(shape):
                k = len(seen) + 1
                seen.append([int(s) for s in shape])
                rows, R = shape
                return 100.0 * k + np.arange(rows)[:, None] + rows * np.arange(R)[None, :]
            r = ttb.ktensor.from_function(f, tuple(a["shape"]), a["R"])
            return {"st": "ok", "obj": bind.alpha(r), "argshapes": seen}
        if op == "aggregate":
            subs = np.array(a["subs"], dtype=int)
            vals = np.array(a["vals"], dtype=float)[:, None]
            red = {"sum": np.sum, "max": np.max, "min": np.min, "count2": (lambda x: len(x) == 2)}[a["red"]]
            # sum / max / min commute with a positive power-of-two factor (exact): the magnitude of the values is a
            # presentation of the request (rotated with the array layout)
            f = {"strided": 2.0 ** -40, "grown": 2.0 ** 40}.get(bind.get_layout(), 1.0) if a["red"] in ("sum", "max", "min") else 1.0
            vals = vals * f
            if bind.get_layout() == "swapped" and a["red"] in ("sum", "max", "min") and vals.size and \
                    np.all(vals == np.round(vals)) and np.max(np.abs(vals)) * 40 <= 127:
                if a["red"] == "sum" and np.all((vals == 0) | (vals == 1)) and len(a["subs"]) % 2 == 1:
                    # indicator values stored as booleans: their sum over duplicates is a count
                    vals = vals.astype(bool)
                else:
                    # the same request with values stored in 8 bits (each fits, a sum of duplicates need not)
                    f = 40.0
                    vals = (vals * 40).astype(np.int8)
            shape = tuple(a["shape"])
            stretch = bind.get_layout() == "default" and len(shape) >= 2 and len(a["subs"]) > 0
            if stretch:
                # the same entries in an index space with more than 2^64 cells: mode 0 is stretched by 2^24 (index i
                # becomes i 2^24 in a mode of length 2^40) and the last mode is declared 2^40 long
                subs = subs.astype(np.int64).copy()
                subs[:, 0] = subs[:, 0] * 2 ** 24
                shape = (2 ** 40,) + shape[1:-1] + (2 ** 40,)
            if a["red"] == "sum" and len(a["subs"]) % 2 == 0:
                r = ttb.sptensor.from_aggregator(subs, vals, shape)       # default reducer
            else:
                r = ttb.sptensor.from_aggregator(subs, vals, shape, red)
            if stretch:
                if tuple(r.shape) != shape:
                    return {"st": "shape-changed"}
                rs = np.asarray(r.subs).reshape(-1, len(shape)).copy()
                if rs.size and np.any(rs[:, 0] % 2 ** 24):
                    return {"st": "subscript-not-among-the-given-ones"}
                if rs.size:
                    rs[:, 0] = rs[:, 0] // 2 ** 24
                r = ttb.sptensor(rs, r.vals.copy(), tuple(a["shape"])) if rs.size else ttb.sptensor(shape=tuple(a["shape"]))
            if f != 1.0:
                r = ttb.sptensor(r.subs.copy(), r.vals.astype(float) / f, r.shape) if r.nnz else r
            return {"st": "ok", "obj": bind.alpha(r)}
        if op in ("sptenrand", "from_function_sparse"):
            req = a["req"]
            cells = int(np.prod(a["shape"]))

            def once():
                np.random.seed(a["seed"])
                labels = []
                if op == "sptenrand":
                    if req["kind"] == "count":
                        S = ttb.sptenrand(tuple(a["shape"]), nonzeros=req["n"])
                    else:
                        S = ttb.sptenrand(tuple(a["shape"]), density=req["num"] / req["den"])
                    v = np.asarray(S.vals).reshape(-1)
                    okv = bool(np.all((v >= 0) & (v < 1)))
                else:
                    def f(shape):
                        k = int(shape[0])
                        labels.append([int(s) for s in shape])
                        return np.arange(1.0, k + 1)[:, None]
                    nz = req["n"] if req["kind"] == "count" else req["num"] / req["den"]
                    S = ttb.sptensor.from_function(f, tuple(a["shape"]), nz)
                    v = np.asarray(S.vals).reshape(-1)
                    okv = len(labels) == 1 and labels[0] == [len(v), 1] and list(v) == list(range(1, len(v) + 1))
                return S, okv
            S1, ok1 = once()
            S2, _ = once()
            rep = np.array_equal(np.asarray(S1.subs), np.asarray(S2.subs)) and \
                np.array_equal(np.asarray(S1.vals), np.asarray(S2.vals))
            return {"st": "ok", "obj": sparse_placeholder(S1, ok1), "values_from_function": bool(ok1),
                    "reproducible": bool(rep)}
        if op == "sptenrand_pow2":
            shape = tuple(2 ** int(w) for w in a["widths"])

            def once2():
                np.random.seed(a["seed"])
                return ttb.sptenrand(shape, density=2.0 ** -int(a["dexp"]))
            S1, S2 = once2(), once2()
            v = np.asarray(S1.vals).reshape(-1)
            rep = np.array_equal(np.asarray(S1.subs), np.asarray(S2.subs)) and np.array_equal(np.asarray(S1.vals), np.asarray(S2.vals))
            return {"st": "ok", "obj": sparse_placeholder(S1, bool(np.all((v >= 0) & (v < 1)))), "reproducible": bool(rep)}
        if op == "tenrand":
            np.random.seed(a["seed"])
            T1 = ttb.tenrand(tuple(a["shape"]))
            np.random.seed(a["seed"])
            T2 = ttb.tenrand(tuple(a["shape"]))
            return {"st": "ok", "shape": [int(s) for s in T1.shape],
                    "in_unit_interval": bool(np.all((T1.data >= 0) & (T1.data < 1))) and T1.data.shape == tuple(a["shape"]),
                    "reproducible": bool(np.array_equal(T1.data, T2.data))}
    except bind.Inexact as e:
        return {"st": "inexact", "msg": str(e)[:150]}
    except Exception as e:
        return {"st": "raised", "msg": f"{type(e).__name__}: {e}"[:150]}
    raise ValueError(op)


def record(stim: dict) -> dict:
    return {"init": {}, "ev": [{"op": e["op"], "args": e["args"], "ret": call(e["op"], e["args"])} for e in stim["ev"]]}


def replay(b: dict) -> dict:
    tr = {"init": {}, "ev": []}
    divs, nontrivial = [], []
    for i, st in enumerate(b["ev"]):
        ret = call(st["op"], st["a"])
        tr["ev"].append({"op": st["op"], "args": st["a"], "ret": ret})
        nontrivial.append(json.dumps([st["op"], st["a"]], sort_keys=True))
        # every event is handed to TLC; the python side only pre-flags the obviously suspicious ones
        susp = ret["st"] != "ok" or (st["op"] in ("sptenrand", "from_function_sparse") and (
            not ret["reproducible"] or not ret["values_from_function"] or not count_ok(st["a"], ret)))
        if susp or st["op"] not in ("sptenrand", "from_function_sparse", "tenrand"):
            divs.append({"site": SITE[st["op"]], "why": "candidate", "expected": None,
                         "detail": json.dumps(ret)[:250], "trace_index": 0, "event": i + 1})
    return {"traces": [tr], "divs": divs, "events": len(b["ev"]), "nontrivial": nontrivial}


def count_ok(a, ret) -> bool:
    cells = int(np.prod(a["shape"]))
    got = len(ret["obj"]["subs"])
    r = a["req"]
    if r["kind"] == "count":
        return got == r["n"]
    lo, hi = (cells * r["num"]) // r["den"], -((-cells * r["num"]) // r["den"])
    return got in (lo, hi) and (got >= 1 or cells * r["num"] < r["den"])


def tags_of(tr: dict, k: int) -> List[str]:
    ev = tr["ev"][k - 1]
    tags = []
    if ev["op"] in ("sptenrand", "from_function_sparse") and ev["ret"].get("st") == "ok":
        a = ev["args"]
        got = len(ev["ret"]["obj"]["subs"])
        cells = int(np.prod(a["shape"]))
        r = a["req"]
        want = r["n"] if r["kind"] == "count" else (cells * r["num"]) // r["den"]
        if 0 < got < want and ev["ret"]["reproducible"] and ev["ret"]["values_from_function"]:
            tags.append("fewer_distinct_subscripts_than_requested")
        if r["kind"] == "density" and cells * r["num"] < r["den"]:
            tags.append("density_times_size_below_one")
    return tags


def main(tier: str) -> int:
    if core.replay_arg():
        return core.replay_file(core.replay_arg(), PROP, "c20", "Generators_Trace")
    out = Outcome(PROP, tier)
    jobs = [dict(module="Generators_Gen", cfg_text=f'SPECIFICATION Spec\nCONSTANTS\n Part = "{p}"\nINVARIANT DiagLaw\nINVARIANT AggLaw\n',
                 timeout=3000) for p in ("det", "agg", "rand")]
    results = tla.run_many(jobs)
    stimuli = []
    for r in results:
        out.add_tlc(r)
        stimuli += r.json
    if tier == "quick":
        # the aggregation enumeration is large: keep every 2nd stimulus in the quick tier
        agg = [s for s in stimuli if s["op"] == "aggregate"]
        rest = [s for s in stimuli if s["op"] != "aggregate"]
        # (and every sum over indicator values, which are also presented as booleans)
        stimuli = rest + [s for i, s in enumerate(agg) if i % 3 == 0 or (s["a"]["red"] == "sum" and set(s["a"]["vals"]) <= {0, 1})]
    behaviours = [{"ev": stimuli[i:i + 40]} for i in range(0, len(stimuli), 40)]
    from collections import Counter
    out.notes["calls_per_op"] = dict(Counter(s["op"] for s in stimuli))
    core.pipeline(out, "c20", behaviours, "Generators_Trace", lock_mode="superset", chunk=200,
                  site_of=lambda tr, k: SITE[tr["ev"][k - 1]["op"]], tags_of=tags_of)
    out.rule = ("every call of Generators_Gen: ones / zeros / from_function for 8 shapes; tendiag / sptendiag with "
                "element vectors shorter, equal, longer than the shape; teneye for orders 2, 4 (sizes 1-3) and 6 (sizes 1-2) checked "
                "by its defining property on all vectors over {-1,0,1,2}; ktensor.from_function; the aggregating "
                "constructor on every subscript list with <= 4 rows over a 2x2 (2x1x2) grid with arbitrary "
                "multiplicities in every order x 4 value vectors x 4 reducers; sptenrand / sptensor.from_function for "
                "every count 1..size-1 and 7 densities x 3 seeds (reproducibility = two calls after the same seed)")
    out.exhaustive = True
    out.trusted = ["projection and labelled value functions in harness/c20.py", "TLC"]
    out.assumptions = ["random generators are specified by contract only; a density may be rounded down or up"]
    return core.finish(out)


if __name__ == "__main__":
    core.main_wrap(main)
