"""C15 — symmetrisation averages over mode permutations; the symmetry test is exact (Symmetry*.tla)."""
from __future__ import annotations

import itertools
import json
import math
from typing import List

import numpy as np

import core
import tla
from core import Outcome

PROP = "C15"


def grp_array(grps):
    g = np.array(grps, dtype=int)
    return g[0] if len(grps) == 1 and len(grps[0]) % 2 == 0 and False else (g[0] if len(grps) == 1 else g)


def call(op: str, a: dict) -> dict:
    import bind
    ttb = bind.ttb
    try:
        if op == "k_symmetrize":
            n, N, R = a["n"], a["N"], a["R"]
            rng = np.random.RandomState(a["seed"])
            if a["symmetric_input"]:
                V = rng.randint(-2, 3, size=(n, R)).astype(float)
                # signed weights: a negative component of an even-order symmetric tensor must keep its sign
                K = ttb.ktensor([V.copy() for _ in range(N)], (rng.randint(1, 4, size=R) * rng.choice([-1, 1], size=R)).astype(float))
            else:
                K = ttb.ktensor([rng.randint(-2, 3, size=(n, R)).astype(float) + 0.5 for _ in range(N)],
                                rng.randint(1, 4, size=R).astype(float))
            S = K.symmetrize()
            F = S.full().data
            full_sym = all(np.allclose(F, np.transpose(F, p), atol=1e-9) for p in itertools.permutations(range(N)))
            eq = all(np.allclose(S.factor_matrices[0], f, atol=1e-12) for f in S.factor_matrices)
            S2 = S.symmetrize()
            idem = np.allclose(S2.full().data, F, atol=1e-9)
            same = np.allclose(F, K.full().data, atol=1e-9)
            return {"st": "ok", "all_factors_equal": bool(eq), "full_symmetric": bool(full_sym),
                    "passes": bool(S.issymmetric()), "idempotent": bool(idem), "same_tensor": bool(same)}
        if op == "k_issymmetric":
            n, N, R = a["n"], a["N"], a["R"]
            rng = np.random.RandomState(a["seed"])
            V = rng.randint(1, 4, size=(n, R)).astype(float)
            U = [V.copy() for _ in range(N)]
            m = int(rng.randint(1, N))
            pert = a["perturb"]
            if pert in ("rel1e-7", "rel1e-9", "rel1e-12"):
                U[m][0, 0] *= 1 + float(pert[3:])
            elif pert == "entry":
                U[m][n - 1, R - 1] += 1.0
            elif pert == "scaled":
                U[m] = U[m] * (1 + 2.0 ** -30)
            K = ttb.ktensor(U, rng.randint(1, 4, size=R).astype(float))
            val, diffs = K.issymmetric(return_diffs=True)
            val2 = K.issymmetric()
            if bool(val) != bool(val2):
                return {"st": "answer-depends-on-return_diffs"}
            F = K.full().data
            full_sym = all(np.array_equal(F, np.transpose(F, p)) for p in itertools.permutations(range(N)))
            return {"st": "ok", "val": bool(val), "full_symmetric": bool(full_sym), "diffs_zero": bool(np.all(diffs == 0))}
        X = bind.g_dense({"shape": a["X"]["shape"], "v": a["X"]["v"]}, dtype=(int if a.get("dtype") == "int" else float))
        if a.get("dtype") == "inf" and op == "issymmetric":
            # whether a tensor is symmetric depends only on which entries are equal: an injective relabelling of the values
            # (largest -> +inf, smallest -> -inf) is a presentation of the same question
            v = np.array(a["X"]["v"], dtype=float)
            if v.size and v.max() != v.min():
                d = X.data.astype(float)
                d[X.data == v.max()] = np.inf
                d[X.data == v.min()] = -np.inf
                X = ttb.tensor(d)
        if a.get("dtype") == "hair" and op == "issymmetric":
            # another injective relabelling: value v -> 1 + v * 2^-30 (exact in double precision), so entries that differ
            # at all differ by a hair (about 1e-9 relative) - the symmetry test is exact, not a closeness test
            X = ttb.tensor(1.0 + X.data.astype(float) * 2.0 ** -30)
        unscale = 1.0
        if a.get("dtype") == "int8":
            # symmetrisation is linear and the symmetry question is scale free: the same tensor times 32, stored in 8 bits
            # (each entry fits, the sum over the mode permutations does not)
            v = np.array(a["X"]["v"], dtype=float)
            if v.size and np.all(v == np.round(v)) and np.max(np.abs(v)) <= 3:
                X = ttb.tensor((X.data * 32).astype(np.int8))
                unscale = 32.0
        if a.get("dtype") == "bool":
            v = np.array(a["X"]["v"], dtype=float)
            if v.size and np.all((v == 0) | (v == 1)):
                X = ttb.tensor(X.data.astype(bool))
        g = grp_array(a["grps"])
        ver = None if a["version"] == 0 else 1
        if op == "symmetrize":
            S = X.symmetrize(g, ver) if ver else X.symmetrize(g)
            K = 1
            for gr in a["grps"]:
                K *= math.factorial(len(gr))
            scaled = ttb.tensor(S.data.astype(float) * K / unscale)
            S2 = S.symmetrize(g, ver) if ver else S.symmetrize(g)
            Xt = ttb.tensor(X.data.astype(float) * 0.1 + 0.3)
            St = Xt.symmetrize(g, ver) if ver else Xt.symmetrize(g)
            return {"st": "ok", "scaled": bind.a_dense(scaled), "passes": bool(S.issymmetric(g)) and bool(St.issymmetric(g)),   # also for data that is not integer-valued
                    "keeps_exactly": bool(np.array_equal(St.data, Xt.data)),
                    "idempotent": bool(np.allclose(S2.data, S.data, atol=1e-12)),
                    "independent": bool(not np.shares_memory(S.data, X.data) and not np.shares_memory(S2.data, S.data))}
        if op == "issymmetric":
            if a["details"]:
                val, diffs, perms = X.issymmetric(g, ver, True)
                return {"st": "ok", "val": bool(val), "ndiffs": int(np.asarray(diffs).shape[0]),
                        "all_zero": bool(np.all(np.asarray(diffs) == 0))}
            val = X.issymmetric(g, ver) if ver else X.issymmetric(g)
            return {"st": "ok", "val": bool(val), "ndiffs": 0, "all_zero": bool(val)}
    except bind.Inexact as e:
        return {"st": "inexact", "msg": str(e)[:150]}
    except Exception as e:
        return {"st": "raised", "msg": f"{type(e).__name__}: {e}"[:150]}
    raise ValueError(op)


def site_of(ev) -> str:
    a = ev["args"]
    if ev["op"] == "k_symmetrize":
        return "ktensor.symmetrize"
    if ev["op"] == "k_issymmetric":
        return "ktensor.issymmetric"
    return f"tensor.{ev['op']}(version={a['version']}" + (",details" if a.get("details") else "") + \
        (",int-dtype" if a.get("dtype") in ("int", "int8", "bool") else "") + ")"


def record(stim: dict) -> dict:
    return {"init": {}, "ev": [{"op": e["op"], "args": e["args"], "ret": call(e["op"], e["args"])} for e in stim["ev"]]}


def replay(b: dict) -> dict:
    tr = {"init": {}, "ev": []}
    divs, nontrivial = [], []
    for i, st in enumerate(b["ev"]):
        ret = call(st["op"], st["a"])
        ev = {"op": st["op"], "args": st["a"], "ret": ret}
        tr["ev"].append(ev)
        nontrivial.append(json.dumps([st["op"], st["a"]], sort_keys=True))
        divs.append({"site": site_of(ev), "why": "candidate", "expected": None, "detail": json.dumps(ret)[:250],
                     "trace_index": 0, "event": i + 1})
    return {"traces": [tr], "divs": divs, "events": len(b["ev"]), "nontrivial": nontrivial}


def main(tier: str) -> int:
    if core.replay_arg():
        return core.replay_file(core.replay_arg(), PROP, "c15", "Symmetry_Trace")
    out = Outcome(PROP, tier)
    r = tla.run_tlc("Symmetry_Gen", "SPECIFICATION Spec\nINVARIANT SymLaws\n", timeout=3000, workers=1)
    out.add_tlc(r)
    stimuli = []
    for s_ in r.json:
        # presentation: the same abstract tensor held with float and with integer dtype
        for dt in ("float", "int", "int8", "bool") + (("inf", "hair") if s_["op"] == "issymmetric" else ()):
            stimuli.append({"op": s_["op"], "a": dict(s_["a"], dtype=dt)})
    # Kruskal symmetrisation: observation contract on seeded integer instances
    for n in (2, 3):
        for N in (2, 3, 4):
            for R in (1, 2, 3):
                for seed in range(3 if tier == "quick" else 12):
                    for sym in (False, True):
                        stimuli.append({"op": "k_symmetrize", "a": {"n": n, "N": N, "R": R, "seed": seed + core.seed(),
                                                                     "symmetric_input": sym}})
    for n in (2, 3):
        for N in (2, 3, 4):
            for R in (1, 2):
                for pert in ("none", "rel1e-7", "rel1e-9", "rel1e-12", "entry", "scaled"):
                    for seed in range(2 if tier == "quick" else 8):
                        stimuli.append({"op": "k_issymmetric", "a": {"n": n, "N": N, "R": R, "seed": seed + core.seed(),
                                                                      "perturb": pert}})
    behaviours = [{"ev": stimuli[i:i + 40]} for i in range(0, len(stimuli), 40)]
    from collections import Counter
    out.notes["calls_per_op"] = dict(Counter(s["op"] for s in stimuli))
    core.pipeline(out, "c15", behaviours, "Symmetry_Trace", lock_mode="superset", chunk=200,
                  site_of=lambda tr, k: site_of(tr["ev"][k - 1]))
    out.rule = ("every call of Symmetry_Gen: 17 (shape, groups) configurations (full group, proper sub-groups, two "
                "disjoint groups, non-adjacent groups, order 2-4) x tensors {labelled, already symmetric, zero, "
                "sign-mixed, every unit tensor} x both algorithm versions x with / without details; plus seeded "
                "Kruskal instances for ktensor.symmetrize")
    out.exhaustive = True
    out.trusted = ["projection (result scaled by prod |g|!) and numpy observations in harness/c15.py", "TLC"]
    out.assumptions = ["linearity: the symmetrisation is decided on the unit tensors; Kruskal symmetrisation is checked "
                       "as a contract on observations with tolerance 1e-9"]
    return core.finish(out)


if __name__ == "__main__":
    core.main_wrap(main)
