"""C14 — leading mode-n vectors span the dominant subspace in every representation (Nvecs*.tla)."""
from __future__ import annotations

import json
import warnings
from typing import List

import numpy as np

import core
import tla
from core import Outcome

PROP = "C14"
HOLDERS = ["dense", "sparse", "ktensor", "ttensor", "ttensor_sparse_core"]


def flag(v, c):
    """the type of the flag is a presentation: Python bool, numpy bool (the result of a comparison), or 0 / 1"""
    k = (int(c.get("n", 0)) + int(c.get("r", 0))) % 3
    return [bool(v), np.bool_(v), int(bool(v))][k]


def qmat(rot: str, n: int):
    Q = np.eye(n)
    if rot == "swap":
        Q[0, 0] = 0; Q[0, 1] = -1; Q[1, 0] = 1; Q[1, 1] = 0
    elif rot == "r345":
        Q[0, 0] = 0.6; Q[0, 1] = -0.8; Q[1, 0] = 0.8; Q[1, 1] = 0.6
    return Q


def build(shape, entries, n, rot, holder):
    import bind
    ttb = bind.ttb
    N = len(shape)
    X = np.zeros(shape)
    for e in entries:
        X[tuple(e["sub"])] = e["w"]
    Q = qmat(rot, shape[n])
    Xr = np.moveaxis(np.tensordot(Q, X, axes=(1, n)), 0, n)
    if holder == "dense":
        return ttb.tensor(Xr)
    if holder == "dense_int16":
        # the same tensor scaled by 100 and stored with a narrow integer dtype: the leading vectors are unchanged, but
        # a Gram matrix formed in the stored dtype would wrap around (100 w)^2 > 32767
        return ttb.tensor(np.round(Xr * 100).astype(np.int16))
    if holder == "sparse":
        return ttb.tensor(np.where(np.abs(Xr) < 1e-14, 0.0, Xr)).to_sptensor()
    if holder == "sparse_int16":
        # counts are naturally stored as integers: the same scaled tensor as dense_int16, held sparse
        return ttb.tensor(np.round(Xr * 100).astype(np.int16)).to_sptensor()
    if holder == "ktensor":
        R = len(entries)
        U = [np.zeros((s, R)) for s in shape]
        for r, e in enumerate(entries):
            for k in range(N):
                U[k][e["sub"][k], r] = 1.0
        U[n] = Q @ U[n]
        return ttb.ktensor(U, np.array([float(e["w"]) for e in entries]))
    core_t = ttb.tensor(X)
    if holder == "ttensor_sparse_core":
        core_t = core_t.to_sptensor()
    F = [np.eye(s) for s in shape]
    F[n] = Q.copy()
    return ttb.ttensor(core_t, F)


def exact_event(c: dict, holder: str) -> dict:
    a = {"shape": c["shape"], "entries": c["entries"], "n": c["n"], "r": c["r"], "rot": c["rot"],
         "flipsign": c["flipsign"], "holder": holder}
    try:
        with warnings.catch_warnings():
            warnings.simplefilter("ignore")
            import c05
            T = build(tuple(c["shape"]), c["entries"], c["n"], c["rot"], holder)
            snap = c05.snapshot(T)
            v = T.nvecs(c["n"], c["r"], flipsign=flag(c["flipsign"], c))
            kept = c05.snapshot(T) == snap
        v = np.asarray(v)
        real = not np.iscomplexobj(v) or bool(np.all(np.abs(v.imag) == 0)) and False
        real = not np.iscomplexobj(v)
        vr = np.real(v)
        s = 5 if c["rot"] == "r345" else 1
        sc = vr * s
        exact = bool(np.all(np.abs(sc - np.round(sc)) < 1e-6))
        cols = [[int(round(x)) for x in sc[:, j]] for j in range(sc.shape[1])] if sc.ndim == 2 else []
        return {"op": "nvecs_exact", "args": a, "ret": {"st": "ok", "real": real, "exact": exact, "cols": cols,
                                                        "receiver_unchanged": bool(kept)}}
    except Exception as e:
        return {"op": "nvecs_exact", "args": a, "ret": {"st": "raised", "msg": f"{type(e).__name__}: {e}"[:150]}}


def e9(x):
    x = float(x)
    return 2000000000 if x != x else int(min(abs(x) * 1e9, 2e9))


def np_full(w, U):
    """dense array of a Kruskal tensor, in plain numpy"""
    out = np.zeros([u.shape[0] for u in U])
    for r in range(len(w)):
        t = np.array(w[r])
        for u in U:
            t = np.multiply.outer(t, u[:, r])
        out = out + t
    return out


def general_event(c: dict, holder: str) -> dict:
    import bind
    ttb = bind.ttb
    a = {"shape": c["shape"], "n": c["n"], "r": c["r"], "flipsign": c["flipsign"], "holder": holder, "seed": c["seed"]}
    try:
        rng = np.random.RandomState(c["seed"])
        shape = tuple(c["shape"])
        N = len(shape)
        # well separated leading spectrum in every mode: orthonormal factors, strongly graded core
        R = 3
        U = [np.linalg.qr(rng.randn(s, min(s, R)))[0] for s in shape]
        w = np.array([10.0, 5.0, 2.0])[: min(min(shape), R)]
        U = [u[:, : len(w)] for u in U]
        if len(w) == 1:
            # a single component (some mode is a singleton): every factor column stored with a negative dominant entry
            U = [(-u if u[np.argmax(np.abs(u[:, 0])), 0] > 0 else u) for u in U]
        if c.get("nonorth"):
            # oblique components: the off-diagonal entries of the products of the factor Gram matrices matter
            U = [u + 0.35 * rng.randn(*u.shape) for u in U]
            U = [u / np.linalg.norm(u, axis=0) for u in U]
        # weights of either sign (every second instance): the Gram matrix of a Kruskal tensor carries the products of the
        # signed weights, which only matters off the diagonal, i.e. for oblique components
        if len(w) > 1 and c["seed"] % 2 == 1:
            w = w * np.array([1.0, -1.0, 1.0])[: len(w)]
        # the leading vectors do not depend on the overall magnitude of the data
        w = w * float(c.get("scale", 1.0))
        if holder == "ktensor_shared":
            # a symmetric Kruskal tensor whose modes all hold ONE array object (no-copy construction / assignment of
            # the same matrix to several modes): the same tensor as with private copies
            A = np.asfortranarray(U[0])
            U = [A for _ in shape]
        K = ttb.ktensor(U, w, copy=False) if holder == "ktensor_shared" else ttb.ktensor(U, w)
        Xd = np_full(w, U)
        if holder == "dense":
            T = ttb.tensor(Xd)
        elif holder == "sparse":
            T = ttb.tensor(Xd).to_sptensor()
        elif holder in ("ktensor", "ktensor_shared"):
            T = K
        else:
            G = np.zeros([len(w)] * N)
            for r in range(len(w)):
                G[(r,) * N] = w[r]
            core_t = ttb.tensor(G)
            T = ttb.ttensor(core_t.to_sptensor() if holder == "ttensor_sparse_core" else core_t, U)
        import c05
        snap = c05.snapshot(T)
        with warnings.catch_warnings():
            warnings.simplefilter("ignore")
            v = np.asarray(T.nvecs(c["n"], c["r"], flipsign=flag(c["flipsign"], c)))
        kept = c05.snapshot(T) == snap
        real = not np.iscomplexobj(v)
        v = np.real(v)
        Xn = np.moveaxis(Xd, c["n"], 0).reshape(shape[c["n"]], -1)
        Gm = Xn @ Xn.T
        ev = np.sort(np.linalg.eigvalsh(Gm))[::-1]
        rho = np.array([v[:, j] @ Gm @ v[:, j] for j in range(v.shape[1])])
        top = ev[0] if ev[0] > 0 else 1.0
        eig_dev = max(np.linalg.norm(Gm @ v[:, j] - rho[j] * v[:, j]) for j in range(v.shape[1])) / top
        sign_ok = all(v[np.argmax(np.abs(v[:, j])), j] > 0 for j in range(v.shape[1]))
        return {"op": "nvecs", "args": a, "ret": {"st": "ok", "real": real, "ncols": int(v.shape[1]),
                "orth_dev": e9(np.max(np.abs(v.T @ v - np.eye(v.shape[1])))), "eigpair_dev": e9(eig_dev),
                "decreasing": bool(np.all(np.diff(rho) <= 1e-6 * ev[0])),
                "dominant_dev": e9(abs(np.sum(rho) - np.sum(ev[: v.shape[1]])) / top), "sign_rule": bool(sign_ok), "receiver_unchanged": bool(kept)}}
    except Exception as e:
        return {"op": "nvecs", "args": a, "ret": {"st": "raised", "msg": f"{type(e).__name__}: {e}"[:150]}}


def run_one(c):
    return exact_event(c, c["holder"]) if c["cls"] == "exact" else general_event(c, c["holder"])


def record(stim: dict) -> dict:
    return {"init": {}, "ev": [run_one(c) for c in stim["cases"]]}


def replay(b: dict) -> dict:
    evs = [run_one(c) for c in b["cases"]]
    return {"traces": [{"init": {}, "cases": b["cases"], "ev": evs}],
            "divs": [{"site": e["args"]["holder"], "why": "candidate", "expected": None, "detail": json.dumps(e["ret"])[:200],
                      "trace_index": 0, "event": i + 1} for i, e in enumerate(evs)],
            "events": len(evs), "nontrivial": [json.dumps(c, sort_keys=True) for c in b["cases"]]}


def tags_of(tr, k):
    a = tr["ev"][k - 1]["args"]
    size = a["shape"][a["n"]]
    return ["dense_branch" if a["r"] >= size - 1 else "iterative_branch"]


def main(tier: str) -> int:
    rp = core.replay_arg()
    if rp:
        data = json.loads(open(rp).read())
        st = data["stimulus"]
        tr = {"init": {}, "ev": [run_one(st["cases"][len(st["ev"]) - 1])]}
        tv = tla.validate_traces("Nvecs_Trace", [tr])
        if tv.rejected:
            print(f"VIOLATION property={PROP} replay={rp}  # {tv.rejected[0]['why']}")
            return 1
        print(f"{PROP}: replay accepted")
        return 0
    out = Outcome(PROP, tier)
    shp = ["<<3,3,2>>", "<<4,2,2>>"] if tier == "quick" else ["<<3,3,2>>", "<<4,2,3>>", "<<3,3,3>>", "<<2,3,4>>"]
    results = tla.run_many([dict(module="Nvecs_Gen", cfg_text="SPECIFICATION GSpec\nINVARIANT OrthLaw\n", defs={"ShapeC": s},
                                 timeout=3000) for s in shp])
    stimuli = []
    for r in results:
        out.add_tlc(r)
        stimuli += r.json
    step = 40 if tier == "quick" else 6
    cases = []
    for i, s in enumerate(stimuli[::step]):
        for h in HOLDERS + (["dense_int16", "sparse_int16"] if s["rot"] != "r345" else []):
            cases.append(dict(s, cls="exact", holder=h))
    sd = core.seed()
    for shape in ([4, 3, 5], [5, 4], [3, 4, 3, 2], [4, 1, 3], [3, 2, 1, 3]):
        for n in range(len(shape)):
            for r in range(1, shape[n] + 1):
                if r > 3:
                    continue
                for h in HOLDERS:
                    for fs in (True, False):
                        j = len(cases)
                        cases.append({"cls": "general", "shape": shape, "n": n, "r": r, "flipsign": fs, "holder": h,
                                      "seed": sd + (n + r) % 4, "nonorth": bool(j % 3 == 1),     # (for every holder: a Tucker tensor with unit-norm but oblique factors)
                                      "scale": [1.0, 1e-9, 1.0, 1e7][(j // 2) % 4]})
    for shape in ([4, 4, 4], [3, 3], [3, 3, 3, 3]):
        for n in range(len(shape)):
            for r in (1, 2, 3):
                cases.append({"cls": "general", "shape": shape, "n": n, "r": r, "flipsign": bool((n + r) % 2), "holder": "ktensor_shared",
                              "seed": sd + r, "nonorth": bool(r % 2), "scale": 1.0})
    behaviours = [{"cases": cases[j:j + 30]} for j in range(0, len(cases), 30)]
    from collections import Counter
    out.notes["cases_per_class_holder"] = {f"{k[0]}/{k[1]}": v for k, v in Counter((c["cls"], c["holder"]) for c in cases).items()}
    core.pipeline(out, "c14", behaviours, "Nvecs_Trace", lock_mode="superset", chunk=100,
                  site_of=lambda tr, k: {"dense": "tensor", "dense_int16": "tensor", "sparse": "sptensor", "sparse_int16": "sptensor", "ktensor": "ktensor", "ktensor_shared": "ktensor"}.get(
                      tr["ev"][k - 1]["args"]["holder"], "ttensor") + ".nvecs", tags_of=tags_of)
    out.rule = ("exact class (diagonal Gram, distinct integer eigenvalues) rotated in mode n by the identity, a signed "
                "permutation or the 3-4-5 rotation: every mode, r = 1..3 (iterative and dense branch), flipsign on/off, "
                "five holders (dense, sparse, Kruskal, Tucker with dense / sparse core): the returned columns scaled "
                "by the rotation's denominator must be exactly the specified integer vectors; general class: graded "
                "orthogonal models, all holders, observation contract (orthonormal, eigenpairs, decreasing order, "
                "dominant energy, sign rule)")
    out.exhaustive = False
    out.trusted = ["holder construction and numpy eigen-observations in harness/c14.py", "TLC"]
    out.assumptions = ["spectra with well separated (distinct integer / graded) leading eigenvalues, as the property states"]
    return core.finish(out)


if __name__ == "__main__":
    core.main_wrap(main)
