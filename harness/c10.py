"""C10 — Tucker decompositions meet their error bound and structural contract (spec: Hosvd*.tla)."""
from __future__ import annotations

import contextlib
import io
import json
import warnings
from typing import List

import numpy as np

import core
import tla
from core import Outcome

PROP = "C10"


def e9(x: float) -> int:
    x = float(x)
    if x != x:
        return 2000000000
    return int(min(abs(x) * 1e9, 2e9))


def quiet():
    return contextlib.redirect_stdout(io.StringIO())


def orthonormal(U) -> bool:
    return all(np.allclose(u.T @ u, np.eye(u.shape[1]), atol=1e-8) for u in U)


def core_dev(Xd: np.ndarray, T) -> float:
    G = Xd
    for k, u in enumerate(T.factor_matrices):
        G = np.moveaxis(np.tensordot(u.T, G, axes=(1, k)), 0, k)
    c = T.core.full().data if hasattr(T.core, "subs") else T.core.data
    return float(np.linalg.norm(G - c) / max(1.0, np.linalg.norm(c)))


def ranks_kw(ranks) -> dict:
    """how the rank request is spelled is a presentation (rotated with the array layout): "choose automatically" is
    the omitted argument or an explicit vector of zeros (the Tensor Toolbox convention the default expands to), and a
    vector is an array, a list or a tuple"""
    import bind
    lay = bind.get_layout()
    form = {"default": lambda r: np.array(r, dtype=int), "swapped": lambda r: np.array(r, dtype=int),
            "strided": list, "grown": tuple}[lay]
    if not any(ranks):
        return {} if lay == "default" else {"ranks": form([0] * len(ranks))}
    return {"ranks": form([int(r) for r in ranks])}


def exact_event(c: dict) -> dict:
    import bind
    ttb = bind.ttb
    shape = tuple(c["shape"])
    X = np.zeros(shape)
    for e in c["entries"]:
        X[tuple(e["sub"])] = e["w"]
    a = {"shape": c["shape"], "entries": c["entries"], "tn": c["tn"], "td": c["td"], "seq": c["seq"], "order": c["order"],
         "ranks": c.get("ranks", [0] * len(shape))}
    try:
        with quiet(), warnings.catch_warnings():
            warnings.simplefilter("ignore")
            kw = ranks_kw(a["ranks"])
            kw0 = repr(kw)
            T = ttb.hosvd(ttb.tensor(X), c["tn"] / c["td"], verbosity=0, dimorder=np.array(c["order"], dtype=int),
                          sequential=bool(c["seq"]), **kw)
        kept, unit = [], True
        for u in T.factor_matrices:
            cols = []
            for j in range(u.shape[1]):
                col = u[:, j]
                i = int(np.argmax(np.abs(col)))
                if abs(abs(col[i]) - 1) > 1e-8 or np.sum(np.abs(col)) - abs(col[i]) > 1e-8:
                    unit = False
                cols.append(i)
            kept.append(cols)
        return {"op": "hosvd_exact", "args": a, "ret": {"st": "ok", "kept": kept, "unit_vectors": unit,
                                                        "core_ok": core_dev(X, T) <= 1e-8,
                                                        "request_untouched": repr(kw) == kw0}}
    except Exception as e:
        return {"op": "hosvd_exact", "args": a, "ret": {"st": "raised", "msg": f"{type(e).__name__}: {e}"[:150]}}


def general_event(c: dict) -> dict:
    import bind
    ttb = bind.ttb
    rng = np.random.RandomState(c["seed"])
    shape = tuple(c["shape"])
    Xd = rng.rand(*shape) + (0 if c["seed"] % 2 else 2.0 * (rng.rand(*shape) < 0.3))
    # element type of the data is a presentation: integer-valued data of magnitude 2e4 stored as int32 (squares fit,
    # their sums do not) and small data stored as float32
    stored = Xd
    if c.get("dtype") == "int32":
        Xd = np.round(Xd * 2e4)
        stored = Xd.astype(np.int32)
    elif c.get("dtype") == "float32":
        stored = Xd.astype(np.float32)
        Xd = stored.astype(np.float64)
    # the magnitude of the data is a presentation (the tolerance is relative): 2^-30 and 2^25, exact in binary
    f = {1: 2.0 ** -30, 3: 2.0 ** 25}.get(c["seed"] % 5, 1.0) if c.get("dtype", "float") == "float" else 1.0
    stored = stored * f if f != 1.0 else stored
    a = {"shape": list(shape), "auto": not any(c["ranks"]), "ranks": c["ranks"], "seq": c["seq"], "order": c["order"]}
    try:
        with quiet(), warnings.catch_warnings():
            warnings.simplefilter("ignore")
            kw = ranks_kw(c["ranks"])
            kw0 = repr(kw)
            T = ttb.hosvd(ttb.tensor(stored), c["tol"], verbosity=c["verbosity"], dimorder=np.array(c["order"], dtype=int),
                          sequential=bool(c["seq"]), **kw)
        if f != 1.0:
            T = ttb.ttensor(ttb.tensor(T.core.data / f), [u.copy() for u in T.factor_matrices])
        rel = np.linalg.norm(Xd - T.full().data) / np.linalg.norm(Xd)
        ranks = [int(u.shape[1]) for u in T.factor_matrices]
        return {"op": "hosvd", "args": a, "ret": {"st": "ok", "orthonormal": orthonormal(T.factor_matrices),
                "core_relation_dev": e9(core_dev(Xd, T)), "relerr9": e9(rel), "tol9": e9(c["tol"]), "ranks": ranks,
                "ranks_out_of_range": any(r < 1 or r > s for r, s in zip(ranks, shape)),
                "request_untouched": repr(kw) == kw0}}
    except Exception as e:
        return {"op": "hosvd", "args": a, "ret": {"st": "raised", "msg": f"{type(e).__name__}: {e}"[:150]}}


def tucker_event(c: dict) -> dict:
    import bind
    import c05
    ttb = bind.ttb
    rng = np.random.RandomState(c["seed"])
    shape = tuple(c["shape"])
    Xd = rng.rand(*shape)
    if c.get("data") == "lowrank":      # exactly representable at the requested ranks
        G = rng.rand(*c["ranks"])
        for k, (s_, r_) in enumerate(zip(shape, c["ranks"])):
            G = np.moveaxis(np.tensordot(np.linalg.qr(rng.rand(s_, r_))[0], G, axes=(1, k)), 0, k)
        Xd = G
    X = ttb.tensor(Xd)
    if c.get("data") != "lowrank" and (c["seed"] + len(shape) + c["maxiters"]) % 3 == 0:
        # measured data kept in 16 bits (every entry fits, the squares do not): the element type is a presentation
        Xd = np.round(Xd * 250)
        X = ttb.tensor(Xd.astype(np.int16))
    elif (c["seed"] + c["maxiters"]) % 4 == 1:
        # the magnitude of the data is a presentation (fit, factors and the relation core = X x U' are scale free)
        Xd = Xd * 2.0 ** -70
        X = ttb.tensor(Xd)
    if (c["seed"] + len(shape)) % 2 == 0 and shape[-1] >= 2:
        # the same values in a tensor that was completed by assignment beyond its first shape (history of the object)
        head = tuple([slice(None)] * (len(shape) - 1) + [slice(0, shape[-1] - 1)])
        tail = tuple([slice(None)] * (len(shape) - 1) + [shape[-1] - 1])
        full = X.data.copy()
        X = ttb.tensor(np.asfortranarray(full[head]).copy())
        X[tail] = full[tail]
        assert X.shape == shape and np.array_equal(X.data, full)
    a = {"shape": list(shape), "ranks": c["ranks"], "maxiters": c["maxiters"], "order": c["order"], "init": c["init"]}
    try:
        shared = None
        if c["init"] == "given":
            r2 = np.random.RandomState(c["seed"] + 3)
            shared = [np.linalg.qr(r2.rand(s, r))[0] for s, r in zip(shape, c["ranks"])]      # ONE list for every run
        snap_start = c05.snapshot(shared) if shared is not None else None

        def run(maxiters, stoptol, printitn):
            np.random.seed(c["seed"])
            init = shared if shared is not None else c["init"]
            with quiet(), warnings.catch_warnings():
                warnings.simplefilter("ignore")
                return ttb.tucker_als(X, np.array(c["ranks"], dtype=int), stoptol=stoptol, maxiters=maxiters,
                                      dimorder=np.array(c["order"], dtype=int), init=init, printitn=printitn)
        snap = c05.snapshot(X)
        T, Uinit, out = run(c["maxiters"], c["stoptol"], c["printitn"])
        snap_T = c05.snapshot(T)
        fit_re = 1 - np.linalg.norm(Xd - T.full().data) / np.linalg.norm(Xd)
        fits = []
        for k in range(1, c["maxiters"] + 1):
            _, _, ok = run(k, 0.0, 0)
            fits.append(int(round(ok["fit"] * 1e9)) if ok["fit"] == ok["fit"] else -2000000000)
        return {"op": "tucker_als", "args": a, "ret": {"st": "ok", "orthonormal": orthonormal(T.factor_matrices),
                "ranks": [int(u.shape[1]) for u in T.factor_matrices], "core_relation_dev": e9(core_dev(Xd, T)),
                "fit_dev": e9(out["fit"] - fit_re), "iters_reported": int(out["iters"]), "trunc_fits": fits,
                "data_untouched": c05.snapshot(X) == snap,
                # the truncated runs above started from the same list object: neither it nor the first result may differ now
                "start_untouched": bool(shared is None or c05.snapshot(shared) == snap_start),
                "earlier_result_untouched": bool(c05.snapshot(T) == snap_T)}}
    except Exception as e:
        return {"op": "tucker_als", "args": a, "ret": {"st": "raised", "msg": f"{type(e).__name__}: {e}"[:150]}}


def run_one(c: dict) -> dict:
    return {"exact": exact_event, "general": general_event, "tucker": tucker_event}[c["cls"]](c)


def record(stim: dict) -> dict:
    return {"init": {}, "ev": [run_one(c) for c in stim["cases"]]}


def replay(b: dict) -> dict:
    evs = [run_one(c) for c in b["cases"]]
    return {"traces": [{"init": {}, "cases": b["cases"], "ev": evs}],
            "divs": [{"site": e["op"], "why": "candidate", "expected": None, "detail": json.dumps(e["ret"])[:200],
                      "trace_index": 0, "event": i + 1} for i, e in enumerate(evs)],
            "events": len(evs), "nontrivial": [json.dumps(c, sort_keys=True) for c in b["cases"]]}


def main(tier: str) -> int:
    rp = core.replay_arg()
    if rp:
        data = json.loads(open(rp).read())
        st = data["stimulus"]
        tr = {"init": {}, "ev": [run_one(st["cases"][len(st["ev"]) - 1])]}
        tv = tla.validate_traces("Hosvd_Trace", [tr])
        if tv.rejected:
            print(f"VIOLATION property={PROP} replay={rp}  # {tv.rejected[0]['why']}")
            return 1
        print(f"{PROP}: replay accepted")
        return 0
    out = Outcome(PROP, tier)
    tols = "{<<1,2>>, <<1,4>>, <<3,4>>, <<1,10>>}" if tier == "quick" else "{<<1,2>>, <<1,4>>, <<3,4>>, <<1,10>>, <<1,3>>, <<9,10>>, <<1,100>>}"
    shp = ["<<3,3,2>>"] if tier == "quick" else ["<<3,3,2>>", "<<2,3,3>>", "<<3,3,3>>", "<<3,2,3>>"]
    jobs = []
    for s in shp:
        for sq in ("TRUE", "FALSE"):
            jobs.append(dict(module="Hosvd_MC", cfg_text=f"SPECIFICATION MCSpec\nCONSTANTS\n Seq_ = {sq}\nINVARIANT ErrBound\n"
                             "INVARIANT EnergySplit\nINVARIANT RanksOk\n", defs={"ShapeC": s, "Tols": tols}, workers=3,
                             timeout=3400))
    results = tla.run_many(jobs, parallel=5)
    exact = []
    for r in results:
        out.add_tlc(r)
        exact += r.json
    step = 4 if tier == "quick" else 1
    cases = [dict(c, cls="exact") for c in exact[::step]]
    # requested ranks on the exact class
    for c in exact[:: (40 if tier == "quick" else 8)]:
        cases.append(dict(c, cls="exact", ranks=[1 + (i % s) for i, s in enumerate(c["shape"])]))
    # general inputs and Tucker-ALS
    import itertools
    sd = core.seed()
    i = 0
    for shape in ([4, 3, 5], [3, 3, 3], [2, 4, 3, 2]):
        for order in ([list(range(len(shape)))] + [list(p) for p in itertools.permutations(range(len(shape)))][1:4]):
            for seq in (True, False):
                for tol in (0.5, 0.1, 1e-2, 1e-3):
                    cases.append({"cls": "general", "shape": shape, "order": order, "seq": seq, "tol": tol,
                                  "dtype": ["float", "int32", "float", "float32"][(i * 3 + i // 5) % 4],
                                  "ranks": [0] * len(shape), "verbosity": [0, 1, 10][(i * 7 + i // 3) % 3], "seed": sd + (i * 5 + i // 4) % 5})
                    i += 1
                cases.append({"cls": "general", "shape": shape, "order": order, "seq": seq, "tol": 0.1,
                              "ranks": [1 + (j + i) % s for j, s in enumerate(shape)], "verbosity": 0, "seed": sd + i % 5})
                i += 1
            for init in ("random", "nvecs", "given"):
                import random
                rr = random.Random(104729 * sd + i)      # options drawn independently of each other
                cases.append({"cls": "tucker", "shape": shape, "order": order, "ranks": [min(2, s) for s in shape],
                              "maxiters": rr.choice([1, 2, 3]), "stoptol": rr.choice([1e-4, 0.0]), "printitn": rr.choice([0, 1, 2]),
                              "init": init, "seed": sd + rr.randrange(5)})
                i += 1
                # data exactly representable at the requested ranks (fit = 1 up to rounding), full ranks, and
                # unbalanced rank vectors (one rank larger than the product of the others: the mode-n unfolding of the
                # projected tensor is tall, an SVD-based update would return too few columns)
                unb = [min(s, 4) if j == i % len(shape) else (2 if j == (i + 1) % len(shape) and len(shape) > 3 else 1)
                       for j, s in enumerate(shape)]
                for rk, dk in (([min(2, s) for s in shape], "lowrank"), (list(shape), "generic"), (unb, "generic")):
                    for sdx in range(4 if tier == "quick" else 12):
                        cases.append({"cls": "tucker", "shape": shape, "order": order, "ranks": rk, "data": dk,
                                      "maxiters": 2, "stoptol": 1e-4, "printitn": 0, "init": init, "seed": sd + sdx})
    behaviours = [{"cases": cases[j:j + 25]} for j in range(0, len(cases), 25)]
    from collections import Counter
    out.notes["cases_per_class"] = dict(Counter(c["cls"] for c in cases))
    core.pipeline(out, "c10", behaviours, "Hosvd_Trace", lock_mode="superset", chunk=100,
                  site_of=lambda tr, k: tr["ev"][k - 1]["op"] + ("(ranks given)" if any(tr["ev"][k - 1]["args"].get("ranks", [])) and
                                                                   tr["ev"][k - 1]["op"] != "tucker_als" else ""))
    out.rule = ("exact class: every tensor with 2-4 nonzeros pairwise differing in >= 2 coordinates (distinct integer "
                "eigenvalues in every mode) x rational tolerances x both truncation strategies x every mode order: the "
                "HOSVD state machine is explored by TLC (error bound by design) and the real hosvd must return exactly "
                "the specified leading unit vectors; general class: seeded dense tensors, 4 tolerances, requested "
                "ranks, 3 verbosity levels; Tucker-ALS with random / nvecs / given starts and truncated runs")
    out.exhaustive = True
    out.trusted = ["numpy recomputation of orthonormality, core relation, relative error, fit in harness/c10.py", "TLC"]
    out.assumptions = ["exact class excludes ties between eigenvalues; general inputs: tolerance 1e-6 on the error bound"]
    return core.finish(out)


if __name__ == "__main__":
    core.main_wrap(main)
