"""C17, linear index <-> subscripts for power-of-two shapes with up to 2^62 cells (spec: IndexMaps_Bits*.tla): a
subscript tuple is a bit string split at the mode widths, its linear index the unsplit string; bit strings in the
specification, Python integers here."""
from __future__ import annotations

import json

import numpy as np

from c07b import to_bits, to_int


def site(a: dict) -> str:
    return "tt_sub2ind(2^k modes)" if len(a["v"]) == 1 else "tt_ind2sub(2^k modes)"


def run_event(a: dict) -> dict:
    import bind
    u = bind.ttb.pyttb_utils
    w, v = a["w"], a["v"]
    try:
        src = np.array([[to_int(b) for b in e] for e in a["subs"]], dtype=np.int64)
        if len(v) == 1:
            idx = np.asarray(u.tt_sub2ind(tuple(1 << k for k in w), src)).reshape(-1)
            if len(idx) != len(src):
                return {"st": "number-of-answers"}
            return {"st": "ok", "subs": [[to_bits(int(idx[e]), v[0])] for e in range(len(src))]}
        rs = np.asarray(u.tt_ind2sub(tuple(1 << k for k in v), src.reshape(-1)))
        if rs.shape != (len(src), len(v)):
            return {"st": "number-of-answers"}
        return {"st": "ok", "subs": [[to_bits(int(rs[e, k]), v[k]) for k in range(len(v))] for e in range(len(src))]}
    except Exception as e:
        return {"st": "raised:" + type(e).__name__ + ":" + str(e)[:100]}


def record(stim: dict) -> dict:
    return {"init": {}, "bits": True, "ev": [{"op": "reshape_bits", "args": e["args"], "ret": run_event(e["args"])} for e in stim["ev"]]}


def replay(b: dict) -> dict:
    ret = run_event(b["a"])
    tr = {"init": {}, "bits": True, "ev": [{"op": "reshape_bits", "args": b["a"], "ret": ret}]}
    divs = []
    if ret != b["ret"]:
        divs.append({"site": site(b["a"]), "why": "differs-from-the-resplit-bit-string", "expected": b["ret"],
                     "detail": json.dumps(ret)[:300], "trace_index": 0, "event": 1})
    return {"traces": [tr], "divs": divs, "events": 1, "nontrivial": [json.dumps(b["a"], sort_keys=True)]}
