"""C07, power-of-two shapes beyond 2^53 cells (spec: IndexMaps_Bits*.tla): subscripts are bit strings in the
specification and Python integers here."""
from __future__ import annotations

import json
from typing import List

import numpy as np


def to_int(bits: List[int]) -> int:
    return sum(int(b) << i for i, b in enumerate(bits))


def to_bits(x: int, width: int) -> List[int]:
    x = int(x)
    if x < 0 or x >= (1 << width):
        # not a subscript of a mode with 2^width indices: reported with one bit too many (the specification rejects it)
        return [int(b) for b in bin(abs(x))[2:][::-1]] + [1] * max(0, width + 1 - len(bin(abs(x))[2:]))
    return [(x >> i) & 1 for i in range(width)]


def run_event(a: dict) -> dict:
    import bind
    ttb = bind.ttb
    w, v = a["w"], a["v"]
    try:
        subs = np.array([[to_int(b) for b in e] for e in a["subs"]], dtype=np.int64)
        vals = np.arange(1.0, len(subs) + 1)[:, None]
        S = ttb.sptensor(subs, vals, tuple(1 << k for k in w))
        R = S.reshape(tuple(1 << k for k in v))
        order = {float(x): i for i, x in enumerate(np.asarray(R.vals).reshape(-1))}
        if sorted(order) != [float(k) for k in range(1, len(subs) + 1)] or tuple(R.shape) != tuple(1 << k for k in v):
            return {"st": "values-or-shape-changed"}
        rs = np.asarray(R.subs)
        return {"st": "ok", "subs": [[to_bits(rs[order[float(e + 1)], k], v[k]) for k in range(len(v))] for e in range(len(subs))]}
    except Exception as e:
        return {"st": "raised:" + type(e).__name__ + ":" + str(e)[:100]}


def record(stim: dict) -> dict:
    return {"init": {}, "bits": True, "ev": [{"op": "reshape_bits", "args": e["args"], "ret": run_event(e["args"])} for e in stim["ev"]]}


def replay(b: dict) -> dict:
    ret = run_event(b["a"])
    tr = {"init": {}, "bits": True, "ev": [{"op": "reshape_bits", "args": b["a"], "ret": ret}]}
    divs = []
    if ret != b["ret"]:
        divs.append({"site": "sptensor.reshape(2^k modes)", "why": "differs-from-the-resplit-bit-string", "expected": b["ret"],
                     "detail": json.dumps(ret)[:300], "trace_index": 0, "event": 1})
    return {"traces": [tr], "divs": divs, "events": 1, "nontrivial": [json.dumps(b["a"], sort_keys=True)]}
