"""C16 — export followed by import reproduces the object exactly (spec: FileFormat*.tla)."""
from __future__ import annotations

import json
import os
import random
import re
import struct
import tempfile
from typing import List

import numpy as np

import core
import tla
from core import Outcome

PROP = "C16"
KWS = ("tensor", "sptensor", "ktensor", "matrix")


def limbs(x: float) -> List[int]:
    return list(struct.unpack(">4H", struct.pack(">d", float(x))))


def unlimb(l) -> float:
    return struct.unpack(">d", struct.pack(">4H", *l))[0]


def catalogue(seed: int, n_random: int) -> List[List[int]]:
    import sys
    special = [0.0, -0.0, 1.0, -1.0, 1 / 3, -2 / 3, np.pi, np.e, 1e300, -1e300, 1e-300, 5e-324, -5e-324, 2.2250738585072014e-308,
               sys.float_info.max, -sys.float_info.max, sys.float_info.min, 2.0 ** 53 + 2, 2.0 ** 62, 9007199254740993.0,
               1.0 + 2 ** -52, 1.0 - 2 ** -53, 0.1, 0.2, 0.30000000000000004, 123456789.123456789, 1e22, 1e23, 4.35, 2 ** -1022,
               2.0 ** 1023, 1.7976931348623155e308, 4.9e-324 * 3, 1e-5, 1e15 + 0.3]
    rng = random.Random(seed)
    out = [limbs(x) for x in special]
    while len(out) < len(special) + n_random:
        bits = rng.getrandbits(64)
        x = struct.unpack(">d", struct.pack(">Q", bits))[0]
        if x == x and x not in (float("inf"), float("-inf")):
            out.append(limbs(x))
    return out


def gamma_obj(o: dict):
    import bind
    ttb = bind.ttb
    k = o["kind"]
    if k == "dense":
        data = np.array([unlimb(l) for l in o["v"]]).reshape(tuple(o["shape"]), order="F")
        return ttb.tensor(data, tuple(o["shape"]))
    if k == "sparse":
        if not o["subs"]:
            return ttb.sptensor(shape=tuple(o["shape"]))
        # the element type of the subscript array is a presentation: the narrowest type that holds every subscript
        # (rotated with a hash of the object)
        import hashlib
        mx = max(max(r) for r in o["subs"])
        pick = hashlib.md5(json.dumps(o, sort_keys=True).encode()).digest()[5] % 3
        sdt = [int, (np.int8 if mx <= 127 else np.int16), (np.uint8 if mx <= 255 else np.uint16)][pick] if mx < 2 ** 15 else int
        return ttb.sptensor(np.array(o["subs"], dtype=sdt), np.array([unlimb(l) for l in o["vals"]])[:, None], tuple(o["shape"]))
    if k == "ktensor":
        U = [np.array([[unlimb(x) for x in row] for row in m]) for m in o["U"]]
        # presentation: every other factor matrix Fortran-ordered
        U = [np.asfortranarray(u) if i % 2 else u for i, u in enumerate(U)]
        return ttb.ktensor(U, np.array([unlimb(l) for l in o["w"]]))
    if k == "matrix":
        m = np.array([[unlimb(x) for x in row] for row in o["m"]])
        return np.asfortranarray(m) if (len(o["m"]) + len(o["m"][0])) % 2 else m
    if k == "array":
        m = np.array([unlimb(x) for x in o["v"]]).reshape(tuple(o["shape"]))
        return np.asfortranarray(m) if sum(o["shape"]) % 2 else m
    raise ValueError(k)


def alpha_obj(x) -> dict:
    import bind
    ttb = bind.ttb
    if isinstance(x, ttb.tensor):
        return {"kind": "dense", "shape": [int(s) for s in x.shape], "v": [limbs(v) for v in x.data.flatten(order="F")]}
    if isinstance(x, ttb.sptensor):
        subs = np.asarray(x.subs)
        return {"kind": "sparse", "shape": [int(s) for s in x.shape],
                "subs": [] if subs.size == 0 else [[int(i) for i in r] for r in subs],
                "vals": [] if np.asarray(x.vals).size == 0 else [limbs(v) for v in np.asarray(x.vals).reshape(-1)]}
    if isinstance(x, ttb.ktensor):
        return {"kind": "ktensor", "w": [limbs(v) for v in x.weights], "U": [[[limbs(v) for v in row] for row in f] for f in x.factor_matrices]}
    if isinstance(x, np.ndarray) and x.ndim == 2:
        return {"kind": "matrix", "m": [[limbs(v) for v in row] for row in x]}
    if isinstance(x, np.ndarray) and x.ndim >= 1:
        return {"kind": "array", "shape": [int(s) for s in x.shape], "v": [limbs(v) for v in x.flatten(order="C")]}
    return {"kind": "other:" + type(x).__name__}


def tokenize(path: str) -> List[list]:
    toks = []
    for t in open(path).read().split():
        if t in KWS:
            toks.append([t, 0, 0, 0, 0])
        elif re.fullmatch(r"-?\d+", t):
            toks.append(["int", int(t), 0, 0, 0])
        else:
            toks.append(["val"] + limbs(float(t)))
    return toks


def write_tokens(path: str, toks: List[list]) -> None:
    """lay the token sequence out in lines the way the format prescribes (header lines, one sparse entry /
    one matrix row per line)"""
    def fmt(t):
        return t[0] if t[0] in KWS else (str(t[1]) if t[0] == "int" else "%.16e" % unlimb(t[1:]))
    lines = []
    i = 0

    def header(i):
        n = toks[i + 1][1]
        lines.append(toks[i][0])
        lines.append(str(n))
        lines.append(" ".join(str(toks[i + 2 + k][1]) for k in range(n)))
        return n, [toks[i + 2 + k][1] for k in range(n)], i + 2 + n
    kw = toks[0][0]
    if kw == "tensor":
        n, sh, i = header(0)
        lines += [fmt(t) for t in toks[i:]]
    elif kw == "sptensor":
        n, sh, i = header(0)
        nz = toks[i][1]
        lines.append(str(nz))
        i += 1
        for _ in range(nz):
            lines.append(" ".join(fmt(t) for t in toks[i:i + n + 1]))
            i += n + 1
    elif kw == "matrix" and toks[1][1] != 2:
        n, sh, i = header(0)
        lines += [fmt(t) for t in toks[i:]]
    elif kw == "matrix":
        n, sh, i = header(0)
        for r in range(sh[0]):
            lines.append(" ".join(fmt(t) for t in toks[i:i + sh[1]]))
            i += sh[1]
    elif kw == "ktensor":
        n, sh, i = header(0)
        R = toks[i][1]
        lines.append(str(R))
        i += 1
        lines.append(" ".join(fmt(t) for t in toks[i:i + R]))
        i += R
        for _ in range(n):
            _, msh, i = header(i)
            for r in range(msh[0]):
                lines.append(" ".join(fmt(t) for t in toks[i:i + msh[1]]))
                i += msh[1]
    with open(path, "w") as f:
        f.write("\n".join(lines) + "\n")


# presentation of a sparse tensor: the same entries at the far end of a very long first mode (subscripts beyond 2^53:
# hashed 64-bit ids).  The specification sees the small subscripts; the harness translates mode 0 on the way in
# (object, file) and back on the way out (tokens, object).
FAR = 2 ** 62


def is_far(c: dict) -> bool:
    import hashlib
    o = c["obj"]
    if c.get("far") is not None:
        return bool(c["far"])
    if o is None or o.get("kind") != "sparse" or not o["shape"]:
        return False
    return hashlib.md5(json.dumps(o, sort_keys=True).encode()).digest()[3] % 3 == 0


def far_obj(o: dict, sign: int) -> dict:
    if o.get("kind") != "sparse" or not o.get("shape"):
        return o
    return dict(o, shape=[o["shape"][0] + sign * FAR] + list(o["shape"][1:]),
                subs=[[r[0] + sign * FAR] + list(r[1:]) for r in o["subs"]])


def far_tokens(toks: List[list], sign: int) -> List[list]:
    if not toks or toks[0][0] != "sptensor":
        return toks
    out = [list(t) for t in toks]
    # (total on ill-formed files: a token that is missing or is not an integer is left for the specification to reject)
    if len(out) < 3 or out[1][0] != "int":
        return out
    n = out[1][1]
    if n < 1 or len(out) < 3 + n or out[2][0] != "int" or out[2 + n][0] != "int":
        return out
    out[2][1] += sign * FAR
    nz = out[2 + n][1]
    for k in range(nz):
        j = 3 + n + k * (n + 1)
        if j >= len(out) or out[j][0] != "int":
            break
        out[j][1] += sign * FAR
    return out


def run_case(c: dict, tmp: str) -> List[dict]:
    import bind
    ttb = bind.ttb
    if is_far(c):
        evs = run_case(dict(c, obj=far_obj(c["obj"], +1), tokens=far_tokens(c["tokens"], +1), far=False), tmp)
        for ev in evs:
            for k in ("obj", "tokens"):
                if k in ev["args"]:
                    ev["args"][k] = c[k]
            ev["args"]["far"] = True
            if ev["ret"].get("tokens") is not None:
                ev["ret"]["tokens"] = far_tokens(ev["ret"]["tokens"], -1)
            if ev["ret"].get("obj") is not None:
                ev["ret"]["obj"] = far_obj(ev["ret"]["obj"], -1)
        return evs
    evs = []
    obj = gamma_obj(c["obj"])
    p = os.path.join(tmp, "x.tns")
    # export (base 1 only: the writer always produces 1-based files)
    if c["base"] == 1:
        try:
            # earlier calls are part of the history: an export with explicit (lossy) formats of another object first
            ttb.export_data(ttb.ktensor([np.ones((2, 1)), np.ones((2, 1))], np.array([2.0])), os.path.join(tmp, "other.tns"),
                            fmt_data="%d", fmt_weights="%.1e")
            ttb.export_data(obj, p)
            evs.append({"op": "export", "args": {"obj": c["obj"]}, "ret": {"st": "ok", "tokens": tokenize(p)}})
            back = ttb.import_data(p)
            evs.append({"op": "roundtrip", "args": {"obj": c["obj"]}, "ret": {"st": "ok", "obj": alpha_obj(back)}})
        except Exception as e:
            evs.append({"op": "export", "args": {"obj": c["obj"]}, "ret": {"st": "raised", "msg": f"{type(e).__name__}: {e}"[:150]}})
    # import of the specification's file with the given index base
    try:
        write_tokens(p, c["tokens"])
        # the type of the index base is a presentation (rotated with a hash of the file): a Python integer or a numpy
        # integer scalar, also of a narrow type that does not hold the subscripts of the file
        import hashlib
        bt = [int, np.int64, np.uint8, np.int8, np.int16][hashlib.md5(json.dumps(c["tokens"]).encode()).digest()[3] % 5]
        back = ttb.import_data(p, index_base=bt(c["base"])) if (c["base"] != 1 or bt is not int) else ttb.import_data(p)
        evs.append({"op": "import", "args": {"tokens": c["tokens"], "base": c["base"]}, "ret": {"st": "ok", "obj": alpha_obj(back)}})
    except Exception as e:
        evs.append({"op": "import", "args": {"tokens": c["tokens"], "base": c["base"]},
                    "ret": {"st": "raised", "msg": f"{type(e).__name__}: {e}"[:150]}})
    return evs


def record(stim: dict) -> dict:
    with tempfile.TemporaryDirectory() as tmp:
        evs = []
        for e in stim["ev"]:
            if e["op"] == "import":
                c = {"obj": None, "base": e["args"]["base"], "tokens": e["args"]["tokens"]}
                import bind
                p = os.path.join(tmp, "x.tns")
                far = bool(e["args"].get("far"))
                try:
                    write_tokens(p, far_tokens(c["tokens"], +1) if far else c["tokens"])
                    back = bind.ttb.import_data(p, index_base=c["base"])
                    evs.append({"op": "import", "args": e["args"], "ret": {"st": "ok", "obj": far_obj(alpha_obj(back), -1) if far else alpha_obj(back)}})
                except Exception as ex:
                    evs.append({"op": "import", "args": e["args"], "ret": {"st": "raised", "msg": str(ex)[:100]}})
            else:
                c = {"obj": e["args"]["obj"], "base": 1, "tokens": []}
                evs += [x for x in run_case({"obj": e["args"]["obj"], "base": 1, "tokens": [["tensor", 0, 0, 0, 0]],
                                             "far": bool(e["args"].get("far"))}, tmp)
                        if x["op"] == e["op"]]
        return {"init": {}, "ev": evs}


SITE = {"export": "export_data", "import": "import_data", "roundtrip": "export_data+import_data"}


def replay(b: dict) -> dict:
    tr = {"init": {}, "ev": []}
    divs, nontrivial = [], []
    with tempfile.TemporaryDirectory() as tmp:
        for c in b["ev"]:
            for ev in run_case(c, tmp):
                tr["ev"].append(ev)
                nontrivial.append(json.dumps([ev["op"], c["obj"], c["base"]], sort_keys=True))
                exp_ok = (ev["ret"]["st"] == "ok" and (
                    (ev["op"] == "export" and ev["ret"]["tokens"] == c["tokens"]) or
                    (ev["op"] in ("import", "roundtrip") and ev["ret"]["obj"] == c["obj"])))
                if not exp_ok:
                    divs.append({"site": SITE[ev["op"]] + f"({c['obj']['kind']})", "why": "candidate", "expected": None,
                                 "detail": json.dumps(ev["ret"])[:200], "trace_index": 0, "event": len(tr["ev"])})
    return {"traces": [tr], "divs": divs, "events": len(tr["ev"]), "nontrivial": nontrivial}


def main(tier: str) -> int:
    if core.replay_arg():
        return core.replay_file(core.replay_arg(), PROP, "c16", "FileFormat_Trace")
    out = Outcome(PROP, tier)
    cat = catalogue(core.seed(), 40 if tier == "quick" else 400)
    jobs = []
    # several catalogue rotations so that every catalogue value is placed in files
    rots = 2 if tier == "quick" else 12
    for r in range(rots):
        rot = cat[(r * 17) % len(cat):] + cat[:(r * 17) % len(cat)]
        jobs.append(dict(module="FileFormat_Gen", cfg_text="SPECIFICATION Spec\nINVARIANT RoundTripLaw\nINVARIANT HeaderLaw\n",
                         defs={"Cat": tla.tla(rot)}, timeout=3000))
    results = tla.run_many(jobs)
    cases = []
    for r in results:
        out.add_tlc(r)
        cases += r.json
    behaviours = [{"ev": cases[i:i + 25]} for i in range(0, len(cases), 25)]
    out.notes["cases"] = len(cases)
    out.notes["catalogue_values"] = len(cat)
    from collections import Counter
    out.notes["cases_per_kind_base"] = {f"{k[0]}/base{k[1]}": n for k, n in Counter((c["obj"]["kind"], c["base"]) for c in cases).items()}
    core.pipeline(out, "c16", behaviours, "FileFormat_Trace", lock_mode="superset", chunk=120,
                  site_of=lambda tr, k: SITE[tr["ev"][k - 1]["op"]] + "(" + (
                      tr["ev"][k - 1]["args"].get("obj") or {"kind": tr["ev"][k - 1]["args"]["tokens"][0][0]})["kind"] + ")")
    out.rule = ("every object of FileFormat_Gen (dense / sparse with pattern classes and two stored orders / Kruskal "
                "ranks 1-3 / matrices / plain arrays with 1, 3 and 4 modes, shapes incl. 1-way and singleton modes) with values from a catalogue of special "
                "doubles (+-0, subnormals, extremes, adjacent doubles, integers > 2^53) and seeded random bit patterns; "
                "three events per object: export (real file tokenised vs the specified token sequence), import of the "
                "specification's file for index base 0 and 1, real round trip")
    out.exhaustive = True
    out.trusted = ["tokeniser / file writer / limb encoding in harness/c16.py", "TLC"]
    out.assumptions = ["values are opaque tokens; that %.16e + strtod round-trips every finite double is an IEEE-754 "
                       "fact (assumed); all finite doubles are sampled, not exhausted"]
    return core.finish(out)


if __name__ == "__main__":
    core.main_wrap(main)
