"""X01 (extension) — the printed form of every object shows exactly its content (spec: Printing*.tla)."""
from __future__ import annotations

import json
import re
from typing import List

import numpy as np

import core
import tla
from core import Outcome

PROP = "X01"
NUM = r"[-+]?(?:\d+\.?\d*(?:[eE][-+]?\d+)?|\.\d+|nan|inf)"


def _ints(text: str) -> List[int]:
    return [int(x) for x in re.findall(r"-?\d+", text)]


def _num(tok: str):
    v = float(tok)
    if v != v or abs(v) == float("inf"):
        raise ValueError("non-finite")
    if v != round(v):
        raise ValueError(f"non-integer value {tok} (the generated objects hold integers)")
    return int(round(v))


def _matrix(lines: List[str]):
    """numpy's 2-D / 1-D array text -> list of rows"""
    text = " ".join(lines)
    rows = re.findall(r"\[([^\[\]]*)\]", text)
    return [[_num(t) for t in re.findall(NUM, r)] for r in rows]


def _split_blocks(lines: List[str], is_head) -> List[tuple]:
    blocks, cur = [], None
    for ln in lines:
        if is_head(ln):
            cur = (ln, [])
            blocks.append(cur)
        elif cur is not None:
            cur[1].append(ln)
    return blocks


def parse_dense(lines: List[str]) -> dict:
    m = re.match(r"\s*tensor of shape \((.*)\) with order F$", lines[0])
    if not m:
        raise ValueError("dense header")
    shape = _ints(m.group(1))
    slices = []
    for head, body in _split_blocks(lines[1:], lambda s: re.match(r"\s*data\[.*\] =\s*$", s)):
        inside = re.match(r"\s*data\[(.*)\] =", head).group(1)
        parts = [p.strip() for p in inside.split(",")]
        idx = [int(p) for p in parts if p != ":"]
        if [p for p in parts[:min(2, len(parts))] if p != ":"]:
            raise ValueError("leading subscripts must be ':'")
        rows = _matrix(body)
        if len(shape) == 1:
            rows = [[x for r in rows for x in r]]
        slices.append({"idx": idx, "rows": rows})
    return {"kind": "dense", "shape": shape, "slices": slices}


def parse_entries(lines: List[str]):
    out = []
    for ln in lines:
        if not ln.strip():
            continue
        m = re.match(r"\s*\[(.*)\] = (" + NUM + r")\s*$", ln)
        if not m:
            raise ValueError(f"entry line {ln!r}")
        out.append({"sub": _ints(m.group(1)), "val": _num(m.group(2))})
    return out


def unindent(lines: List[str]) -> List[str]:
    return [ln[1:] if ln.startswith("\t") else ln for ln in lines]


def parse(text: str) -> dict:
    lines = text.split("\n")
    h = lines[0]
    if h.startswith("tensor of shape"):
        return parse_dense(lines)
    m = re.match(r"empty sparse tensor of shape \((.*)\) with order F$", h)
    if m:
        if any(ln.strip() for ln in lines[1:]):
            raise ValueError("text after the header of an empty sparse tensor")
        return {"kind": "sparse", "shape": _ints(m.group(1)), "nnz": 0, "entries": []}
    m = re.match(r"sparse tensor of shape \((.*)\) with (\d+) nonzeros and order F$", h)
    if m:
        return {"kind": "sparse", "shape": _ints(m.group(1)), "nnz": int(m.group(2)), "entries": parse_entries(lines[1:])}
    m = re.match(r"ktensor of shape \((.*)\) with order F$", h)
    if m:
        w = [_num(t) for t in re.findall(NUM, lines[1].split("=", 1)[1])]
        U = [_matrix(body) for _, body in _split_blocks(lines[2:], lambda s: s.startswith("factor_matrices["))]
        return {"kind": "ktensor", "shape": _ints(m.group(1)), "w": w, "U": U}
    m = re.match(r"Tensor of shape: \((.*)\)$", h)
    if m:
        body = unindent(lines[1:])
        if not body[0].startswith("Core is a"):
            raise ValueError("ttensor core header")
        k = next(i for i, ln in enumerate(body) if ln.startswith("U["))
        core_lines = unindent(body[1:k])
        if core_lines[0].startswith("sparse") or core_lines[0].startswith("empty"):
            sp = parse("\n".join(core_lines))
            dense = np.zeros(sp["shape"])
            for e in sp["entries"]:
                dense[tuple(e["sub"])] = e["val"]
            import bind
            core_doc = parse_dense(repr(bind.ttb.tensor(dense)).split("\n"))
        else:
            core_doc = parse_dense(core_lines)
        U = [_matrix(b) for _, b in _split_blocks(body[k:], lambda s: s.startswith("U["))]
        return {"kind": "ttensor", "shape": _ints(m.group(1)), "core": core_doc, "U": U}
    m = re.match(r"matrix corresponding to a tensor of shape \((.*)\) with order F$", h)
    if m:
        rd = _ints(lines[1].split("]")[0])
        cd = _ints(lines[2].split("]")[0])
        return {"kind": "tenmat", "tshape": _ints(m.group(1)), "rdims": rd, "cdims": cd, "m": _matrix(lines[4:])}
    m = re.match(r"sptenmat corresponding to a sptensor of shape \((.*)\) with (\d+) nonzeros and order F$", h)
    if m:
        rd = _ints(lines[1].split("]")[0])
        cd = _ints(lines[2].split("]")[0])
        return {"kind": "sptenmat", "tshape": _ints(m.group(1)), "nnz": int(m.group(2)), "rdims": rd, "cdims": cd,
                "entries": parse_entries(lines[3:])}
    m = re.match(r"sumtensor of shape \((.*)\) with (\d+) parts:$", h)
    if m:
        parts = []
        for _, body in _split_blocks(lines[1:], lambda s: re.match(r"Part \d+: $", s)):
            parts.append(parse("\n".join(unindent(body))))
        if len(parts) != int(m.group(2)):
            raise ValueError("number of parts")
        return {"kind": "sum", "shape": _ints(m.group(1)), "parts": parts}
    raise ValueError(f"unknown header {h!r}")


def event(b: dict) -> dict:
    import c01
    o = c01.make(b["obj"], b["pres"])
    evs = []
    for how in ("repr", "str"):
        try:
            text = repr(o) if how == "repr" else str(o)
            doc = parse(text.rstrip("\n"))
        except Exception as e:
            doc = {"kind": "unparsed", "msg": f"{type(e).__name__}: {e}"[:160]}
        evs.append({"op": how, "args": {"obj": b["obj"]}, "ret": doc})
    return {"init": {}, "b": {"obj": b["obj"], "pres": b["pres"]}, "ev": evs, "expected": b["doc"]}


def replay(b: dict) -> dict:
    tr = event(b)
    divs = [{"site": b["obj"]["kind"], "why": "differs", "expected": b["doc"], "detail": json.dumps(e["ret"])[:200],
             "trace_index": 0, "event": i + 1} for i, e in enumerate(tr["ev"]) if e["ret"] != b["doc"]]
    tr.pop("expected")
    return {"traces": [tr], "divs": divs, "events": len(tr["ev"]), "nontrivial": [json.dumps(b["obj"], sort_keys=True)]}


def record(stim: dict) -> dict:
    b = dict(stim["b"])
    b["doc"] = None
    tr = event(b)
    tr.pop("expected")
    return tr


CLS = {"dense": "tensor", "sparse": "sptensor", "ktensor": "ktensor", "ttensor": "ttensor", "sum": "sumtensor",
       "tenmat": "tenmat", "sptenmat": "sptenmat"}


def main(tier: str) -> int:
    rp = core.replay_arg()
    if rp:
        return core.replay_file(rp, PROP, "x01", "Printing_Trace")
    out = Outcome(PROP, tier)
    shapes = [(3,), (1,), (2, 3), (1, 1), (2, 3, 2), (2, 1, 2, 2)] if tier == "quick" else \
        [(3,), (1,), (2, 3), (3, 1), (1, 1), (2, 3, 2), (1, 2, 3), (3, 2, 2), (2, 1, 2, 2), (2, 2, 2, 2), (2, 2, 1, 2, 2)]
    jobs = [dict(module="Printing_Gen", cfg_text="SPECIFICATION PSpec\nCONSTANTS\n D = 0\n AllOrders = FALSE\n Rich = %s\n KOnly = FALSE\n"
                 "INVARIANT FaithfulLaw\n" % ("FALSE" if len(s) >= 4 else "TRUE"), defs={"ShapeC": tla.tla(list(s))}, timeout=2400)
            for s in shapes]
    behaviours = []
    for r in tla.run_many(jobs):
        out.add_tlc(r)
        behaviours += r.json
    out.notes["objects"] = len(behaviours)
    core.pipeline(out, "x01", behaviours, "Printing_Trace", lock_mode="superset", chunk=800,
                  tags_of=lambda tr, k: (["sptenmat_without_entries"] if tr["ev"][k - 1]["args"]["obj"]["kind"] == "sptenmat"
                                         and not tr["ev"][k - 1]["args"]["obj"]["subs"] else []),
                  site_of=lambda tr, k: CLS.get(tr["ev"][k - 1]["args"]["obj"]["kind"], "?") + ".__" + tr["ev"][k - 1]["op"] + "__")
    out.rule = ("every initial object of Convert_Gen for the shapes in scope (dense / sparse with all sparsity-pattern classes and "
                "stored orders, Kruskal, Tucker with dense and sparse core, sums, tenmat / sptenmat for every ordered mode "
                "partition): repr() and str() parsed into a document and compared by TLC with the document the object must print")
    out.exhaustive = True
    out.trusted = ["text parser in harness/x01.py", "alpha/gamma", "TLC"]
    out.assumptions = ["number formatting is numpy's and is not modelled (values are integers and compared after parsing)"]
    return core.finish(out)


if __name__ == "__main__":
    core.main_wrap(main)
