"""Shared machinery of all checks: sharded generation, parallel replay, trace validation,
known-finding adjudication, evidence and exit codes."""
from __future__ import annotations

import json
import multiprocessing as mp
import os
import sys
import time
import traceback
from dataclasses import dataclass, field
from pathlib import Path
from typing import Any, Callable, Dict, List, Optional, Sequence

HERE = Path(__file__).resolve().parent
VERIF = HERE.parent
sys.path.insert(0, str(HERE))

import tla  # noqa: E402
from tla import MachineryError  # noqa: E402

# development aid (tools/try_mutant2.sh): VERIF_OUT redirects evidence / replays so that a scratch copy of the
# repository can be checked while the registered commands run against /repo; unset in every registered command
_OUT = Path(os.environ.get("VERIF_OUT", str(VERIF)))
EVID = _OUT / "evidence"
REPLAYS = _OUT / "replays"


def seed() -> int:
    try:
        return int(os.environ.get("VERIF_SEED", "0"))
    except ValueError:
        return 0


# ---------------------------------------------------------------------------
# known findings

def load_known(prop: str) -> List[dict]:
    p = VERIF / "known_findings.json"
    if not p.exists():
        return []
    data = json.loads(p.read_text())
    return [e for e in data.get("findings", []) if e.get("property") == prop
            and e.get("status") == "open"]


@dataclass
class Divergence:
    prop: str
    site: str                 # e.g. "sptensor.__mul__(sptensor)"
    why: str                  # failing clause
    stimulus: dict            # the behaviour prefix / event that failed (replayable)
    tags: List[str] = field(default_factory=list)   # stimulus predicates that hold
    detail: str = ""
    source: str = "lockstep"  # lockstep | tlc


def match_known(d: Divergence, known: List[dict]) -> Optional[dict]:
    for e in known:
        if e.get("site_prefix"):
            if not d.site.startswith(e["site_prefix"]):
                continue
        elif e.get("site") != d.site:
            continue
        if e.get("why_prefix") and not d.why.startswith(e["why_prefix"]):
            continue
        if e.get("why_in") and d.why not in e["why_in"]:
            continue
        when = e.get("when")
        if when in (None, "", "always") or when in d.tags:
            return e
    return None


# ---------------------------------------------------------------------------
# outcome of a check run

@dataclass
class Outcome:
    prop: str
    tier: str
    t0: float = field(default_factory=time.time)
    states: int = 0
    transitions: int = 0
    traces_validated: int = 0
    evaluations: int = 0
    distinct_nontrivial: int = 0
    samples: List[Any] = field(default_factory=list)
    divergences: List[Divergence] = field(default_factory=list)
    notes: Dict[str, Any] = field(default_factory=dict)
    assumptions: List[str] = field(default_factory=list)
    trusted: List[str] = field(default_factory=list)
    rule: str = ""
    exhaustive: bool = False
    machinery_errors: List[str] = field(default_factory=list)

    def add_tlc(self, r) -> None:
        self.states += int(getattr(r, "distinct", 0))
        self.transitions += int(getattr(r, "generated", 0))



def _trim_sample(sample, budget: int = 40000):
    """a recorded trace kept in the evidence file as an illustration: at most `budget` characters of compact JSON (the
    complete traces are what TLC validated; a long one is cut after the events that fit)"""
    js = json.dumps(sample)
    if len(js) <= budget:
        return sample
    if isinstance(sample, dict) and isinstance(sample.get("ev"), list):
        out = {k: v for k, v in sample.items() if k != "ev" and len(json.dumps(v)) <= budget // 4}
        evs, used = [], 0
        for e in sample["ev"]:
            n = len(json.dumps(e))
            if used + n > budget:
                break
            evs.append(e)
            used += n
        out["ev"] = evs
        out["events_not_shown"] = len(sample["ev"]) - len(evs)
        return out
    return {"not_shown": True, "characters": len(js)}


def finish(out: Outcome, *, level: str = "model_checking") -> int:
    """Adjudicate divergences against known findings, write replays + evidence, print verdicts."""
    known = load_known(out.prop)
    # extension modules (ids X..): specification coverage beyond the 20 listed properties.  They are not claimed in
    # MANIFEST.json; their evidence goes to evidence_ext/ and a divergence is printed as EXT-VIOLATION.
    is_ext = out.prop.startswith("X")
    evid_dir = (_OUT / "evidence_ext") if is_ext else EVID
    REPLAYS.mkdir(exist_ok=True)
    evid_dir.mkdir(exist_ok=True)
    for old in REPLAYS.glob(f"{out.prop}_{out.tier}_*.json"):
        old.unlink()
    unknown: List[Divergence] = []
    known_hits: Dict[str, int] = {}
    known_entries: Dict[str, dict] = {}
    for d in out.divergences:
        e = match_known(d, known)
        if e is not None:
            known_hits[e["id"]] = known_hits.get(e["id"], 0) + 1
            known_entries[e["id"]] = e
        else:
            unknown.append(d)
    for kid, n in sorted(known_hits.items()):
        e = known_entries[kid]
        print(f"KNOWN-FINDING: {'module' if is_ext else 'property'}={out.prop} {kid} {e.get('what', '')} [{n} case(s) this run]")
    stale = [e["id"] for e in known if e["id"] not in known_hits]
    # group unknown divergences by (site, why) so that the output stays readable
    groups: Dict[str, List[Divergence]] = {}
    for d in unknown:
        groups.setdefault(f"{d.site}|{d.why}", []).append(d)
    vio_lines = []
    for gi, (key, ds) in enumerate(sorted(groups.items())):
        d = ds[0]
        safe = "".join(c if c.isalnum() else "_" for c in key)[:80]
        path = REPLAYS / f"{out.prop}_{out.tier}_{gi:02d}_{safe}.json"
        path.write_text(json.dumps({"property": out.prop, "site": d.site, "why": d.why,
                                    "tags": d.tags, "detail": d.detail, "source": d.source,
                                    "count_in_group": len(ds), "stimulus": d.stimulus},
                                   indent=1))
        vio_lines.append(f"{'EXT-VIOLATION module' if is_ext else 'VIOLATION property'}={out.prop} replay={path}  "
                         f"# {d.site}: {d.why} ({len(ds)} case(s)) {d.detail[:160]}")
    cov = {
        "states": max(out.states, 0),
        "transitions": max(out.transitions, 0),
        "traces_validated_against_impl": out.traces_validated,
        "samples": [_trim_sample(x) for x in out.samples[:6]] if out.samples else [],
        "evaluations": out.evaluations,
        "distinct_nontrivial": out.distinct_nontrivial,
        "rule": out.rule,
        "exhaustive": out.exhaustive,
        "trusted_base": out.trusted,
        "known_findings_hit": known_hits,
        "known_findings_stale": stale,
        "violation_groups": [k for k in sorted(groups)],
    }
    cov.update(out.notes)
    ev = {
        "property_id": out.prop,
        "tier": out.tier,
        "seed": seed(),
        "level": level,
        "coverage": cov,
        "assumptions": out.assumptions,
        "wall_s": round(time.time() - out.t0, 2),
        "violations": len(unknown),
    }
    (evid_dir / f"{out.prop}.json").write_text(json.dumps(ev, indent=1))
    for ln in vio_lines:
        print(ln)
    if out.machinery_errors:
        for m in out.machinery_errors:
            print("MACHINERY-ERROR:", m, file=sys.stderr)
        return 2
    print(f"{out.prop} [{out.tier}] states={out.states} transitions={out.transitions} "
          f"traces={out.traces_validated} evaluations={out.evaluations} "
          f"known={sum(known_hits.values())} violations={len(unknown)} "
          f"wall={ev['wall_s']}s")
    return 1 if unknown else 0


# ---------------------------------------------------------------------------
# parallel map over behaviours

def _worker(args):
    fn_mod, fn_name, chunk = args
    import importlib
    mod = importlib.import_module(fn_mod)
    fn = getattr(mod, fn_name)
    import hashlib
    import bind
    out = []
    for b in chunk:
        try:
            # the memory layout of the arrays handed to pyttb is a presentation (bind.py): rotate it per behaviour;
            # it is stored in the recorded traces so that a replay reproduces it
            lay = (os.environ["VERIF_LAYOUT"] if os.environ.get("VERIF_LAYOUT") in bind.LAYOUTS else      # development aid
                   b.get("layout") if isinstance(b, dict) and b.get("layout") in bind.LAYOUTS else
                   bind.LAYOUTS[hashlib.md5(json.dumps(b, sort_keys=True).encode()).digest()[0] % len(bind.LAYOUTS)])
            dg = hashlib.md5(json.dumps(b, sort_keys=True).encode()).digest()
            dt = (os.environ["VERIF_DTYPE"] if os.environ.get("VERIF_DTYPE") in bind.DTYPES else      # development aid
                  b.get("dtype") if isinstance(b, dict) and b.get("dtype") in bind.DTYPES else
                  ("float", "float", "float", "int", "int32", "int16")[dg[1] % 6])
            bind.set_layout(lay)
            bind.set_dtype(dt)
            r = fn(b)
            if isinstance(r, dict):
                for tr in r.get("traces", []):
                    if isinstance(tr, dict):
                        tr["layout"] = lay
                        tr["dtype"] = dt
            out.append(r)
        except Exception:  # harness bug: surface it, do not call it a violation
            out.append({"machinery_error": traceback.format_exc(), "behaviour": b})
        finally:
            bind.set_layout("default")
            bind.set_dtype("float")
    return out


def pmap(fn_mod: str, fn_name: str, items: Sequence[Any], procs: int = 16,
         chunk: int = 200) -> List[Any]:
    """Apply module-level function fn_mod.fn_name to every item in worker processes."""
    if not items:
        return []
    chunks = [(fn_mod, fn_name, items[i:i + chunk]) for i in range(0, len(items), chunk)]
    procs = int(os.environ.get("VERIF_PROCS", procs))      # development aid (coverage measurement runs in-process)
    if procs <= 1 or len(items) < 50:
        res = [_worker(c) for c in chunks]
    else:
        ctx = mp.get_context("fork")
        with ctx.Pool(min(procs, len(chunks))) as pool:
            res = pool.map(_worker, chunks)
    return [x for r in res for x in r]


def pipeline(out: Outcome, mod_name: str, behaviours: List[dict], trace_module: str, *,
             site_of: Callable[[dict, int], str],
             tags_of: Optional[Callable[[dict, int], List[str]]] = None,
             trace_constants: str = "", chunk: int = 1500, lock_mode: str = "exact") -> None:
    """(G) replay behaviours through <mod_name>.replay, (V) validate the recorded traces with TLC,
    cross-check the two verdicts and turn TLC's rejections into divergences."""
    import hashlib
    res = pmap(mod_name, "replay", behaviours)
    traces: List[dict] = []
    lock: Dict[tuple, dict] = {}
    nontrivial = set()
    for b, r in zip(behaviours, res):
        if "machinery_error" in r:
            out.machinery_errors.append(r["machinery_error"][-1500:])
            continue
        base = len(traces)
        traces += r["traces"]
        out.evaluations += r["events"]
        for d in r["divs"]:
            lock[(base + d["trace_index"], d["event"])] = d
        for k in r.get("nontrivial", []):
            nontrivial.add(hashlib.md5(k.encode()).digest())
    out.distinct_nontrivial += len(nontrivial)
    if out.machinery_errors:
        return
    tv = tla.validate_traces(trace_module, traces, constants=trace_constants, chunk=chunk)
    out.states += tv.distinct
    out.transitions += tv.generated
    out.traces_validated += tv.accepted
    rejected = {(r["tid"], r["event"]): r for r in tv.rejected}
    # lock_mode "exact": the python lock-step comparison implements the same clauses, verdicts
    # must coincide.  "superset": lock-step only flags "differs from the canonical result", which
    # TLC may still accept (admissible non-canonical result); TLC's rejections must be among them.
    if (set(rejected) != set(lock)) if lock_mode == "exact" else (not set(rejected) <= set(lock)):
        only_t = sorted(set(rejected) - set(lock))[:3]
        only_l = sorted(set(lock) - set(rejected))[:3]
        out.machinery_errors.append(
            f"(G) lock-step and (V) TLC verdicts disagree: only TLC "
            f"{[(k, rejected[k]['why'], json.dumps(traces[k[0]])[:600]) for k in only_t]}; only lock-step "
            f"{[(k, lock[k]['why'], json.dumps(traces[k[0]])[:600]) for k in only_l]}")
    for key, r in sorted(rejected.items()):
        d = lock.get(key) or {}
        tr = traces[key[0]]
        stim = dict(tr)
        stim["ev"] = tr["ev"][:key[1]]
        if "expected" in d:
            stim["expected"] = d["expected"]
        out.divergences.append(Divergence(out.prop, site_of(tr, key[1]), r["why"], stim,
                                          tags=(tags_of(tr, key[1]) if tags_of else []),
                                          detail=d.get("detail", ""), source="tlc"))
    if not out.samples:
        nz = [t for t in traces if t["ev"]]
        out.samples = nz[:: max(1, len(nz) // 4)][:4]


def replay_file(path: str, prop: str, mod_name: str, trace_module: str,
                trace_constants: str = "") -> int:
    """./check <id> --replay <file>: re-execute the stored stimulus on the current tree and let
    TLC decide it again."""
    import importlib
    data = json.loads(Path(path).read_text())
    stim = data["stimulus"]
    mod = importlib.import_module(mod_name)
    import bind
    if stim.get("layout") in bind.LAYOUTS:
        bind.set_layout(stim["layout"])
    if stim.get("dtype") in bind.DTYPES:
        bind.set_dtype(stim["dtype"])
    tr = mod.record(stim)
    tv = tla.validate_traces(trace_module, [tr], constants=trace_constants)
    if tv.rejected:
        r = tv.rejected[0]
        print(f"{'EXT-VIOLATION module' if prop.startswith('X') else 'VIOLATION property'}={prop} replay={path}  # event {r['event']}: {r['why']}")
        return 1
    print(f"{prop}: replay {path} accepted by the specification ({len(tr['ev'])} event(s))")
    return 0


def replay_arg() -> Optional[str]:
    for i, a in enumerate(sys.argv):
        if a == "--replay" and i + 1 < len(sys.argv):
            return sys.argv[i + 1]
    return None


def main_wrap(fn: Callable[[str], int]) -> None:
    """Entry wrapper: exit 2 on machinery failure, never a VIOLATION line for it."""
    tier = os.environ.get("VERIF_TIER", "quick")
    for i, a in enumerate(sys.argv):
        if a == "--tier" and i + 1 < len(sys.argv):
            tier = sys.argv[i + 1]
    try:
        rc = fn(tier)
    except MachineryError as e:
        print("MACHINERY-ERROR:", str(e)[:4000], file=sys.stderr)
        rc = 2
    except Exception:
        traceback.print_exc()
        rc = 2
    sys.exit(rc)
