"""C11 — CP-APR returns a non-negative model and a truthful objective (spec: CpApr*.tla)."""
from __future__ import annotations

import contextlib
import io
import json
import warnings
from typing import List

import numpy as np

import core
import tla
from core import Outcome

PROP = "C11"


def e9(x):
    x = float(x)
    return 2000000000 if x != x else int(min(abs(x) * 1e9, 2e9))


def reldev(a: float, b: float) -> float:
    """relative deviation of two extended reals; equal infinities agree"""
    if a == b:
        return 0.0
    if a != a or b != b or abs(a) == float("inf") or abs(b) == float("inf"):
        return float("nan")
    return abs(a - b) / max(1.0, abs(b))


def worse(start: float, end: float) -> float:
    if end >= start:
        return 0.0
    if end != end or start != start or abs(end) == float("inf"):
        return float("nan")
    return (start - end) / max(1.0, abs(start))


def loglik(Xd: np.ndarray, F: np.ndarray) -> float:
    """Poisson log-likelihood (up to the data-only term): sum_{x>0} x log m - sum m"""
    nz = Xd > 0
    with np.errstate(all="ignore"):
        return float(np.sum(Xd[nz] * np.log(F[nz])) - np.sum(F))


def make(c: dict):
    import bind
    ttb = bind.ttb
    rng = np.random.RandomState(c["seed"])
    shape = tuple(c["shape"])
    R = c["rank"]
    U = [rng.rand(s, R) for s in shape]
    lam = rng.rand(R) * 20 + 5
    Xd = rng.poisson(ttb.ktensor(U, lam).full().data).astype(float)
    if c["empty_slice"]:
        idx = [slice(None)] * len(shape)
        idx[0] = shape[0] - 1
        Xd[tuple(idx)] = 0
        Xd[(0,) * (len(shape) - 1)] = 0          # an all-zero fibre
    if c.get("comp_zero"):
        Xd[(0,) * len(shape)] = max(Xd[(0,) * len(shape)], 3.0)
    if c.get("all_zero"):
        Xd[...] = 0
    elif np.count_nonzero(Xd) < 2:            # the all-zero tensor is exercised by explicit witness runs only
        Xd.reshape(-1)[[1, -1]] = [1.0, 2.0]
    # counts are naturally integers (numpy.random.poisson returns int64): the element type is a presentation
    X = ttb.tensor(Xd.astype(np.int64)) if c.get("dtype") == "int" else ttb.tensor(Xd)
    if c["sparse"]:
        X = X.to_sptensor()
    r2 = np.random.RandomState(c["seed"] + 11)
    init = ttb.ktensor([r2.rand(s, R) + 0.1 for s in shape], np.ones(R))
    if c.get("warm"):
        # a guess close to the generating model, with its (non-uniform) weights: hard to improve on in one inner step
        init = ttb.ktensor([u * (1 + 0.01 * r2.rand(*u.shape)) for u in U], lam * (1 + 0.01 * r2.rand(R)))
    if c.get("zero_weight") and R >= 2:
        # a non-negative guess may carry a weight that is exactly zero
        init = ttb.ktensor([f.copy() for f in init.factor_matrices], np.array([2.0, 1.0, 0.0, 3.0][:R][::-1].copy()))
    if c["zero_row"]:
        init.factor_matrices[1][0, :] = 0.0
    if c.get("comp_zero") and R >= 2:
        # complementary zeros in two factor matrices (a thresholded / indicator-like start): no row is all zero, yet the
        # model vanishes on the fibre (0, 0, :), where the data hold a count
        init.factor_matrices[0][0, 0] = 0.0
        init.factor_matrices[1][0, 1:] = 0.0
    return X, Xd, init


def run(c: dict, maxiters: int, printitn: int):
    import bind
    ttb = bind.ttb
    X, Xd, init = make(c)
    kw = dict(algorithm=c["alg"], stoptol=c["stoptol"], maxiters=maxiters, init=init, maxinneriters=c["maxinner"],
              printitn=printitn, printinneritn=0, stoptime=(0.0 if c.get("stoptime0") else 1e9))
    if c["alg"] != "mu":
        kw["precompinds"] = bool(c["precompinds"])
    if c["alg"] == "pdnr":
        kw["inexact"] = bool(c["inexact"])
    if c["alg"] == "pqnr":
        kw["lbfgsMem"] = c["lbfgs"]
    with contextlib.redirect_stdout(io.StringIO()), warnings.catch_warnings(), np.errstate(all="ignore"):
        warnings.simplefilter("ignore")
        M, Minit, out = ttb.cp_apr(X, c["rank"], **kw)
    return X, Xd, init, M, Minit, out


def run_config(c: dict) -> dict:
    import c05
    tr = {"init": {}, "cfg": c, "ev": []}
    shape = tuple(c["shape"])
    rows = sum(shape)
    a = {"alg": c["alg"], "maxiters": c["maxiters"], "stoptol_zero": c["stoptol"] == 0.0,
         "inner_bound": (len(shape) * c["maxinner"]) if c["alg"] == "mu" else rows * c["maxinner"]}
    try:
        X, Xd, init, _, _, _ = run(c, 0, 0) if False else (None, None, None, None, None, None)
        X, Xd, init = make(c)
        sx, si = c05.snapshot(X), c05.snapshot(init)
        tr["facts"] = {"dense_zero_slice": bool((not c["sparse"]) and any(
            not np.any(np.moveaxis(Xd, n, 0)[j]) for n in range(Xd.ndim) for j in range(Xd.shape[n])))}
        start_ll = loglik(Xd, init.full().data)
        X2, Xd2, init2, M, Minit, out = run(c, c["maxiters"], c["printitn"])
        F = M.full().data
        ll = loglik(Xd, F)
        kkt = np.asarray(out["kktViolations"]).reshape(-1)
        inner = np.asarray(out.get("nInnerIters", [0])).reshape(-1)
        obs = {"st": "ok",
               "rank_and_shape_ok": bool(M.ncomponents == c["rank"] and tuple(M.shape) == shape),
               "nonneg": bool(np.all(M.weights >= 0) and all(np.all(f >= 0) for f in M.factor_matrices)),
               "obj_dev": e9(reldev(float(out["obj"]), ll)),
               "kkt_len": int(len(kkt)), "outer_iters": int(len(inner)) if "nInnerIters" in out else int(len(kkt)),
               "kkt_nonneg": bool(np.all(kkt >= 0)),
               "inner_total": int(np.sum(inner)),
               "worse_than_start9": e9(worse(start_ll, ll)),
               "data_untouched": True, "init_untouched": True}
        # untouched: the objects handed to the call in run() are rebuilt from the same seed: compare snapshots
        obs["data_untouched"] = c05.snapshot(X2) == sx
        obs["init_untouched"] = c05.snapshot(init2) == si
        tr["ev"].append({"op": "return", "args": a, "ret": obs})
        for k in range(1, c["maxiters"] + 1):
            _, _, _, _, _, ok = run(dict(c, stoptol=max(c["stoptol"], 1e-8)), k, 0)
            kk = np.asarray(ok["kktViolations"]).reshape(-1)
            tr["ev"].append({"op": "truncated", "args": {"k": k, "kkt": [int(round(min(v, 2000.0) * 1e6)) for v in kk]}})
    except Exception as e:
        tr["ev"].append({"op": "return", "args": a, "ret": {"st": "raised:" + type(e).__name__, "msg": str(e)[:150]}})
    return tr


def record(stim: dict) -> dict:
    return run_config(stim["cfg"])


def replay(b: dict) -> dict:
    tr = run_config(b)
    return {"traces": [tr], "divs": [{"site": f"cp_apr({b['alg']})", "why": "candidate", "expected": None, "detail": "",
                                      "trace_index": 0, "event": i + 1} for i in range(len(tr["ev"]))],
            "events": len(tr["ev"]), "nontrivial": [json.dumps(b, sort_keys=True)]}


def tags_of(tr, k):
    ev = tr["ev"][k - 1]
    tags = []
    if ev.get("ret", {}).get("st", "").startswith("raised:IndexError") and tr["cfg"].get("all_zero") and tr["cfg"]["sparse"]:
        tags.append("sparse_all_zero_data")
    if ev.get("ret", {}).get("st", "").startswith("raised") and "first iterate is bad" in ev["ret"].get("msg", ""):
        if tr.get("facts", {}).get("dense_zero_slice"):
            tags.append("dense_zero_slice_first_iterate_bad")
        elif ev["args"].get("stoptol_zero"):
            tags.append("stoptol_zero_first_iterate_bad")
        elif tr["cfg"].get("comp_zero"):
            tags.append("comp_zero_guess_first_iterate_bad")
    return tags


def main(tier: str) -> int:
    rp = core.replay_arg()
    if rp:
        data = json.loads(open(rp).read())
        tr = run_config(data["stimulus"]["cfg"])
        tv = tla.validate_traces("CpApr_Trace", [tr])
        if tv.rejected:
            print(f"VIOLATION property={PROP} replay={rp}  # event {tv.rejected[0]['event']}: {tv.rejected[0]['why']}")
            return 1
        print(f"{PROP}: replay accepted")
        return 0
    out = Outcome(PROP, tier)
    for (N, mi, mn) in ((2, 3, 2), (3, 3, 2), (3, 2, 1)):
        r = tla.run_tlc("CpApr_MC", f"SPECIFICATION MCSpec\nCONSTANTS\n N = {N}\n MaxIters = {mi}\n MaxInner = {mn}\n"
                        "INVARIANT MassDiscipline\nINVARIANT Counting\nINVARIANT Termination\n", workers=2)
        out.add_tlc(r)
    runs = []
    i = 0
    sd = core.seed()
    for alg in ("mu", "pdnr", "pqnr"):
        for shape in ([4, 3, 3], [3, 4], [3, 2, 2, 3]):
            for sparse in (False, True):
                for maxiters in (1, 2, 3):
                    for maxinner in (1, 2, 10):
                        if tier == "quick" and (i % 3) == 1:
                            i += 1
                            continue
                        # options are drawn independently of each other (fixed pseudo-random stream per run)
                        import random
                        rr = random.Random(7919 * sd + i)
                        runs.append({"alg": alg, "shape": shape, "sparse": sparse, "maxiters": maxiters, "maxinner": maxinner,
                                     "rank": rr.choice([1, 2, 2, 3]), "seed": sd + rr.randrange(6), "stoptol": rr.choice([1e-4, 1e-4, 1e-2, 0.0]),
                                     "printitn": rr.choice([0, 1, 2]), "precompinds": rr.choice([True, False]),
                                     "inexact": rr.choice([True, False]), "lbfgs": rr.choice([1, 3, 5]),
                                     "empty_slice": rr.random() < 0.35, "zero_row": rr.random() < 0.25,
                                     "warm": rr.random() < 0.3, "stoptime0": rr.random() < 0.15,
                                     "dtype": rr.choice(["float", "int"])})
                        i += 1
    # warm, weighted starts with the tightest limits: one inner step from a guess that is already close to the optimum
    for alg in ("mu", "pdnr", "pqnr"):
        for sp in (False, True):
            for mi in (1, 2):
                runs.append({"alg": alg, "shape": [4, 3, 3], "sparse": sp, "maxiters": mi, "maxinner": mi, "rank": 3, "seed": sd + mi,
                             "stoptol": 1e-4, "printitn": 0, "precompinds": True, "inexact": bool(mi % 2), "lbfgs": 3,
                             "empty_slice": False, "zero_row": False, "warm": True, "dtype": ("int" if mi == 1 else "float")})
    # a zero row of the guess that survives to the end (one outer iteration: the inadmissible-zero repair has not run yet):
    # the model is 0 where counts were observed and the objective is -inf, for every holder of the data
    for alg in ("mu", "pdnr", "pqnr"):
        for sp in (False, True):
            runs.append({"alg": alg, "shape": [3, 4], "sparse": sp, "maxiters": 1, "maxinner": 2, "rank": 2, "seed": sd + 3,
                         "stoptol": 1e-4, "printitn": 0, "precompinds": True, "inexact": False, "lbfgs": 3,
                         "empty_slice": False, "zero_row": True})
    for alg in ("mu", "pdnr", "pqnr"):
        for sp in (False, True):
            runs.append({"alg": alg, "shape": [4, 3, 3], "sparse": sp, "maxiters": 2, "maxinner": 3, "rank": 3, "seed": sd + 4,
                         "stoptol": 1e-4, "printitn": 0, "precompinds": True, "inexact": True, "lbfgs": 3,
                         "empty_slice": False, "zero_row": False, "zero_weight": True})
    for alg in ("mu", "pdnr", "pqnr"):
        for sp in (False, True):
            for k in range(3):
                runs.append({"alg": alg, "shape": [4, 3, 3], "sparse": sp, "maxiters": 2, "maxinner": 3, "rank": 2, "seed": sd + 20 + k,
                             "stoptol": 1e-4, "printitn": 0, "precompinds": bool(k % 2), "inexact": True, "lbfgs": 3,
                             "empty_slice": False, "zero_row": False, "comp_zero": True})
    # witnesses of K-C11-sparse-all-zero-data (dense all-zero data is answered by mu and pdnr)
    for alg in ("mu", "pdnr", "pqnr"):
        for sp in (False, True):
            if alg == "pqnr" and not sp:
                continue        # dense all-zero data and pqnr: the dense-zero-slice finding
            runs.append({"alg": alg, "shape": [3, 4], "sparse": sp, "maxiters": 2, "maxinner": 2, "rank": 1, "seed": 1, "stoptol": 1e-4,
                         "printitn": 0, "precompinds": True, "inexact": True, "lbfgs": 3, "empty_slice": False, "zero_row": False,
                         "all_zero": True})
    # witness of K-C11-pqnr-stoptol-zero
    runs.append({"alg": "pqnr", "shape": [4, 3, 3], "sparse": True, "maxiters": 2, "maxinner": 10, "rank": 1, "seed": 2,
                 "stoptol": 0.0, "printitn": 0, "precompinds": False, "inexact": True, "lbfgs": 1, "empty_slice": False,
                 "zero_row": False})
    out.notes["runs"] = len(runs)
    core.pipeline(out, "c11", runs, "CpApr_Trace", lock_mode="superset", chunk=150,
                  site_of=lambda tr, k: f"cp_apr({tr['cfg']['alg']})", tags_of=tags_of)
    out.rule = ("control skeleton (mass discipline, counting identities, termination) model-checked for N <= 3; runs: three "
                "algorithms x dense / sparse Poisson count data (with empty slices and all-zero fibres) x orders 2-4 x "
                "iteration limits 1-3 x inner limits {1,2,10} x ranks 1-2 x option sets (tolerance, precomputed indices, "
                "inexact, L-BFGS memory, printing), starting guesses with all-zero rows; truncated runs for the prefix "
                "property")
    out.exhaustive = False
    out.trusted = ["numpy Poisson log-likelihood oracle in harness/c11.py", "TLC"]
    out.assumptions = ["objective compared with relative tolerance 1e-6; the mass discipline inside a run is checked on the "
                       "specification only (not observable without hooks)"]
    return core.finish(out)


if __name__ == "__main__":
    core.main_wrap(main)
