"""C17 — index arithmetic, mode selection, row-set helpers, Khatri-Rao (spec: Helpers*.tla)."""
from __future__ import annotations

import itertools
import json
from typing import List

import numpy as np

import core
import tla
from core import Outcome

PROP = "C17"
LAWS = ["CanonicalOk", "Emitted", "Bijection", "SetAlgebra", "DimsLaw", "KrLaw"]


def cfg(family: str, maxn: int) -> str:
    return ("SPECIFICATION Spec\nCONSTANTS\n"
            f" Family = \"{family}\"\n MaxN = {maxn}\n" + "".join(f"INVARIANT {x}\n" for x in LAWS))


def shapes(tier: str) -> List[tuple]:
    all3 = [s for n in (1, 2, 3) for s in itertools.product((1, 2, 3), repeat=n)]
    if tier == "thorough":
        return all3 + [s for s in itertools.product((1, 2, 3), repeat=4)] + [(2, 2, 2, 2, 2), (4, 3, 5)]
    return all3 + [(2, 2, 2, 2), (2, 1, 3, 2), (3, 2, 2, 3), (5, 6, 5)]


def call(ev: dict) -> dict:
    """helpers are pure functions: the argument arrays are compared with copies taken before the call"""
    watch = []
    out = _call(ev, watch)
    if any(not np.array_equal(a, c) for a, c in watch):
        return {"st": "operand-changed"}
    return out


def _call(ev: dict, watch: list) -> dict:
    """Execute one helper call on the real code and project the result."""
    import bind
    from pyttb import pyttb_utils as u
    ttb = bind.ttb
    op, a = ev["op"], ev["args"]
    try:
        if op == "sub2ind":
            # index arrays may be stored with a narrow integer type when their values fit (rotated with the layout)
            narrow = {"default": int, "swapped": np.int32, "strided": np.int8, "grown": np.int16}[bind.get_layout()]
            sdt = narrow if all(x <= 127 for x in a["shape"]) else int
            subs = bind.lay(np.array(a["subs"], dtype=sdt).reshape(len(a["subs"]), len(a["shape"])))
            # the last-index-fastest numbering of the mirrored problem is the same question (rotated with the layout)
            watch.append((subs, subs.copy()))
            if bind.get_layout() in ("swapped", "grown") and len(a["shape"]) >= 1 and len(a["subs"]):
                r = u.tt_sub2ind(tuple(a["shape"])[::-1], bind.lay(np.ascontiguousarray(subs[:, ::-1])), order="C")
            else:
                r = u.tt_sub2ind(tuple(a["shape"]), subs)
            return {"st": "ok", "idx": [bind.num(x) for x in np.asarray(r).reshape(-1)]}
        if op == "ind2sub":
            narrow = {"default": int, "swapped": np.int32, "strided": np.int8, "grown": np.int16}[bind.get_layout()]
            idt = narrow if all(abs(x) <= 127 for x in a["idx"]) else int
            if bind.get_layout() in ("swapped", "grown") and len(a["shape"]) >= 1:
                r = u.tt_ind2sub(tuple(a["shape"])[::-1], bind.lay(np.array(a["idx"], dtype=idt)), order="C")
                r = np.asarray(r)
                r = r[:, ::-1] if r.ndim == 2 else r
            else:
                r = u.tt_ind2sub(tuple(a["shape"]), bind.lay(np.array(a["idx"], dtype=idt)))
            r = np.asarray(r)
            if r.ndim != 2:
                return {"st": "bad-result-layout"}
            return {"st": "ok", "subs": [[int(x) for x in row] for row in r]}
        if op == "dimscheck":
            M = a["M"] if a["hasM"] else None
            d = np.array(a["dims"], dtype=int)
            sd, vi = (u.tt_dimscheck(a["N"], M, exclude_dims=d) if a["excl"]
                      else u.tt_dimscheck(a["N"], M, dims=d))
            return {"st": "ok", "sdims": [int(x) for x in sd],
                    "vidx": [] if vi is None else [int(x) for x in vi]}
        if op in ("ismember", "intersect", "setdiff", "union"):
            w = a["width"]
            A = np.array(a["A"], dtype=int).reshape(len(a["A"]), w)
            B = np.array(a["B"], dtype=int).reshape(len(a["B"]), w)
            # set algebra on rows depends only on which rows are equal: an injective relabelling of the entries is a
            # presentation of the same question (rotated with the array layout): negative entries, huge entries
            relabel = {"default": (1, 0), "swapped": (1, -2), "strided": (10 ** 9 + 7, -3), "grown": (65536, 0)}[bind.get_layout()]
            A, B = A * relabel[0] + relabel[1], B * relabel[0] + relabel[1]
            if relabel == (1, 0) and A.size and B.size and min(A.min(), B.min()) >= 0 and max(A.max(), B.max()) < 128:
                # small non-negative entries: the element types of the two row matrices are a presentation as well
                # (positions in the other matrix have nothing to do with the value range of the entries)
                A, B = A.astype(np.int16), B.astype(np.uint8)
            A, B = bind.lay(A), bind.lay(B)
            watch += [(A, A.copy()), (B, B.copy())]
            if op == "ismember":
                m, loc = u.tt_ismember_rows(A, B)
                return {"st": "ok", "matched": [bool(x) for x in m], "loc": [int(x) for x in loc]}
            if op == "intersect":
                return {"st": "ok", "idx": [int(x) for x in np.asarray(u.tt_intersect_rows(A, B)).reshape(-1)]}
            if op == "setdiff":
                return {"st": "ok", "idx": [int(x) for x in np.asarray(u.tt_setdiff_rows(A, B)).reshape(-1)]}
            r = np.asarray(u.tt_union_rows(A, B))
            if r.size == 0:
                return {"st": "ok", "rows": []}
            back = (r.reshape(-1, w) - relabel[1]) // relabel[0]
            if not np.array_equal(back * relabel[0] + relabel[1], r.reshape(-1, w)):
                return {"st": "union-contains-a-row-of-neither-operand"}
            return {"st": "ok", "rows": [[bind.num(x) for x in row] for row in back]}
        if op == "khatrirao":
            # element types of the factors (integer-valued entries): all float, or mixed with a narrower type first / last
            kinds = {"default": [float], "swapped": [np.int64, float], "strided": [float, np.int32], "grown": [np.int16, np.int64, float]}[bind.get_layout()]
            mats = [bind.lay(np.array(m, dtype=(kinds[j % len(kinds)] if np.all(np.array(m) == np.round(np.array(m))) else float)))
                    for j, m in enumerate(a["mats"])]
            watch += [(m, m.copy()) for m in mats]
            if bind.get_layout() in ("swapped", "strided"):
                # a flag that comes out of a numpy comparison: it is either refused or honoured, never ignored
                try:
                    r = ttb.khatrirao(*mats, reverse=np.bool_(a["reverse"]))
                except ValueError:
                    r = ttb.khatrirao(*mats, reverse=bool(a["reverse"]))
            else:
                r = ttb.khatrirao(*mats, reverse=bool(a["reverse"]))
            return {"st": "ok", "m": bind.matrix(r)}
    except bind.Inexact as e:
        return {"st": "inexact", "msg": str(e)[:200]}
    except Exception as e:
        return {"st": "raised", "msg": f"{type(e).__name__}: {e}"[:200]}
    raise ValueError(op)


SITE = {"sub2ind": "tt_sub2ind", "ind2sub": "tt_ind2sub", "dimscheck": "tt_dimscheck",
        "ismember": "tt_ismember_rows", "intersect": "tt_intersect_rows",
        "setdiff": "tt_setdiff_rows", "union": "tt_union_rows", "khatrirao": "khatrirao"}


def record(stim: dict) -> dict:
    return {"init": {}, "ev": [{"op": e["op"], "args": e["args"], "ret": call(e)} for e in stim["ev"]]}


def replay(b: dict) -> dict:
    """b = {"ev": [events with canonical ret]}: one trace of independent calls."""
    tr = {"init": {}, "ev": []}
    divs = []
    nontrivial = []
    for i, ev in enumerate(b["ev"]):
        ret = call(ev)
        tr["ev"].append({"op": ev["op"], "args": ev["args"], "ret": ret})
        nontrivial.append(json.dumps([ev["op"], ev["args"]], sort_keys=True))
        if ret != ev["ret"]:
            divs.append({"site": SITE[ev["op"]], "why": "differs-from-canonical",
                         "expected": ev["ret"], "detail": json.dumps(ret)[:300],
                         "trace_index": 0, "event": i + 1})
    return {"traces": [tr], "divs": divs, "events": len(b["ev"]), "nontrivial": nontrivial}


def main(tier: str) -> int:
    if core.replay_arg():
        if json.loads(open(core.replay_arg()).read())["stimulus"].get("bits"):
            return core.replay_file(core.replay_arg(), PROP, "c17b", "IndexMaps_Bits_Trace")
        return core.replay_file(core.replay_arg(), PROP, "c17", "Helpers_Trace")
    out = Outcome(PROP, tier)
    jobs = []
    for s in shapes(tier):
        jobs.append(dict(module="Helpers_Gen", cfg_text=cfg("index", 1), defs={"ShapeC": tla.tla(list(s))}))
    for fam in ("dims", "rows2", "rows1", "kr", "long"):
        jobs.append(dict(module="Helpers_Gen", cfg_text=cfg(fam, 4 if tier == "quick" else 5),
                         defs={"ShapeC": "<<1>>"}, timeout=3000))
    results = tla.run_many(jobs)
    events = []
    for r in results:
        out.add_tlc(r)
        events += r.json
    # group independent calls into traces of 40 events
    behaviours = [{"ev": events[i:i + 40]} for i in range(0, len(events), 40)]
    out.notes["events_generated"] = len(events)
    from collections import Counter
    out.notes["events_per_op"] = dict(Counter(e["op"] for e in events))
    # power-of-two shapes with up to 2^62 cells: subscripts and linear indices as bit strings (IndexMaps_Bits); one side
    # of each pair is a single mode, so the resplit is exactly sub2ind / ind2sub
    pairs = ("{<<<<20, 20, 20>>, <<60>>>>, <<<<60>>, <<20, 20, 20>>>>, <<<<55, 3, 2>>, <<60>>>>, <<<<60>>, <<7, 53>>>>, "
             "<<<<61>>, <<2, 3, 56>>>>, <<<<31, 31>>, <<62>>>>, <<<<62>>, <<31, 31>>>>, <<<<54>>, <<27, 27>>>>}")
    rb = tla.run_tlc("IndexMaps_Bits_Gen", "SPECIFICATION Spec\nINVARIANT RoundTrip\nINVARIANT Injective\n", defs={"Pairs": pairs},
                     timeout=1500)
    out.add_tlc(rb)
    out.notes["bit_string_behaviours"] = len(rb.json)
    import c17b
    core.pipeline(out, "c17b", rb.json, "IndexMaps_Bits_Trace", lock_mode="superset",
                  site_of=lambda tr, k: c17b.site(tr["ev"][k - 1]["args"]))
    core.pipeline(out, "c17", behaviours, "Helpers_Trace", lock_mode="superset",
                  site_of=lambda tr, k: SITE[tr["ev"][k - 1]["op"]])
    out.rule = ("every stimulus of Helpers_Gen: all subscripts of every shape in scope (both directions, "
                "whole lists, reversed lists, singletons); every N<=4(5), every injective dims / "
                "exclude_dims list in any order with M in {none, |dims|, N}; all pairs of row matrices "
                "with <=3 rows over {0,1}^2 and {0,1,2}^1 for the four row-set helpers; all tuples of "
                "<=3 labelled matrices with 1..3 rows and 1..2 columns, both orders; searches of 1030 and 2500 rows in short "
                "sources (and a short search in a long source); sub2ind / ind2sub on power-of-two shapes with 2^54..2^62 "
                "cells, subscripts as bit strings (IndexMaps_Bits: 7 bit patterns per shape pair)")
    out.exhaustive = True
    out.trusted = ["harness/c17.py call(): plain calls of the helper functions", "TLC"]
    out.assumptions = ["small scope: shapes with order <= 4 (5) and sizes <= 3, row matrices with <= 3 rows (plus the long and "
                       "the 2^k instances named in the rule)"]
    return core.finish(out)


if __name__ == "__main__":
    core.main_wrap(main)
