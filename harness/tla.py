"""Run TLC on the specifications in /verif/spec and parse what it prints.

Three uses (DESIGN 2.3):
  (M) model checking a configuration            -> run_tlc(...)
  (G) generating behaviours as JSON lines        -> run_tlc(...).json
  (V) validating recorded traces in one batch    -> validate_traces(...)
"""
from __future__ import annotations

import concurrent.futures as cf
import json
import os
import re
import shutil
import subprocess
import tempfile
import time
from dataclasses import dataclass, field
from pathlib import Path
from typing import Any, Dict, List, Optional, Sequence

VERIF = Path(__file__).resolve().parent.parent
SPEC = VERIF / "spec"
JAR = "/opt/veriftools/tla/tla2tools.jar:/opt/veriftools/tla/CommunityModules-deps.jar"


class MachineryError(Exception):
    """TLC crashed / output unparsable: exit code 2, never a violation."""


@dataclass
class TlcResult:
    ok: bool                      # TLC finished without reporting any error
    generated: int = 0            # states generated (= transitions + initial states)
    distinct: int = 0
    json: List[Any] = field(default_factory=list)      # values printed with PrintT(ToJson(..))
    prints: List[str] = field(default_factory=list)    # other PrintT lines
    errors: List[str] = field(default_factory=list)
    violated: List[str] = field(default_factory=list)  # names of violated invariants / properties
    stdout: str = ""
    wall_s: float = 0.0
    coverage: Dict[str, int] = field(default_factory=dict)


_SUMMARY = re.compile(r"(\d+) states generated, (\d+) distinct states found")
_SIMSUM = re.compile(r"The number of states generated: (\d+)")
_INV = re.compile(r"Invariant (\S+) is violated")
_PROP = re.compile(r"(?:Action|Temporal) property (\S+) (?:is|was) violated")
_COV = re.compile(r"^<(\w+) line \d+, col \d+ to line \d+, col \d+ of module (\w+)>: (\d+):(\d+)")


def scratch_dir() -> str:
    base = os.environ.get("VERIF_SCRATCH") or tempfile.gettempdir()
    return tempfile.mkdtemp(prefix="verif-tlc-", dir=base)


def run_tlc(module: str, cfg_text: str, *, env: Optional[Dict[str, str]] = None,
            workers: int = 1, simulate: Optional[str] = None, depth: Optional[int] = None,
            seed: Optional[int] = None, timeout: int = 900, xmx: str = "3g",
            coverage: bool = False, deadlock: bool = False,
            allow_violation: bool = False, lenient: bool = False,
            defs: Optional[Dict[str, str]] = None) -> TlcResult:
    """Run TLC on spec/<module>.tla with the given configuration text.

    `defs` maps constant names to TLA+ expressions (tuples, records ... which a .cfg file cannot
    hold): a wrapper module MC extending <module> is generated with one definition per entry
    and the configuration gets `name <- MC_name`.
    """
    sd = scratch_dir()
    try:
        root = module
        if defs:
            root = "MC_" + module
            with open(os.path.join(sd, root + ".tla"), "w") as f:
                f.write(f"---- MODULE {root} ----\nEXTENDS {module}\n")
                for k, v in defs.items():
                    f.write(f"MC_{k} == {v}\n")
                f.write("====\n")
            cfg_text = cfg_text.rstrip("\n") + "\nCONSTANTS\n" + "".join(
                f" {k} <- MC_{k}\n" for k in defs)
        cfg = os.path.join(sd, f"{root}.cfg")
        with open(cfg, "w") as f:
            f.write(cfg_text)
        cmd = ["java", "-XX:+UseParallelGC", "-XX:ParallelGCThreads=2", f"-Xmx{xmx}", "-Xss16m",
               f"-DTLA-Library={SPEC}",
               "-cp", JAR, "tlc2.TLC", "-config", cfg, "-workers", str(workers),
               "-metadir", os.path.join(sd, "meta"), "-noGenerateSpecTE"]
        if not deadlock:
            cmd.append("-deadlock")          # -deadlock = do NOT check for deadlock
        if coverage:
            cmd += ["-coverage", "1"]
        if simulate:
            cmd += ["-simulate", simulate]
        if depth is not None:
            cmd += ["-depth", str(depth)]
        if seed is not None:
            cmd += ["-seed", str(seed)]
        cmd.append(os.path.join(sd, root + ".tla") if defs else f"{module}.tla")
        e = dict(os.environ)
        if env:
            e.update(env)
        t0 = time.time()
        try:
            p = subprocess.run(cmd, cwd=str(SPEC), env=e, capture_output=True, text=True,
                               timeout=timeout)
        except subprocess.TimeoutExpired as ex:
            raise MachineryError(f"TLC timeout after {timeout}s on {module}") from ex
        out = p.stdout
        res = TlcResult(ok=True, stdout=out, wall_s=time.time() - t0)
        for line in out.splitlines():
            s = line.strip()
            if s.startswith('"') and s.endswith('"') and len(s) >= 2:
                try:
                    inner = json.loads(s)
                except Exception:
                    res.prints.append(s)
                    continue
                if inner[:1] in "{[":
                    try:
                        res.json.append(json.loads(inner))
                        continue
                    except Exception:
                        pass
                res.prints.append(inner)
                continue
            m = _SUMMARY.search(s)
            if m:
                res.generated = int(m.group(1))
                res.distinct = int(m.group(2))
                continue
            m = _SIMSUM.search(s)
            if m:
                res.generated = res.distinct = int(m.group(1))
                continue
            m = _INV.search(s)
            if m:
                res.violated.append(m.group(1))
                continue
            m = _PROP.search(s)
            if m:
                res.violated.append(m.group(1))
                continue
            if s.startswith("<<") and s.endswith(">>"):
                res.prints.append(s)
                continue
            m = _COV.match(s)
            if m:
                res.coverage[m.group(1)] = res.coverage.get(m.group(1), 0) + int(m.group(4))
                continue
            if s.startswith("Error:") or "Exception" in s and "java" in s:
                res.errors.append(s)
        if res.violated:
            res.ok = False
        if res.errors:
            res.ok = False
        if p.returncode != 0 and res.ok:
            res.ok = False
            res.errors.append(f"TLC exit code {p.returncode}")
        if not res.ok and not lenient and not (allow_violation and res.violated):
            # unexpected failure of the tool or the spec: show the tail for diagnosis
            tail = "\n".join([l for l in out.splitlines()
                              if not (l.startswith('"') and len(l) > 300)][-40:])
            raise MachineryError(f"TLC failed on {module}:\n{tail}\n{p.stderr[-2000:]}")
        return res
    finally:
        shutil.rmtree(sd, ignore_errors=True)


def run_many(jobs: Sequence[dict], parallel: int = 16) -> List[TlcResult]:
    """Run several TLC jobs (kwargs dicts for run_tlc) in parallel processes."""
    with cf.ThreadPoolExecutor(max_workers=parallel) as ex:
        futs = [ex.submit(run_tlc, **j) for j in jobs]
        return [f.result() for f in futs]


# ---------------------------------------------------------------------------
# TLA+ literals for generated .cfg files / modules

def tla(v: Any) -> str:
    """Python value -> TLA+ literal (ints, bools, strs, lists->tuples, dicts->records, sets)."""
    if isinstance(v, bool):
        return "TRUE" if v else "FALSE"
    if isinstance(v, int):
        return str(v) if v >= 0 else f"(0 - {-v})"
    if isinstance(v, str):
        return json.dumps(v)
    if isinstance(v, (list, tuple)):
        return "<<" + ", ".join(tla(x) for x in v) + ">>"
    if isinstance(v, (set, frozenset)):
        return "{" + ", ".join(tla(x) for x in sorted(v, key=repr)) + "}"
    if isinstance(v, dict):
        return "[" + ", ".join(f"{k} |-> {tla(x)}" for k, x in v.items()) + "]"
    raise TypeError(f"no TLA+ literal for {type(v)}")


# ---------------------------------------------------------------------------
# batched trace validation (V)

@dataclass
class TraceVerdict:
    accepted: int
    rejected: List[dict]          # [{tid, event (1-based), why}]
    generated: int
    distinct: int
    wall_s: float


def validate_traces(module: str, traces: List[dict], *, constants: str = "",
                    chunk: int = 1500, parallel: int = 16, timeout: int = 1800) -> TraceVerdict:
    """Validate traces (each {"ev": [...], ...}) against spec/<module>.tla.

    The module must define TSpec, Done (constraint) and Accepted (postcondition) following the
    batched idiom of DESIGN section 10.  A rejected trace is reported by TLC as
    PrintT(<<"REJECTED", tid, l, why>>) from the postcondition.
    """
    if not traces:
        return TraceVerdict(0, [], 0, 0, 0.0)
    sd = scratch_dir()
    t0 = time.time()
    try:
        jobs = []
        offsets = []
        for c0 in range(0, len(traces), chunk):
            part = traces[c0:c0 + chunk]
            fn = os.path.join(sd, f"traces_{c0}.ndjson")
            with open(fn, "w") as f:
                for t in part:
                    f.write(json.dumps(t, separators=(",", ":")) + "\n")
            cfg = ("SPECIFICATION TSpec\nCONSTRAINT Done\nPOSTCONDITION Accepted\n"
                   "CHECK_DEADLOCK FALSE\n" + constants)
            jobs.append(dict(module=module, cfg_text=cfg, env={"TRACE_FILE": fn}, workers=1,
                             timeout=timeout, allow_violation=True))
            offsets.append(c0)
        results = []
        with cf.ThreadPoolExecutor(max_workers=parallel) as ex:
            futs = [ex.submit(_run_trace_job, j) for j in jobs]
            results = [f.result() for f in futs]
        rejected = []
        acc = gen = dist = 0
        for c0, (r, n) in zip(offsets, zip(results, [len(traces[c:c + chunk]) for c in offsets])):
            gen += r.generated
            dist += r.distinct
            rej_here = []
            # TLC wraps long tuples over several lines: search the whole output
            for m in re.finditer(r'<<\s*"REJECTED",\s*(\d+),\s*(\d+),\s*"([^"]*)"\s*>>', r.stdout):
                rej_here.append({"tid": c0 + int(m.group(1)) - 1, "event": int(m.group(2)),
                                 "why": m.group(3)})
            if not rej_here and not r.ok:
                raise MachineryError(f"trace validation of {module} failed without a verdict:\n"
                                     + "\n".join(r.errors[:5]) + "\n" + r.stdout[-3000:])
            rejected += rej_here
            acc += n - len({x["tid"] for x in rej_here})
        return TraceVerdict(acc, rejected, gen, dist, time.time() - t0)
    finally:
        shutil.rmtree(sd, ignore_errors=True)


def _run_trace_job(j: dict) -> TlcResult:
    return run_tlc(lenient=True, **j)
