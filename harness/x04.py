"""X04 (extension) — argument helpers: validators, index-key classification, shape / vector normalisers
(spec: Arguments*.tla)."""
from __future__ import annotations

import json

import numpy as np

import core
import tla
from core import Outcome

PROP = "X04"
SITE = {"sizecheck": "tt_sizecheck", "subscheck": "tt_subscheck", "valscheck": "tt_valscheck", "isrow": "isrow",
        "isvector": "isvector", "variant": "get_index_variant", "parse_shape": "parse_shape", "parse_one_d": "parse_one_d"}


def gamma(a: dict):
    """the Python object a specification argument stands for"""
    f = a["form"]
    if f == "int":
        return int(a["v2"] // 2)
    if f == "npint":
        return np.int64(a["v2"] // 2)
    if f == "float":
        return a["v2"] / 2.0
    if f == "slice":
        return slice(0, 2)
    if f == "array":
        dt = {"int": np.int64, "float": np.float64, "bool": np.bool_}[a["et"]]
        v = np.array([x / 2.0 for x in a["v2"]], dtype=np.float64)
        if a["special"] != "none" and v.size:
            v[-1] = np.inf if a["special"] == "inf" else np.nan
        return v.astype(dt).reshape(tuple(a["dims"]))
    if f in ("list", "tuple"):
        items = [gamma(i) for i in a["items"]]
        return items if f == "list" else tuple(items)
    if f == "nested":
        return [list(r) for r in a["rows"]]
    raise ValueError(f)


def twice(x) -> int:
    y = float(x) * 2
    if y != round(y):
        raise ValueError(f"not a multiple of one half: {x!r}")
    return int(round(y))


def call(op: str, a: dict) -> dict:
    import bind
    u = bind.ttb.pyttb_utils
    x = gamma(a)
    try:
        if op in ("sizecheck", "subscheck", "valscheck"):
            fn = {"sizecheck": u.tt_sizecheck, "subscheck": u.tt_subscheck, "valscheck": u.tt_valscheck}[op]
            ok = fn(x)
            if not isinstance(ok, (bool, np.bool_)):
                return {"st": "predicate-is-not-a-boolean"}
            try:
                fn(x, False)
                asserted = False
            except AssertionError:
                asserted = True
            return {"st": "ok", "ok": bool(ok), "asserted": asserted}
        if op in ("isrow", "isvector"):
            ok = (u.isrow if op == "isrow" else u.isvector)(x)
            if not isinstance(ok, (bool, np.bool_)):
                return {"st": "predicate-is-not-a-boolean"}
            return {"st": "ok", "ok": bool(ok)}
        if op == "variant":
            return {"st": "ok", "variant": u.get_index_variant(x).name}
        if op == "parse_shape":
            try:
                s = u.parse_shape(x)
            except ValueError:
                return {"st": "rejected"}
            if not isinstance(s, tuple):
                return {"st": "result-is-not-a-tuple"}
            return {"st": "ok", "shape": [int(e) for e in s],
                    "python_ints": all(isinstance(e, (int, np.integer)) and not isinstance(e, (bool, np.bool_)) for e in s)}
        if op == "parse_one_d":
            try:
                v = u.parse_one_d(x)
            except ValueError:
                return {"st": "rejected"}
            if not isinstance(v, np.ndarray):
                return {"st": "result-is-not-an-array"}
            return {"st": "ok", "ndim": int(v.ndim), "v2": [twice(e) for e in v.reshape(-1)]}
    except Exception as e:
        return {"st": "raised:" + type(e).__name__ + ":" + str(e)[:80]}
    raise ValueError(op)


def event(b: dict) -> dict:
    return {"op": b["op"], "args": b["a"], "ret": call(b["op"], b["a"])}


def replay(b: dict) -> dict:
    ev = event(b)
    tr = {"init": {}, "b": b, "ev": [ev]}
    divs = []
    if ev["ret"] != b["ret"]:
        divs.append({"site": SITE[b["op"]], "why": "candidate", "expected": b["ret"], "detail": json.dumps(ev["ret"])[:200],
                     "trace_index": 0, "event": 1})
    return {"traces": [tr], "divs": divs, "events": 1, "nontrivial": [json.dumps([b["op"], b["a"]], sort_keys=True)]}


def record(stim: dict) -> dict:
    return {"init": {}, "b": stim["b"], "ev": [event(stim["b"])]}


def tags_of(tr, k):
    a = tr["ev"][k - 1]["args"]
    t = [a["form"]]
    if a["form"] == "array":
        t.append("ndim%d" % len(a["dims"]))
        t.append("et_" + a["et"])
    if a["form"] in ("list", "tuple") and a["items"]:
        t.append("first_" + a["items"][0]["form"])
    return t


def main(tier: str) -> int:
    rp = core.replay_arg()
    if rp:
        return core.replay_file(rp, PROP, "x04", "Arguments_Trace")
    out = Outcome(PROP, tier)
    r = tla.run_tlc("Arguments_Gen", "SPECIFICATION Spec\n" + "".join(
        f"INVARIANT {x}\n" for x in ("SizeVsParse", "RowIsVector", "ValsAreVectors", "VectorsParse", "SubsNotLinear")), timeout=1200)
    out.add_tlc(r)
    behaviours = r.json
    from collections import Counter
    out.notes["calls_per_helper"] = dict(Counter(b["op"] for b in behaviours))
    core.pipeline(out, "x04", behaviours, "Arguments_Trace", lock_mode="superset", chunk=600,
                  site_of=lambda tr, k: SITE[tr["ev"][k - 1]["op"]], tags_of=tags_of)
    out.rule = ("every helper on every argument form of Arguments_Gen: integer / float / boolean arrays with 0 to 3 dimensions "
                "(empty, 0-d, vectors, rows, columns, matrices, one or two non-trivial dimensions; positive, zero, negative, "
                "fractional, infinite and NaN entries), lists and tuples of up to three Python / numpy integers and floats, "
                "scalars, slices and nested lists (keys only); the asserting form of each validator is called as well")
    out.exhaustive = True
    out.trusted = ["gamma() / call() in harness/x04.py", "TLC"]
    return core.finish(out)


if __name__ == "__main__":
    core.main_wrap(main)
