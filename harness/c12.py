"""C12 — GCP losses, gradients and their tensor-level evaluation are consistent (Gcp*.tla, Losses*.tla)."""
from __future__ import annotations

import json
import math
import warnings
from typing import List

import numpy as np

import core
import tla
from core import Outcome

PROP = "C12"


def loss_handles(loss: dict):
    from pyttb.gcp import handles as H
    from pyttb.gcp.fg_setup import setup
    from pyttb.gcp.handles import Objectives
    if loss["name"] == "gaussian":
        f, g, _ = setup(Objectives.GAUSSIAN)
        return f, g
    if loss["name"] == "huber":
        f, g, _ = setup(Objectives.HUBER, additional_parameter=float(loss["t"]))
        return f, g
    # user supplied quadratic loss through the objective-tuple API
    return (lambda x, m: (2 * m - x) ** 2 + m), (lambda x, m: 4 * (2 * m - x) + 1)


def mk_model(K: dict):
    import bind
    R = len(K["w"])
    return bind.ttb.ktensor([np.array(m, dtype=float).reshape(len(m), R) for m in K["U"]], np.array(K["w"], dtype=float))


def call(op: str, a: dict) -> dict:
    import bind
    from pyttb.gcp import fg, fg_est
    ttb = bind.ttb
    try:
        with warnings.catch_warnings():
            warnings.simplefilter("ignore")
            f, g = loss_handles(a["loss"])
            if op == "element":
                x = np.array(a["xs"], dtype=bind._dt(a["xs"], float))      # counts / indicators may be stored as integers
                m = np.array(a["ms"], dtype=float)
                return {"st": "ok", "f": [bind.num(v) for v in np.asarray(f(x, m))], "g": [bind.num(v) for v in np.asarray(g(x, m))]}
            K = mk_model(a["K"])
            if op == "evaluate":
                X = bind.g_dense(a["X"])
                if a["sparse"]:
                    X = X.to_sptensor()
                W = np.array(a["W"]["v"], dtype=float).reshape(tuple(a["W"]["shape"]), order="F") if a["hasW"] else None
                import c05
                snap = (c05.snapshot(K), c05.snapshot(X), None if W is None else W.copy())
                F, G = fg.evaluate(K, X, W, f, g)
                F2 = fg.evaluate(K, X, W, f, None)
                G2 = fg.evaluate(K, X, W, None, g)
                # a request for both answers gets both, also when the objective is exactly zero (every cell masked out)
                r0 = fg.evaluate(K, X, np.zeros(tuple(X.shape)), f, g)
                if not (isinstance(r0, tuple) and len(r0) == 2 and len(r0[1]) == len(K.factor_matrices)):
                    return {"st": "joint-evaluation-with-all-cells-masked-does-not-return-objective-and-gradients"}
                if r0[0] == 0 and not all(np.all(np.asarray(m) == 0) for m in r0[1]):
                    return {"st": "gradient-of-masked-cells-not-zero"}
                # the kernel behind "all modes at once" against "one mode at a time", also for integer-typed factor
                # matrices and a tensor with non-integer entries (the element-gradient tensor is such a tensor)
                Yt = ttb.tensor(np.asarray(X.full().data if hasattr(X, "subs") else X.data, dtype=float) * 0.5 + 0.25)
                Yi = ttb.tensor(np.round(np.asarray(Yt.data) * 4).astype(np.int64))     # the same with integer-typed entries
                # (and for a list that mixes integer-typed matrices with one matrix of non-integer floats)
                for Ui in ([np.asarray(u, dtype=float) for u in K.factor_matrices],
                           [np.round(u).astype(np.int64) for u in K.factor_matrices],
                           [(np.asarray(u, dtype=float) * 0.5 + 0.3 + 0.17 * np.arange(u.shape[0])[:, None] - 0.07 * np.arange(u.shape[1])[None, :])
                            if i == len(K.factor_matrices) // 2 else np.round(u).astype(np.int64)
                            for i, u in enumerate(K.factor_matrices)]):
                    for Y_ in (Yt, Yi):
                        allm = Y_.mttkrps(Ui)
                        if not all(np.allclose(np.asarray(allm[n]), np.asarray(Y_.mttkrp(Ui, n)), rtol=1e-12, atol=1e-12)
                                   for n in range(len(Ui))):
                            return {"st": "all-modes-at-once-differs-from-one-mode-at-a-time"}
                if c05.snapshot(K) != snap[0] or c05.snapshot(X) != snap[1] or (W is not None and not np.array_equal(W, snap[2])):
                    return {"st": "model-data-or-weights-changed-by-the-evaluation"}
                if F2 != F or not all(np.array_equal(p, q) for p, q in zip(G, G2)):
                    return {"st": "separate-and-joint-evaluation-differ"}
                return {"st": "ok", "F": bind.num(F), "G": [bind.matrix(m) for m in G]}
            if op == "estimate":
                subs = np.array(a["subs"], dtype=int)
                vals = np.array(a["vals"], dtype=bind._dt(a["vals"], float))
                ws = np.array(a["ws"], dtype=float)
                unit = all(w == 1 for w in a["K"]["w"])
                crng = np.arange(a["crng"]) if a.get("crng", 0) > 0 else None
                F = fg_est.estimate(K.copy(), subs, vals, ws, f, None, True, crng)
                out = {"st": "ok", "F": bind.num(F), "G": []}
                if unit:
                    F3, G = fg_est.estimate(K.copy(), subs, vals, ws, f, g, True, crng)
                    if bind.num(F3) != out["F"]:
                        return {"st": "separate-and-joint-estimation-differ"}
                    out["G"] = [bind.matrix(np.asarray(m)) for m in G]
                return out
    except bind.Inexact as e:
        return {"st": "inexact", "msg": str(e)[:150]}
    except Exception as e:
        return {"st": "raised", "msg": f"{type(e).__name__}: {e}"[:150]}
    raise ValueError(op)


# ---------------------------------------------------------------------------
# element level: numerical interpretation of the specification's term sets

def eval_terms(terms: List[dict], x, m, r, eps):
    tot = np.zeros_like(m, dtype=float)
    for t in terms:
        b = t["b"]
        sh = {"0": 0.0, "1": 1.0, "eps": eps}[b["sh"]]
        if b["k"] == "pow":
            e = b["en"] / b["ed"]
            v = np.ones_like(m) if b["en"] == 0 else (m + sh) ** e
        elif b["k"] == "log":
            v = np.log(m + sh)
        elif b["k"] == "exp":
            v = np.exp(m)
        elif b["k"] == "lse":
            v = np.log(np.exp(m) + 1)
        elif b["k"] == "sig":
            v = np.exp(m) / (np.exp(m) + 1)
        else:
            raise ValueError(b["k"])
        tot = tot + (t["cn"] / t["cd"]) * (math.pi ** t["pp"]) * (x ** t["xp"]) * (r ** t["rp"]) * v
    return tot


DOMAIN = {   # data values, model values (inside the loss's domain; 0.0 = the lower bound of the non-negative models, where
             # only the EPS guard keeps the expressions finite)
    "gaussian": ([-1.5, 0.0, 2.0, 3.25], [-2.0, -0.5, 0.0, 0.7, 3.0]),
    "bernoulli_odds": ([0.0, 1.0], [0.0, 1e-3, 0.1, 0.5, 1.0, 2.5, 10.0]),
    "bernoulli_logit": ([0.0, 1.0], [-300.0, -95.0, -3.0, -0.5, 0.0, 0.7, 2.0, 40.0, 95.0, 300.0]),
    "poisson": ([0.0, 1.0, 2.0, 7.0], [0.0, 1e-3, 0.1, 0.5, 1.0, 2.5, 10.0]),
    "poisson_log": ([0.0, 1.0, 2.0, 7.0], [-300.0, -3.0, -0.5, 0.0, 0.7, 2.0, 95.0]),
    "rayleigh": ([0.25, 1.0, 2.5], [0.0, 1e-2, 0.1, 0.5, 1.0, 2.5, 10.0]),
    "gamma": ([0.25, 1.0, 2.5], [0.0, 1e-2, 0.1, 0.5, 1.0, 2.5, 10.0]),
    "negative_binomial": ([0.0, 1.0, 2.0, 7.0], [0.0, 1e-3, 0.1, 0.5, 1.0, 2.5, 10.0]),
    "beta": ([0.0, 0.25, 1.0, 2.5], [0.0, 1e-2, 0.1, 0.5, 1.0, 2.5, 10.0]),
}
RVALS = [1.0, 3.0, 4.5]
# integer data values inside each loss's domain whose squares / negatives do not fit 8 bits
INT_EXTRA = {"gaussian": [100.0, -100.0], "poisson": [100.0], "poisson_log": [100.0], "rayleigh": [12.0, 100.0], "gamma": [100.0],
             "negative_binomial": [100.0], "beta": [12.0], "huber": [100.0, -100.0]}


def handle_event(st: dict) -> dict:
    from pyttb.gcp import handles as H
    from pyttb.gcp.fg_setup import setup
    from pyttb.gcp.handles import Objectives
    name = st["name"]
    try:
        xs, ms = DOMAIN[name]
        obj = getattr(Objectives, name.upper())
        la = ga = True
        worst = 0.0
        # the integer data values of the domain also as stored integers (counts, indicators, measured values kept in 8
        # bits): the element type of the data is a presentation; the oracle always computes in double precision
        ints = [x for x in xs + INT_EXTRA.get(name, []) if float(x).is_integer()]
        variants = [(xs, float)] + ([(ints, t) for t in (np.int64, np.int8) + ((np.uint8,) if min(ints) >= 0 else ())] if ints else [])
        for r, (vx, xt) in [(r, v) for r in (RVALS if name == "negative_binomial" else [1.0]) for v in variants]:
            Xf, M = np.meshgrid(np.array(vx, dtype=float), np.array(ms), indexing="ij")
            X = Xf.astype(xt)
            extra = r if name == "negative_binomial" else (st["bn"] / st["bd"] if name == "beta" else None)
            f, g, _ = setup(obj, additional_parameter=extra) if extra is not None else setup(obj)
            with np.errstate(all="ignore"):
                fv, gv = np.asarray(f(X, M), dtype=float), np.asarray(g(X, M), dtype=float)
                fs = eval_terms(st["loss"], Xf, M, r, H.EPS)
                gs = eval_terms(st["dloss"], Xf, M, r, H.EPS)
            tol_f = 1e-9 * np.maximum(1.0, np.abs(fs))
            tol_g = 1e-9 * np.maximum(1.0, np.abs(gs))
            la = la and bool(np.all(np.abs(fv - fs) <= tol_f))
            ga = ga and bool(np.all(np.abs(gv - gs) <= tol_g))
            worst = max(worst, float(np.max(np.abs(gv - gs) / np.maximum(1.0, np.abs(gs)))))
        return {"st": "ok", "loss_agrees": la, "grad_agrees": ga, "worst_rel_grad_dev_e9": int(min(worst * 1e9, 2e9))}
    except Exception as e:
        return {"st": "raised", "msg": f"{type(e).__name__}: {e}"[:150]}


SITE = {"evaluate": "gcp.fg.evaluate", "estimate": "gcp.fg_est.estimate", "element": "gcp.handles"}


def record(stim: dict) -> dict:
    evs = []
    for e in stim["ev"]:
        if e["op"] == "handle":
            st = dict(e["args"])
            evs.append({"op": "handle", "args": e["args"], "ret": handle_event(st)})
        else:
            evs.append({"op": e["op"], "args": e["args"], "ret": call(e["op"], e["args"])})
    return {"init": {}, "ev": evs}


def replay(b: dict) -> dict:
    tr = {"init": {}, "ev": []}
    divs, nontrivial = [], []
    for i, st in enumerate(b["ev"]):
        if "name" in st:     # element-level handle pair
            ret = handle_event(st)
            ev = {"op": "handle", "args": {"name": st["name"], "bn": st["bn"], "bd": st["bd"], "loss": st["loss"],
                                           "dloss": st["dloss"]}, "ret": ret}
            site = "gcp.handles." + st["name"]
        else:
            ret = call(st["op"], st["a"])
            ev = {"op": st["op"], "args": st["a"], "ret": ret}
            site = SITE[st["op"]] + (f"({st['a']['loss']['name']})")
        tr["ev"].append(ev)
        nontrivial.append(json.dumps([ev["op"], ev["args"]], sort_keys=True)[:2000])
        divs.append({"site": site, "why": "candidate", "expected": None, "detail": json.dumps(ret)[:250],
                     "trace_index": 0, "event": i + 1})
    return {"traces": [tr], "divs": divs, "events": len(b["ev"]), "nontrivial": nontrivial}


def shapes(tier):
    # (order 5 and lopsided order 4: the all-modes-at-once gradient contracts two or more intermediate modes in one step)
    return [(2, 2), (2, 3), (2, 2, 2), (2, 1, 2, 2), (2, 2, 2, 2, 2)] if tier == "quick" else \
        [(2, 2), (2, 3), (3, 2), (2, 2, 2), (3, 2, 2), (2, 1, 2, 2), (2, 2, 2, 2), (2, 3, 2, 2), (2, 2, 2, 2, 2), (4, 2, 2, 3), (2, 2, 3, 4)]


def main(tier: str) -> int:
    rp = core.replay_arg()
    if rp:
        data = json.loads(open(rp).read())
        mod = "Losses_Trace" if data["stimulus"]["ev"][-1]["op"] == "handle" else "Gcp_Trace"
        return core.replay_file(rp, PROP, "c12", mod)
    out = Outcome(PROP, tier)
    LAWS = "INVARIANT GradLaw\nINVARIANT ElementLaw\nINVARIANT EstLaw\nINVARIANT CrngLaw\n"
    jobs = [dict(module="Gcp_Gen", cfg_text="SPECIFICATION Spec\n" + LAWS, defs={"ShapeC": tla.tla(list(s))}, timeout=3000)
            for s in shapes(tier)]
    jobs.append(dict(module="Losses_Gen", cfg_text="SPECIFICATION Spec\nINVARIANT DerivativeLaw\nINVARIANT DiffSanity\n"))
    results = tla.run_many(jobs)
    tensor_st, handle_st = [], []
    for r in results[:-1]:
        out.add_tlc(r)
        tensor_st += r.json
    out.add_tlc(results[-1])
    handle_st = results[-1].json
    # element events only once
    seen = set()
    uniq = []
    for s in tensor_st:
        if s["op"] == "element":
            k = json.dumps(s, sort_keys=True)
            if k in seen:
                continue
            seen.add(k)
        uniq.append(s)
    behaviours = [{"ev": uniq[i:i + 30]} for i in range(0, len(uniq), 30)]
    from collections import Counter
    out.notes["tensor_level_calls"] = dict(Counter(s["op"] for s in uniq))
    out.notes["element_level_losses"] = [s["name"] + (f"(b={s['bn']}/{s['bd']})" if s["name"] == "beta" else "") for s in handle_st]
    core.pipeline(out, "c12", behaviours, "Gcp_Trace", lock_mode="superset", chunk=200,
                  site_of=lambda tr, k: SITE[tr["ev"][k - 1]["op"]] + "(" + tr["ev"][k - 1]["args"]["loss"]["name"] + ")")
    core.pipeline(out, "c12", [{"ev": handle_st}], "Losses_Trace", lock_mode="superset",
                  site_of=lambda tr, k: "gcp.handles." + tr["ev"][k - 1]["args"]["name"])
    out.rule = ("tensor level (Gcp_Gen): models of rank 1-2 with entries in -1..2 (unit and non-unit weights), data 0..3, "
                "three weight arrays, dense and sparse data, orders 2-4 (every value of the mttkrps split), Gaussian / "
                "Huber (both branches) / user-supplied quadratic losses, 6 sample lists (permutations, sub-list, "
                "repetitions) with unit and non-unit sample weights; element level (Losses_Gen): the nine smooth "
                "built-in losses (5 values of the beta parameter, 3 of num_trials): Grad = d/dm Loss proved "
                "symbolically by TLC, both term sets evaluated on a grid in the loss's domain against the handles")
    out.exhaustive = True
    out.trusted = ["numerical interpreter of the specification's term language (eval_terms) in harness/c12.py", "TLC"]
    out.assumptions = ["element level: agreement is checked on a finite grid of (data, model) values with relative "
                       "tolerance 1e-9; the identity Grad = dLoss/dm itself is symbolic and exact"]
    return core.finish(out)


if __name__ == "__main__":
    core.main_wrap(main)
