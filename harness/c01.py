"""C01 — converting between representations preserves the tensor (spec: Convert*.tla)."""
from __future__ import annotations

import itertools
import json
from typing import List

import numpy as np

import core
import tla
from core import Outcome

PROP = "C01"
LAWS = ["MatLaw", "CyclicLaw", "SparseLaw", "DenKept", "WFKept"]
CLS = {"dense": "tensor", "sparse": "sptensor", "ktensor": "ktensor", "ttensor": "ttensor",
       "sum": "sumtensor", "tenmat": "tenmat", "sptenmat": "sptenmat"}


def shapes(tier: str) -> List[tuple]:
    all3 = [s for n in (1, 2, 3) for s in itertools.product((1, 2, 3), repeat=n)]
    if tier == "thorough":
        return all3 + [(2, 2, 2, 2), (2, 1, 3, 2), (2, 3, 5), (1, 2, 2, 3)]
    return [(3,), (1,), (2, 3), (3, 1), (1, 1), (2, 3, 2), (1, 2, 3), (3, 2, 2), (2, 1, 2), (2, 3, 4)]


def cfg(D: int, laws: bool, tier: str, rich: bool = True, konly: bool = False) -> str:
    s = ("SPECIFICATION Spec\nCONSTANTS\n"
         f" D = {D}\n AllOrders = {'TRUE' if tier == 'thorough' else 'FALSE'}\n"
         f" Rich = {'TRUE' if rich else 'FALSE'}\n KOnly = {'TRUE' if konly else 'FALSE'}\n")
    if laws:
        s += "".join(f"INVARIANT {x}\n" for x in LAWS)
    else:
        s += "INVARIANT WFKept\n"
    return s


def make(v: dict, pres: dict):
    import bind
    ttb = bind.ttb
    if v["kind"] == "ttensor":
        return bind.g_ttensor(v, sparse_core=bool(pres.get("sparse_core")))
    if v["kind"] == "sptenmat":
        rd = np.array(v["rdims"], dtype=int)
        cd = np.array(v["cdims"], dtype=int)
        if not v["subs"]:
            return ttb.sptenmat(rdims=rd, cdims=cd, tshape=tuple(v["tshape"]))
        return ttb.sptenmat(np.array(v["subs"], dtype=int), np.array(v["vals"], dtype=float)[:, None],
                            rd, cd, tuple(v["tshape"]), copy=False)
    return bind.gamma(v)


def apply(obj, ev: dict):
    """returns the projected result (spec value)"""
    import bind
    from scipy import sparse
    ttb = bind.ttb
    op, a = ev["op"], ev["args"]
    if op in ("to_sptensor", "full", "to_tensor", "copy"):
        r = getattr(obj, op)()
        return r, bind.alpha(r)
    if op == "double":
        r = obj.double()
        if sparse.issparse(r):
            r = r.toarray()
        r = np.asarray(r)
        return None, {"kind": "array", "shape": [int(s) for s in r.shape], "v": bind.flatF(r)}
    if op == "spmatrix":
        r = obj.spmatrix().toarray()
        return None, {"kind": "array", "shape": [int(s) for s in r.shape], "v": bind.flatF(r)}
    if op == "nnz":
        return None, {"kind": "scalar", "val": int(obj.nnz)}
    if op in ("to_tenmat", "to_sptenmat"):
        f = a["form"]
        rd = np.array(a["rdims"], dtype=int)
        cd = np.array(a["cdims"], dtype=int)
        m = getattr(obj, op)
        if f == "rc":
            r = m(rdims=rd, cdims=cd)
        elif f == "r":
            r = m(rdims=rd)
        elif f == "c":
            r = m(cdims=cd)
        else:
            r = m(rdims=rd, cdims_cyclic=f)
        if op == "to_sptenmat" and bind.get_layout() == "grown":
            # the same matricized tensor through the constructor, with a redundant pair of entries that cancel
            # exactly at some coordinate (the constructor sums repeated subscripts): a presentation of the same object
            nr = int(np.prod(np.array(r.tshape)[r.rdims])) if len(r.rdims) else 1
            nc = int(np.prod(np.array(r.tshape)[r.cdims])) if len(r.cdims) else 1
            z = np.array([[nr - 1, nc - 1]])
            subs = np.vstack([z, r.subs.reshape(-1, 2), z]) if r.subs.size else np.vstack([z, z])
            vals = np.vstack([[[3.0]], r.vals.reshape(-1, 1), [[-3.0]]]) if r.subs.size else np.array([[3.0], [-3.0]])
            r = ttb.sptenmat(subs, vals, r.rdims.copy(), r.cdims.copy(), r.tshape)
        return r, bind.alpha(r)
    if op == "from_array":
        arr = obj.double()
        # small magnitudes are entries like any other (2^-40 is exact): rotated with the array layout
        f = 2.0 ** -40 if bind.get_layout() in ("strided", "grown") else 1.0
        arr = arr * f
        if sum(obj.tshape) % 2:
            # scipy's storage format is a presentation of the same matrix (rotated with the array layout)
            arr = {"default": sparse.coo_matrix, "swapped": sparse.csc_matrix, "strided": sparse.csr_matrix,
                   "grown": sparse.csc_array}[bind.get_layout()](arr)
        r = ttb.sptenmat.from_array(arr, obj.rindices, obj.cindices, obj.tshape)
        if f != 1.0 and r.vals.size:
            r = ttb.sptenmat(r.subs.copy(), r.vals / f, r.rdims.copy(), r.cdims.copy(), r.tshape)
        return r, bind.alpha(r)
    raise ValueError(op)


QUERIES = ("double", "spmatrix", "nnz")


def admissible(pre: dict, ev: dict, ret: dict, exp: dict) -> str:
    import bind
    if ret.get("kind") != exp.get("kind"):
        return "result-kind"
    k = exp["kind"]
    if k in ("sparse", "sptenmat"):
        w = bind.wf_sparse(ret)
        if w != "ok":
            return w
    if k == "dense" and "data_shape" in ret:
        return "dense-size"
    if k in ("dense", "array"):
        if ret["shape"] != exp["shape"]:
            return "shape"
        return "ok" if ret["v"] == exp["v"] else "denotation-changed"
    if k == "scalar":
        return "ok" if ret["val"] == exp["val"] else "nonzero-count"
    if k == "sparse":
        if ret["shape"] != exp["shape"]:
            return "shape"
        return "ok" if bind.den(ret) == bind.den_any(pre) else "denotation-changed"
    if k == "tenmat":
        if ev["op"] == "copy":
            return "ok" if ret == pre else "copy-differs"
        if ret["tshape"] != exp["tshape"]:
            return "tshape" if ev["op"] != "full" else "mode-split"
        if ret["rdims"] != exp["rdims"] or ret["cdims"] != exp["cdims"]:
            return "mode-split"
        if ret["mshape"] != exp["mshape"]:
            return "matrix-shape" if ev["op"] != "full" else "mode-split"
        if len(ret["m"]) != exp["mshape"][0] or any(len(r) != exp["mshape"][1] for r in ret["m"]):
            return "matrix-shape"
        return "ok" if ret["m"] == exp["m"] else "denotation-changed"
    if k == "sptenmat":
        if ev["op"] == "to_sptenmat":
            if ret["tshape"] != exp["tshape"]:
                return "tshape"
            if ret["rdims"] != exp["rdims"] or ret["cdims"] != exp["cdims"]:
                return "mode-split"
            if ret["mshape"] != exp["mshape"]:
                return "matrix-shape"
        elif (ret["tshape"], ret["rdims"], ret["cdims"]) != (exp["tshape"], exp["rdims"], exp["cdims"]):
            return "mode-split"
        return "ok" if bind.den_any(ret) == bind.den_any(pre) else "denotation-changed"
    return "ok" if ret == pre else "copy-differs"


def site_of(kind: str, op: str) -> str:
    return f"{CLS.get(kind, kind)}.{op}"


def apply_watched(obj, ev):
    """apply, and report an operand whose arrays differ afterwards (conversions and queries are pure)"""
    import c05
    snap = c05.snapshot(obj)
    res, ret = apply(obj, ev)
    if c05.snapshot(obj) != snap:
        return None, {"kind": "operand-changed"}
    if res is not None and c05.aliased(res, obj):
        # a conversion yields an independent object (it may be worked on in place afterwards)
        return None, {"kind": "result-shares-storage"}
    return res, ret


def record(stim: dict) -> dict:
    import bind
    pres = stim.get("pres", {})
    obj = make(stim["init"], pres)
    tr = {"init": stim["init"], "pres": pres, "ev": []}
    for ev in stim["ev"]:
        try:
            res, ret = apply_watched(obj, ev)
        except bind.Inexact as e:
            res, ret = None, {"kind": "inexact", "msg": str(e)[:200]}
        except Exception as e:
            res, ret = None, {"kind": "raised", "msg": f"{type(e).__name__}: {e}"[:200]}
        tr["ev"].append({"op": ev["op"], "args": ev["args"], "ret": ret})
        if ret["kind"] in ("inexact", "raised", "operand-changed", "result-shares-storage"):
            break
        if ev["op"] not in QUERIES:
            obj = res
    return tr


def replay(b: dict) -> dict:
    import bind
    pres = b.get("pres", {})
    traces, divs, nontrivial = [], [], []
    obj = make(b["init"], pres)
    cur = {"init": b["init"], "pres": pres, "ev": []}
    pre = b["init"]
    nev = 0
    for ev in b["ev"]:
        nev += 1
        nontrivial.append(json.dumps([pre, ev["op"], ev["args"]], sort_keys=True))
        try:
            res, ret = apply_watched(obj, ev)
        except bind.Inexact as e:
            res, ret = None, {"kind": "inexact", "msg": str(e)[:200]}
        except Exception as e:
            res, ret = None, {"kind": "raised", "msg": f"{type(e).__name__}: {e}"[:200]}
        cur["ev"].append({"op": ev["op"], "args": ev["args"], "ret": ret})
        why = admissible(pre, ev, ret, ev["ret"])
        is_q = ev["op"] in QUERIES
        if why != "ok":
            divs.append({"site": site_of(pre["kind"], ev["op"]), "why": why, "expected": ev["ret"],
                         "detail": json.dumps(ret)[:300], "trace_index": len(traces),
                         "event": len(cur["ev"])})
            traces.append(cur)
            nxt = pre if is_q else ev["ret"]
            cur = {"init": nxt, "pres": pres, "ev": []}
            obj = make(nxt, pres)
            pre = nxt
        elif not is_q:
            obj = res
            pre = ret      # the spec state is bound to the logged result
    traces.append(cur)
    return {"traces": traces, "divs": divs, "events": nev, "nontrivial": nontrivial}


def main(tier: str) -> int:
    if core.replay_arg():
        return core.replay_file(core.replay_arg(), PROP, "c01", "Convert_Trace")
    out = Outcome(PROP, tier)
    jobs = []
    for s in shapes(tier):
        d = {"ShapeC": tla.tla(list(s))}
        big = len(s) >= 4 and tier != "thorough"
        jobs.append(dict(module="Convert_Gen", cfg_text=cfg(0, True, tier, rich=not big), defs=d, timeout=2400))
        jobs.append(dict(module="Convert_Gen", cfg_text=cfg(1, False, tier, rich=not big), defs=d, timeout=2400))
    # Kruskal / Tucker holders of order 5 and unbalanced order 4 (three or more factors in one Khatri-Rao group)
    for s in ([(2, 2, 2, 2, 2), (2, 3, 2, 7), (2, 50, 3)] if tier == "quick" else [(2, 2, 2, 2, 2), (2, 3, 2, 7), (7, 2, 3, 2), (2, 1, 3, 2, 2), (2, 2, 2, 2, 2, 2), (2, 50, 3), (40, 5)]):
        jobs.append(dict(module="Convert_Gen", cfg_text=cfg(1, False, tier, rich=False, konly=True),
                         defs={"ShapeC": tla.tla(list(s))}, timeout=2400))
    sim_shapes = [(2, 3, 2), (1, 2, 3), (2, 3)] if tier == "quick" else \
        [(2, 3, 2), (1, 2, 3), (3, 2, 1), (2, 2, 2, 2), (2, 3), (3, 3, 2), (2, 3, 4)]
    nsim = 150 if tier == "quick" else 3000
    for s in sim_shapes:
        jobs.append(dict(module="Convert_Gen", cfg_text=cfg(5, False, tier, rich=False),
                         defs={"ShapeC": tla.tla(list(s))}, simulate=f"num={nsim}", depth=8,
                         seed=core.seed() + 1, timeout=2400))
    results = tla.run_many(jobs)
    behaviours = []
    for r in results:
        out.add_tlc(r)
        behaviours += [b for b in r.json if b["ev"]]
    out.notes["behaviours"] = len(behaviours)
    out.notes["shapes"] = [list(s) for s in shapes(tier)]
    from collections import Counter
    out.notes["first_event_per_kind_op"] = {f"{k[0]}.{k[1]}": n for k, n in Counter(
        (b["init"]["kind"], b["ev"][0]["op"]) for b in behaviours).items()}

    def site(tr, k):
        kind = tr["init"]["kind"]
        for e in tr["ev"][:k - 1]:
            if e["op"] not in QUERIES:
                kind = e["ret"]["kind"]
        return site_of(kind, tr["ev"][k - 1]["op"])
    core.pipeline(out, "c01", behaviours, "Convert_Trace", site_of=site)
    out.rule = ("every behaviour of Convert_Gen: shapes in scope x seven object kinds (dense / sparse with all "
                "sparsity-pattern classes and stored orders, Kruskal ranks 1-2, Tucker with dense and sparse "
                "core, sums of mixed parts, tenmat / sptenmat for every ordered mode partition) x every "
                "conversion with every ordered partition (R,C), rdims-only, cdims-only and fc/bc/t forms; "
                "plus simulated conversion chains of depth 5")
    out.exhaustive = True
    out.trusted = ["alpha/gamma in harness/bind.py, make()/apply() in harness/c01.py", "TLC"]
    out.assumptions = ["small scope (DESIGN 2.5): orders <= 4, mode sizes <= 3 (one 2x3x4/2x3x5 shape)",
                       "values are small integers: conversions are parametric in the values"]
    return core.finish(out)


if __name__ == "__main__":
    core.main_wrap(main)
