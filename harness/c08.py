"""C08 — Kruskal re-parameterisations preserve the tensor and reach their normal form (Kruskal*.tla)."""
from __future__ import annotations

import itertools
import json
import warnings
from typing import List

import numpy as np

import core
import tla
from core import Outcome

PROP = "C08"
TOL = 1e-9
EXACT = {"arrange_perm", "redistribute", "extract", "add", "sub", "neg", "scalar", "rscalar", "vec_roundtrip",
         "update_weights", "update_mode", "permute", "copy"}


def mk(K: dict, op: str = ""):
    """the Kruskal tensor K.  Two presentations of the same object are rotated with the array layout (bind.get_layout()):
    * internal factor matrices stored C-ordered - the state normalize(weight_factor=...) leaves behind, or a user
      assigning a plain numpy array to factor_matrices[n];
    * an unevenly balanced parameterisation (first factor scaled by 2^-60 per column, weights by 2^60: exact in binary
      floating point, so the denoted tensor is bit-identical) for the operations whose result is specified by its
      denotation and normal form, not by exact parameters."""
    import bind
    R = len(K["w"])
    U = [np.array(m, dtype=float).reshape(len(m), R) for m in K["U"]]
    w = np.array(K["w"], dtype=float)
    lay = bind.get_layout()
    if lay == "strided" and op and op not in EXACT and op not in ("tovec", "update_weights", "update_mode") and R >= 1 and len(U) >= 2:
        if len(U) >= 3 and op in ("normalize", "arrange", "fixsigns"):
            # every factor huge, the weights tiny: all entries, all column norms and the true weights are ordinary
            # doubles, only the PRODUCT of a component's column norms is not
            e = 1050 // len(U)
            U = [u * 2.0 ** e for u in U]
            w = w * 2.0 ** (-e * len(U))
        else:
            U[0] = U[0] * 2.0 ** -60
            w = w * 2.0 ** 60
    Kt = bind.ttb.ktensor(U, w)
    if lay in ("swapped", "grown"):
        for k in range(len(Kt.factor_matrices)):
            Kt.factor_matrices[k] = np.ascontiguousarray(Kt.factor_matrices[k])
    return Kt


def scalar_of(c, reflected: bool = False):
    """the type of a scalar operand is a presentation (rotated with the array layout), as in harness/c03.py; a numpy
    scalar on the LEFT would take over the operation itself (numpy's own __mul__), so the reflected form keeps Python types"""
    import bind
    v = float(c)
    lay = bind.get_layout()
    if reflected:
        return int(v) if (lay == "grown" and v.is_integer()) else v
    return {"default": float, "swapped": (np.int64 if v.is_integer() else np.float64), "strided": np.float32,
            "grown": (int if v.is_integer() else float)}[lay](v)


def norms(M, nt):
    return np.array([np.linalg.norm(M[:, r], ord=nt) for r in range(M.shape[1])])


def predicates(K, op: str, a: dict, before) -> dict:
    N = K.ndims
    nt = a.get("normtype", 2) if op == "normalize" else 2
    p = {}
    for m in range(3):
        if m < N:
            nm = norms(K.factor_matrices[m], nt)
            # unit columns; a column may be zero only if it was zero in the operand (before: zero columns per mode)
            p[f"unit_{m}"] = bool(np.all((np.abs(nm - 1) <= TOL) | (nm <= TOL))) and \
                (before is None or int(np.sum(nm <= TOL)) <= before[m])
        else:
            p[f"unit_{m}"] = True
    w = K.weights
    p["weights_nonneg"] = bool(np.all(w >= -TOL))
    p["sorted_desc"] = bool(np.all(np.diff(w) <= TOL))
    p["weights_one"] = bool(np.all(np.abs(w - 1) <= TOL))
    allnm = np.array([norms(f, nt) for f in K.factor_matrices])
    p["col_norms_equal_across_modes"] = bool(np.all(np.abs(allnm - allnm[0:1, :]) <= 1e-8 * np.maximum(1, allnm[0:1, :]))
                                             or np.any(np.prod(allnm, axis=0) <= TOL))
    wf = a.get("wfmode", -1)
    if op == "arrange" and wf is not None and wf >= 0:
        nm = norms(K.factor_matrices[wf], 2)
        p["absorbed_sorted_desc"] = bool(np.all(np.diff(nm) <= 1e-8 * np.maximum(1, nm[:-1])))
    else:
        p["absorbed_sorted_desc"] = True
    neg = 0
    ok = True
    for r in range(K.ncomponents):
        neg = 0
        for f in K.factor_matrices:
            col = f[:, r]
            if np.max(np.abs(col)) > 0 and col[np.argmax(np.abs(col))] < 0:
                neg += 1
        ok = ok and neg <= 1
    p["largest_entries_positive_where_possible"] = bool(ok)
    p["list_reproduces_tensor"] = True
    p["score_is_one"] = True
    p["permutation_recovered"] = True
    return p


def call(op: str, a: dict) -> dict:
    import bind
    ttb = bind.ttb
    try:
        with warnings.catch_warnings():
            warnings.simplefilter("ignore")
            K = mk(a["K"], op)
            I = lambda x: np.array(x, dtype=int)
            res = K
            extra = {}
            zero_cols = [int(np.sum(np.all(f == 0, axis=0))) for f in K.factor_matrices]
            if op == "normalize":
                wf = None if a["wf"] == "none" else ("all" if a["wf"] == "all" else a["wfmode"])
                if a["mode"] >= 0:
                    K.normalize(normtype=a["normtype"], mode=a["mode"])
                else:
                    K.normalize(weight_factor=wf, sort=bool(a["sort"]), normtype=a["normtype"])
            elif op == "arrange":
                K.arrange(weight_factor=(None if a["wfmode"] < 0 else a["wfmode"]))
            elif op == "arrange_perm":
                # the documented forms of a permutation: tuple, list, array (rotated with the array layout)
                form = {"default": I, "swapped": list, "strided": tuple, "grown": tuple}[bind.get_layout()]
                K.arrange(permutation=form(a["perm"]))
            elif op == "fixsigns":
                K.fixsigns()
            elif op == "fixsigns_ref":
                ref = mk(a["K"])
                for m, r in a["flips"]:
                    ref.factor_matrices[m - 1][:, r - 1] *= -1
                K.fixsigns(ref)
            elif op == "redistribute":
                K.redistribute(a["mode"])
            elif op == "extract":
                res = K.extract(I(a["idx"]) if len(a["idx"]) > 1 else (np.int64(a["idx"][0]) if bind.get_layout() == "swapped" else int(a["idx"][0])))
            elif op == "permute":
                res = K.permute(I(a["order"]))
            elif op == "tovec":
                v = K.tovec(bool(a["withW"]))
                return {"st": "ok", "vec": [bind.num(x) for x in v]}
            elif op == "vec_roundtrip":
                # the vector stays with the caller (an optimiser's iterate) and a second object is built from it:
                # re-parameterising one object may change neither the vector nor the other object
                vec = K.tovec(True)
                res = ttb.ktensor.from_vector(vec, K.shape, True)
                twin = ttb.ktensor.from_vector(vec, K.shape, True)
                extra["_vec"] = (vec, vec.copy(), twin, twin.full().data.copy())
                v2 = ttb.ktensor.from_vector(K.tovec(False), K.shape, False)
                if not all(np.array_equal(x, y) for x, y in zip(v2.factor_matrices, K.factor_matrices)):
                    return {"st": "roundtrip-without-weights-differs"}
            elif op == "copy":
                res = K.copy()
            elif op == "tolist":
                L = K.tolist()
                K2 = ttb.ktensor([np.array(x) for x in L])
                extra["list_reproduces_tensor"] = bool(np.allclose(K2.full().data, K.full().data, atol=1e-8))
                L0 = K.tolist(np.int64(0) if bind.get_layout() == "swapped" else 0)
                K3 = ttb.ktensor([np.array(x) for x in L0])
                extra["list_reproduces_tensor"] = extra["list_reproduces_tensor"] and bool(
                    np.allclose(K3.full().data, mk(a["K"]).full().data, atol=1e-8))
            elif op == "score_self":
                R = K.ncomponents
                A = mk(a["K"]).normalize()
                applicable = bool(np.all(np.abs(A.weights) > 1e-9)) and len({round(float(x), 9) for x in A.weights}) == R
                if applicable and R >= 1:
                    perm = np.roll(np.arange(R), 1)
                    B = mk(a["K"])
                    B.arrange(permutation=perm)
                    score, An, flag, best = K.score(B)
                    extra["score_is_one"] = bool(abs(score - 1) <= 1e-8)
                    extra["permutation_recovered"] = bool(np.array_equal(np.asarray(best)[:R], perm))
                extra["_score_applicable"] = applicable
            elif op in ("add", "sub"):
                O = mk(a["other"])
                res = K + O if op == "add" else K - O
            elif op == "neg":
                res = -K
            elif op == "scalar":
                res = K * scalar_of(a["c"])
            elif op == "rscalar":
                res = scalar_of(a["c"], reflected=True) * K
            elif op == "update_weights":
                K.update(-1, np.array(a["data"], dtype=float))
            elif op == "update_mode":
                K.update(a["mode"], np.array(a["data"], dtype=float))
            else:
                raise ValueError(op)
            F = res.full()
            den = {"shape": [int(s) for s in F.shape], "v": bind.flatF(F.data)}
            out = {"st": "ok", "den": den, "preds": predicates(res, op, a, zero_cols if op in (
                "normalize", "arrange", "arrange_perm", "fixsigns", "fixsigns_ref", "redistribute") else None)}
            out["preds"]["operand_unchanged_after_reparameterising_result"] = True
            if op in ("extract", "permute", "copy", "add", "sub", "neg", "scalar", "rscalar", "vec_roundtrip"):
                F0 = K.full().data.copy()
                if op in EXACT:
                    out["params"] = {"w": [bind.num(x) for x in res.weights], "U": [bind.matrix(f) for f in res.factor_matrices]}
                res.normalize(sort=True)
                res.redistribute(0)
                out["preds"]["operand_unchanged_after_reparameterising_result"] = bool(
                    np.allclose(K.full().data, F0, atol=1e-9))
                if "_vec" in extra:
                    vec, vec0, twin, twin0 = extra["_vec"]
                    out["preds"]["operand_unchanged_after_reparameterising_result"] &= bool(
                        np.array_equal(vec, vec0) and np.array_equal(twin.full().data, twin0))
            for k, v in extra.items():
                if not k.startswith("_"):
                    out["preds"][k] = v
            if op in EXACT and "params" not in out:
                out["params"] = {"w": [bind.num(x) for x in res.weights], "U": [bind.matrix(f) for f in res.factor_matrices]}
            return out
    except bind.Inexact as e:
        return {"st": "inexact", "msg": str(e)[:150]}
    except Exception as e:
        return {"st": "raised", "msg": f"{type(e).__name__}: {e}"[:150]}


SITE = {"normalize": "ktensor.normalize", "arrange": "ktensor.arrange", "arrange_perm": "ktensor.arrange(permutation)",
        "fixsigns": "ktensor.fixsigns", "fixsigns_ref": "ktensor.fixsigns(other)", "redistribute": "ktensor.redistribute",
        "extract": "ktensor.extract", "permute": "ktensor.permute", "tovec": "ktensor.tovec",
        "vec_roundtrip": "ktensor.from_vector", "copy": "ktensor.copy", "tolist": "ktensor.tolist",
        "score_self": "ktensor.score", "add": "ktensor.__add__", "sub": "ktensor.__sub__", "neg": "ktensor.__neg__",
        "scalar": "ktensor.__mul__", "rscalar": "ktensor.__rmul__", "update_weights": "ktensor.update",
        "update_mode": "ktensor.update"}


def record(stim: dict) -> dict:
    return {"init": {}, "ev": [{"op": e["op"], "args": e["args"], "ret": call(e["op"], e["args"])} for e in stim["ev"]]}


def replay(b: dict) -> dict:
    tr = {"init": {}, "ev": []}
    divs, nontrivial = [], []
    for i, st in enumerate(b["ev"]):
        ret = call(st["op"], st["a"])
        tr["ev"].append({"op": st["op"], "args": st["a"], "ret": ret})
        nontrivial.append(json.dumps([st["op"], st["a"]], sort_keys=True))
        divs.append({"site": SITE[st["op"]], "why": "candidate", "expected": None, "detail": json.dumps(ret)[:250],
                     "trace_index": 0, "event": i + 1})
    return {"traces": [tr], "divs": divs, "events": len(b["ev"]), "nontrivial": nontrivial}


def tags_of(tr: dict, k: int) -> List[str]:
    ev = tr["ev"][k - 1]
    a = ev["args"]
    tags = []
    if ev["op"] == "fixsigns_ref":
        R = len(a["K"]["w"])
        N = len(a["K"]["U"])
        # per component: number of modes whose column is negated in the reference (and non-zero)
        odd = False
        for r in range(1, R + 1):
            cnt = 0
            for m in range(1, N + 1):
                col = [row[r - 1] for row in a["K"]["U"][m - 1]]
                if [m, r] in a["flips"] and any(col):
                    cnt += 1
            if cnt % 2 == 1:
                odd = True
        if odd:
            tags.append("odd_number_of_negatively_correlated_modes_in_a_component")
    return tags


def shapes(tier: str):
    if tier == "thorough":
        return [(2,), (3,), (2, 3), (3, 2), (2, 2), (1, 2), (2, 3, 2), (3, 2, 2), (2, 1, 3)]
    return [(3,), (2, 3), (2, 2), (2, 3, 2)]


def main(tier: str) -> int:
    if core.replay_arg():
        return core.replay_file(core.replay_arg(), PROP, "c08", "Kruskal_Trace")
    out = Outcome(PROP, tier)
    jobs = [dict(module="Kruskal_Gen", cfg_text="SPECIFICATION Spec\nINVARIANT ParamLaw\nINVARIANT VecLaw\n",
                 defs={"ShapeC": tla.tla(list(s))}, timeout=3000) for s in shapes(tier)]
    results = tla.run_many(jobs)
    stimuli = []
    for r in results:
        out.add_tlc(r)
        stimuli += r.json
    if tier == "quick":
        fr = [s for s in stimuli if s["op"] == "fixsigns_ref"]
        rest = [s for s in stimuli if s["op"] != "fixsigns_ref"]
        stimuli = rest + fr[::4]
    behaviours = [{"ev": stimuli[i:i + 40]} for i in range(0, len(stimuli), 40)]
    from collections import Counter
    out.notes["calls_per_op"] = dict(Counter(s["op"] for s in stimuli))
    core.pipeline(out, "c08", behaviours, "Kruskal_Trace", lock_mode="superset", chunk=300,
                  site_of=lambda tr, k: SITE[tr["ev"][k - 1]["op"]], tags_of=tags_of)
    out.rule = ("every call of Kruskal_Gen: shapes with 1-3 modes, ranks 1-3, 11 weight vectors (both signs, zero, "
                "ties) x 3 column selections from a catalogue with zero columns and rational 1-/2-norms; normalize over "
                "every weight_factor (none, each mode, 'all') x sort x normtype x single mode; arrange (plain, "
                "absorbing, every permutation); fixsigns alone and against every (bounded) sign-flipped reference; "
                "redistribute; extract of every component list; permute; vector / list round trips; update; + - "
                "unary- scalar*; self-score under a cyclic component permutation")
    out.exhaustive = True
    out.trusted = ["numpy observation of normal-form predicates (tolerance 1e-9) in harness/c08.py", "TLC"]
    out.assumptions = ["denotations are compared after rounding the real full() to integers (error <= 1e-9 enforced); "
                       "irrational normalisation constants are never compared exactly"]
    return core.finish(out)


if __name__ == "__main__":
    core.main_wrap(main)
