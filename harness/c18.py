"""C18 — decomposition results do not depend on how the problem is presented (spec: Presentation*.tla)."""
from __future__ import annotations

import contextlib
import io
import json
import logging
import warnings
from typing import List

import numpy as np

import core
import tla
from core import Outcome

PROP = "C18"
BASE_ORDER = {2: [1, 0], 3: [1, 0, 2], 4: [2, 0, 3, 1]}


def e9(x):
    x = float(x)
    return 2000000000 if x != x else int(min(abs(x) * 1e9, 2e9))


def np_full_k(w, U):
    R = len(w)
    out = 0
    for r in range(R):
        t = np.asarray(w[r], dtype=float)
        for M in U:
            t = np.multiply.outer(t, M[:, r])
        out = out + t
    return np.asarray(out)


def np_full_t(coreA, U):
    t = np.asarray(coreA, dtype=float)
    for k, M in enumerate(U):
        t = np.moveaxis(np.tensordot(M, t, axes=(1, k)), 0, k)
    return t


def base_problem(alg: str, q: dict):
    """the problem's denotation: dense data, factor start, options"""
    rng = np.random.RandomState(q["dseed"])
    shape = tuple(q["shape"])
    R = q["rank"]
    if alg.startswith("cp_apr"):
        U = [rng.rand(s, R) + 0.1 for s in shape]
        Xd = rng.poisson(np_full_k(np.ones(R) * 6, U)).astype(float)
        if q.get("empty_slice"):
            idx = [slice(None)] * len(shape)
            idx[1] = 0
            Xd[tuple(idx)] = 0
    else:
        Xd = rng.rand(*shape)
        Xd[rng.rand(*shape) < 0.35] = 0.0
        Xd = np.round(Xd * 8)                # integer-valued data: exact under scaling by 2, 1/4; storable as int64
        if q.get("sparse_mode") and max(shape) >= 4 and len(shape) >= 3:
            # a sparsely populated mode: the upper half of the slices of the longest mode holds no data (sparse
            # holders then answer their single-mode products in sparse form)
            k = int(np.argmax(shape))
            idx = [slice(None)] * len(shape)
            idx[k] = slice(shape[k] // 2, None)
            Xd[tuple(idx)] = 0
    r2 = np.random.RandomState(q["dseed"] + 17)
    if alg in ("hosvd", "tucker_als"):
        # unequal ranks, but none larger than the product of the others (beyond that the extra factor columns are
        # arbitrary null-space vectors of an iterative eigensolver and the run is not reproducible even with itself)
        N_ = len(shape)
        pat = {2: [2, 2], 3: [[1, 2, 2], [2, 1, 2], [2, 2, 1]][q["dseed"] % 3], 4: [[1, 2, 2, 1], [2, 1, 1, 2]][q["dseed"] % 2]}.get(N_, [2] * N_)
        ranks = [min(s, r) for s, r in zip(shape, pat)]
        if any(r > int(np.prod(ranks)) // r for r in ranks):
            ranks = [min(s, 2) for s in shape]
        start = [r2.rand(s, k) for s, k in zip(shape, ranks)]
    else:
        ranks = R
        start = [r2.rand(s, R) + 0.1 for s in shape]
        if q.get("zero_row"):
            # an inadmissible zero in the guess (an all-zero row at an index whose data slice is not empty): the
            # algorithm has to revive it, and it has to do so in the same way for every holder of the data
            start[0][0, :] = 0.0
    return Xd, start, ranks


def run(alg: str, q: dict, p: dict, shared: dict = None):
    import bind
    ttb = bind.ttb
    shared = {} if shared is None else shared

    def same_object(key, make):
        # "the same starting guess" is literally the same object for every run of one problem that uses the same
        # mode labelling (what a user comparing presentations does); a run may not leave anything behind in it
        k = (key, tuple(p["perm"]))
        if k not in shared:
            shared[k] = make()
        return shared[k]
    Xd, start, ranks = base_problem(alg, q)
    N = Xd.ndim
    perm = list(p["perm"])
    inv = list(np.argsort(perm))
    c = p["scale"][0] / p["scale"][1]
    Y = np.transpose(Xd * c, perm).copy()
    if p.get("dtype", "float") == "int":
        assert np.all(Y == np.round(Y))
        Y = Y.astype(np.int64)
    X = ttb.tensor(Y)
    if alg == "hosvd" and p.get("dtype", "float") == "int":
        # the decomposition is homogeneous: the same counts times 60 kept in 16 bits (every entry fits, their products
        # do not); the factor is taken out of the result again
        X = ttb.tensor((Y * 60).astype(np.int16))
        c = c * 60
    if p["holder"] == "sparse":
        X = X.to_sptensor()
    order = [inv[m] for m in BASE_ORDER[N]]
    st = [start[perm[k]] for k in range(N)]
    prn = p["printitn"]
    np.random.seed(4242 + p["seed"])
    logging.disable(logging.CRITICAL)
    try:
        with contextlib.redirect_stdout(io.StringIO()), warnings.catch_warnings(), np.errstate(all="ignore"):
            warnings.simplefilter("ignore")
            if alg == "cp_als":
                init = same_object("k", lambda: ttb.ktensor([a.copy() for a in st], np.ones(ranks))) if p["start"] == "given" else "random"
                kw = {}
                if q.get("fixed", -1) >= 0:
                    # one mode (named in the original labelling) is held fixed: the optimised modes in the relabelled problem
                    kw["optdims"] = np.array([inv[m] for m in range(N) if m != q["fixed"]], dtype=int)
                M, _, out = ttb.cp_als(X, ranks, stoptol=0.0, maxiters=q["maxiters"], dimorder=order, init=init, printitn=prn, **kw)
                full, fit, iters = np_full_k(M.weights, M.factor_matrices), out["fit"], out["iters"]
            elif alg.startswith("cp_apr"):
                init = same_object("k", lambda: ttb.ktensor([a.copy() for a in st], np.ones(ranks))) if p["start"] == "given" else "random"
                M, _, out = ttb.cp_apr(X, ranks, algorithm=alg[7:], stoptol=1e-4, maxiters=q["maxiters"], init=init,
                                       maxinneriters=q.get("maxinner", 3), printitn=prn, printinneritn=prn,
                                       stoptime=(0.0 if q.get("stoptime0") else 1e6))
                full, fit = np_full_k(M.weights, M.factor_matrices), out["obj"]
                iters = int(np.asarray(out["kktViolations"]).size)
            elif alg == "tucker_als":
                rk = [ranks[perm[k]] for k in range(N)]
                init = same_object("l", lambda: [a.copy() for a in st]) if p["start"] == "given" else "random"
                T, _, out = ttb.tucker_als(X, rk, stoptol=0.0, maxiters=q["maxiters"], dimorder=order, init=init, printitn=prn)
                full, fit, iters = np_full_t(T.core.data if hasattr(T.core, "data") else T.core.full().data, T.factor_matrices), out["fit"], out["iters"]
            elif alg == "hosvd":
                T = ttb.hosvd(X, q.get("tol", 0.3), verbosity=[0, 1, 5, 11][prn], dimorder=order, sequential=bool(q.get("sequential", True)))
                full = np_full_t(T.core.data, T.factor_matrices)
                fit, iters = 0.0, int(sum((k + 1) * s for k, s in enumerate([T.core.shape[inv[m]] for m in range(N)])))
            else:
                from pyttb.gcp.handles import Objectives
                from pyttb.gcp.optimizers import LBFGSB
                init = ttb.ktensor([a.copy() for a in st], np.ones(ranks)) if p["start"] == "given" else "random"
                opt = LBFGSB(maxiter=q["maxiters"], iprint=-1)
                if p["seed"] >= 1:
                    # the option object has a history: it has already solved another problem (of another size);
                    # the same options are the same options whatever the object was used for before
                    Z = ttb.tensor(np.arange(1.0, 61.0).reshape((5, 4, 3)) % 7)
                    ttb.gcp_opt(Z, 2, Objectives.GAUSSIAN, opt, init=ttb.ktensor([np.ones((5, 2)), np.ones((4, 2)) * 0.5, np.eye(3, 2) + 0.25], np.ones(2)), printitn=0)
                M, _, info = ttb.gcp_opt(X, ranks, Objectives.GAUSSIAN, opt, init=init, printitn=prn)
                full, fit, iters = np_full_k(M.weights, M.factor_matrices), info["final_f"], info["nit"]
    finally:
        logging.disable(logging.NOTSET)
    full = np.transpose(full, inv) / c
    return full, float(fit), int(iters)


def problem_trace(b: dict) -> dict:
    alg, q = b["alg"], b["q"]
    N = len(q["shape"])
    evs = [{"op": "problem", "args": {"alg": alg, "N": N}}]
    base = {"holder": "dense", "printitn": 0, "seed": 0, "scale": [1, 1], "perm": list(range(N)), "start": b["start"], "dtype": "float"}
    ref = None
    shared = {}
    for p in [base] + b["pres"]:
        try:
            full, fit, iters = run(alg, q, p, shared)
            if ref is None:
                ref = (full, fit, iters)
            d = np.linalg.norm(full - ref[0]) / max(np.linalg.norm(ref[0]), 1e-300)
            if fit == ref[1]:
                fd = 0.0
            else:
                fd = abs(fit - ref[1]) / max(1.0, abs(ref[1]))
            obs = {"st": "ok", "dist9": e9(d), "fit_dev9": e9(fd), "iters": iters}
        except Exception as e:
            obs = {"st": "raised:" + type(e).__name__ + ":" + str(e)[:80]}
            if ref is None:
                evs.append({"op": "run", "args": p, "ret": obs})
                break
        evs.append({"op": "run", "args": p, "ret": obs})
    return {"init": {}, "b": b, "ev": evs}


def replay(b: dict) -> dict:
    tr = problem_trace(b)
    return {"traces": [tr], "divs": [{"site": "s", "why": "candidate", "trace_index": 0, "event": i + 1} for i in range(len(tr["ev"]))],
            "events": len(tr["ev"]), "nontrivial": [json.dumps([b["alg"], b["q"], p], sort_keys=True) for p in b["pres"]]}


def record(stim: dict) -> dict:
    return problem_trace(stim["b"])


def site_of(tr, k):
    return tr["b"]["alg"]


def tags_of(tr, k):
    ev = tr["ev"][k - 1]
    tags = []
    if tr["b"]["q"].get("empty_slice"):
        tags.append("data_with_empty_slice")
    return tags


KMODEL = "[w |-> <<2, 0 - 1>>, U |-> <<<< <<1, 2>>, <<0, 3>> >>, << <<1, 1>>, <<2, 0>>, <<0 - 1, 1>> >>, << <<1, 0>>, <<1, 2>> >> >>]"
TMODEL = ("[core |-> [shape |-> <<2, 1, 2>>, v |-> <<1, 0 - 2, 3, 1>>], "
          "U |-> <<<< <<1, 2>>, <<0, 3>> >>, << <<2>>, <<1>>, <<0 - 1>> >>, << <<1, 0>>, <<1, 2>> >> >>]")


def main(tier: str) -> int:
    rp = core.replay_arg()
    if rp:
        return core.replay_file(rp, PROP, "c18", "Presentation_Trace")
    out = Outcome(PROP, tier)
    sd = core.seed()
    big = tier != "quick"
    jobs = []
    for N in (3, 2, 4):
        jobs.append(dict(module="Presentation_Gen", cfg_text="SPECIFICATION GSpec\nCONSTANTS\n N = %d\n Two = %s\n%s" %
                         (N, "TRUE" if big and N == 3 else "FALSE", "INVARIANT Laws\n" if N == 3 else ""),
                         defs={"KModel": KMODEL, "TModel": TMODEL}, workers=4))
    gens = tla.run_many(jobs)
    byN = {}
    for j, g in zip(jobs, gens):
        out.add_tlc(g)
        for rec in g.json:
            byN.setdefault(len(rec["pres"]["perm"]), []).append(rec)
    shapes = {2: [[4, 3]], 3: [[3, 4, 2], [2, 3, 3]], 4: [[2, 3, 2, 2]]}
    behaviours = []
    for N, recs in sorted(byN.items()):
        for alg in sorted({r["alg"] for r in recs}):
            for start in ("given", "random"):
                pres = [r["pres"] for r in recs if r["alg"] == alg and r["pres"]["start"] == start]
                pres = [p for p in pres if not (p["holder"] == "dense" and p["printitn"] == 0 and p["scale"] == [1, 1]
                                                and p["perm"] == list(range(N)) and p["dtype"] == "float")]
                # a rerun in the base presentation with the same seed is part of every problem
                if not pres:
                    continue
                if N == 4 and not big:          # quick tier: a sample of the 23 relabellings of four modes
                    nonid = [p for p in pres if p["perm"] != list(range(N))]
                    pres = [p for p in pres if p["perm"] == list(range(N))] + nonid[sd % 5::6]
                pres = [{"holder": "dense", "printitn": 0, "seed": 0, "scale": [1, 1], "perm": list(range(N)), "start": start,
                         "dtype": "float"}] + pres
                for si, shape in enumerate(shapes[N]):
                    for rep in range(2 if big else 1):
                        for mi in ((1, 2, 3) if (big or alg == "hosvd") else (2, 3)):
                            # hosvd does not iterate; mi only selects the tolerance (mi = 1: 0.05, so that small eigenvalues
                            # decide the ranks - under the scale presentations 1e-6 / 1e6 they are tiny / huge in absolute terms)
                            if alg == "hosvd" and mi == 3 and not big:
                                continue
                            q = {"shape": shape, "rank": 2, "dseed": sd + 3 * si + rep + mi, "maxiters": mi,
                                 "maxinner": [1, 3, 10][(mi + rep) % 3], "empty_slice": bool((mi + si) % 2 == 0 and alg.startswith("cp_apr")),
                                 "zero_row": bool((mi + si + rep) % 3 != 0 and alg.startswith("cp_apr")),
                                 "stoptime0": bool((mi + si + rep) % 2 == 1 and alg.startswith("cp_apr")),
                                 "sparse_mode": bool((mi + si + rep) % 2 == 0 and alg == "cp_als"),
                                 "fixed": ((mi + si + rep) % len(shape) if (alg == "cp_als" and len(shape) >= 3 and (mi + rep) % 2 == 1) else -1),
                                 "tol": [0.3, 0.05, 0.6][mi % 3], "sequential": bool((mi + rep) % 2)}
                            behaviours.append({"alg": alg, "q": q, "start": start, "pres": pres})
    # long L-BFGS-B runs (stopped by a convergence test, not by the iteration limit): a fresh option object against one
    # that has already solved another problem; nothing else differs, so the two runs are the same computation
    gcp_alg = sorted({r["alg"] for rs in byN.values() for r in rs if "gcp" in r["alg"]})
    for alg in gcp_alg:
        for si, shape in enumerate([[3, 4, 2], [4, 3], [2, 3, 2, 2]]):
            base = {"holder": "dense", "printitn": 0, "seed": 0, "scale": [1, 1], "perm": list(range(len(shape))), "start": "given",
                    "dtype": "float"}
            for mi in ((40, 200) if big else (120,)):
                q = {"shape": shape, "rank": 2, "dseed": sd + 5 * si + mi, "maxiters": mi, "maxinner": 3, "empty_slice": False,
                     "zero_row": False, "tol": 0.3, "sequential": True}
                behaviours.append({"alg": alg, "q": q, "start": "given", "pres": [base, dict(base, seed=1), dict(base, seed=1, printitn=1)]})
    out.notes["problems"] = len(behaviours)
    out.notes["presentations_per_problem"] = {f"{N}": len(v) for N, v in byN.items()}
    core.pipeline(out, "c18", behaviours, "Presentation_Trace", lock_mode="superset", chunk=20, site_of=site_of, tags_of=tags_of)
    out.rule = ("TLC enumerates, per algorithm (cp_als, cp_apr mu/pdnr/pqnr, hosvd, tucker_als, gcp_opt+L-BFGS-B), every admissible "
                "presentation differing from the base in one coordinate (holder, printing interval 0..3, scale 2, 1/4, 3, 1e-6, 1e6, every mode "
                "relabelling; thorough: printing combined with another coordinate) for N = 2, 3, 4 (quick: a sample of the relabellings of four modes), given and random "
                "starts; Transform laws (relabel / scale a Kruskal or Tucker model = relabel / scale its denotation, order "
                "relabelling) checked on integer models; each presentation run on the real algorithm and compared with the base run")
    out.exhaustive = False
    out.trusted = ["numpy reconstruction / distance in harness/c18.py", "TLC"]
    out.assumptions = ["'up to rounding' = 1e-6 relative after a fixed small number of iterations (stoptol 0; cp_apr at its default 1e-4, since iterating a row sub-problem far below rounding level amplifies rounding through the quasi-Newton pairs)"]
    return core.finish(out)


if __name__ == "__main__":
    core.main_wrap(main)
