"""C02 — multilinear products equal their definition in every representation (spec: Products*.tla)."""
from __future__ import annotations

import itertools
import json
from typing import List

import numpy as np

import core
import tla
from core import Outcome

PROP = "C02"
LAWS = ["CanonicalOk", "TtmLaw", "MttkrpLaw", "KrLaw", "InnerLaw", "CollapseLaw", "ContractLaw", "TtvLaw"]
CLS = {"dense": "tensor", "sparse": "sptensor", "ktensor": "ktensor", "ttensor": "ttensor",
       "sum": "sumtensor"}
TENSOR_KINDS = ("dense", "sparse", "ktensor", "ttensor", "sum")


def shapes(tier: str):
    """(shape, rich)"""
    if tier == "thorough":
        all3 = [s for n in (1, 2, 3) for s in itertools.product((1, 2, 3), repeat=n)]
        return [(s, True) for s in all3] + [((2, 2, 2, 2), False), ((2, 1, 3, 2), False),
                                            ((2, 3, 2, 2), False), ((3, 2, 2, 3), False)]
    return [((3,), True), ((2, 3), True), ((3, 3), True), ((2, 1), True), ((2, 3, 2), True),
            ((1, 2, 3), True), ((2, 2, 2), True), ((2, 3, 2, 2), False)]


def cfg(rich: bool, laws: bool = True, ops=(), kinds=()) -> str:
    st = lambda xs: "{" + ", ".join(f'"{x}"' for x in xs) + "}"
    return ("SPECIFICATION Spec\nCONSTANTS\n Rich = %s\n Ops = %s\n Kinds = %s\n"
            % ("TRUE" if rich else "FALSE", st(ops), st(kinds))
            + "".join(f"INVARIANT {x}\n" for x in (LAWS if laws else LAWS[:1])))


BIG_OPS = ("mttkrp", "mttkrps", "ttv", "innerprod", "normsq", "contract")


def make(v: dict, pres: dict):
    import bind
    if v["kind"] == "ttensor":
        return bind.g_ttensor(v, sparse_core=bool(pres.get("sparse_core")))
    if v["kind"] == "sum":
        return bind.ttb.sumtensor([make(p, pres) for p in v["parts"]])
    return bind.gamma(v)


def project(r):
    """real result -> spec value with uniform kinds (any ndarray is an 'array')."""
    import bind
    if isinstance(r, np.ndarray):
        return {"kind": "array", "shape": [int(s) for s in r.shape], "v": bind.flatF(r)}
    if isinstance(r, list):
        return {"kind": "matrices", "ms": [bind.matrix(m) for m in r]}
    return bind.alpha(r)


def apply(obj, ev: dict):
    import bind
    ttb = bind.ttb
    op, a = ev["op"], ev["args"]
    # element type of the multiplicands (their values are integers): a presentation, rotated with the array layout;
    # a single vector is also handed over bare (not wrapped in a list), as the documentation allows
    f = {"default": float, "swapped": np.int64, "strided": np.float32, "grown": np.int32}[bind.get_layout()]
    fk = float          # Kruskal operands document float factor matrices

    def dimkw():
        d = np.array(a["dims"], dtype=int)
        return {"exclude_dims": d} if a["excl"] else {"dims": d}
    if op == "ttv":
        vecs = [bind.lay(np.array(v, dtype=f)) for v in a["vecs"]]
        if len(vecs) == 1 and bind.get_layout() in ("strided", "grown"):
            return obj.ttv(vecs[0], **dimkw())
        return obj.ttv(vecs, **dimkw())
    if op == "ttm":
        return obj.ttm([bind.lay(np.array(m, dtype=f)) for m in a["mats"]], transpose=bool(a["transp"]), **dimkw())
    if op in ("mttkrp", "mttkrps"):
        U = [bind.lay(np.array(m, dtype=(fk if a["asK"] else f))) for m in a["U"]]
        hair = 1.0
        if a["asK"] and op == "mttkrp" and fk not in (np.int64, np.int32) and (a["n"] + len(a["w"])) % 2 == 0:
            # another parameterisation of the same Kruskal operand times g = 1 + 2^-20: every weight is g (a hair away from
            # one - not "no weights") and the weights proper sit in the columns of a factor other than the one left out.
            # mttkrp is linear in the operand, g is taken out of the result again (all values are integers times g: exact)
            hair = 1.0 + 2.0 ** -20
            k = (a["n"] + 1) % len(U)
            U[k] = bind.lay(np.array(np.asarray(U[k], dtype=float) * np.array(a["w"], dtype=float)[None, :]))
            U = ttb.ktensor(U, np.full(len(a["w"]), hair))
        elif a["asK"]:
            U = ttb.ktensor(U, np.array(a["w"], dtype=fk))
        if isinstance(obj, (ttb.tensor, ttb.sptensor)) and not a["asK"] and f in (np.int64, np.int32):
            # the products are linear in the tensor: integer-typed factor matrices against a tensor holding halves
            # (X = 2 (X / 2)); the factor 2 is put back by the harness
            half = ttb.tensor(obj.data * 0.5) if isinstance(obj, ttb.tensor) else \
                (ttb.sptensor(obj.subs.copy(), obj.vals * 0.5, obj.shape) if obj.nnz else obj)
            if op == "mttkrp":
                return np.asarray(half.mttkrp(U, a["n"])) * 2.0
            return [np.asarray(m) * 2.0 for m in half.mttkrps(U)]
        if hair != 1.0:
            return np.asarray(obj.mttkrp(U, a["n"])) / hair
        return obj.mttkrp(U, a["n"]) if op == "mttkrp" else obj.mttkrps(U)
    if op == "ttt":
        other = bind.gamma(a["other"])
        if len(a["xd"]) == 0:
            return obj.ttt(other)
        return obj.ttt(other, np.array(a["xd"], dtype=int), np.array(a["yd"], dtype=int))
    if op == "ttsv":
        return obj.ttsv(np.array(a["vec"], dtype=f), None if a["skip"] < 0 else a["skip"], a["version"])
    if op == "innerprod":
        return obj.innerprod(make(a["other"], {}))
    if op == "normsq":
        scaled = None
        if isinstance(obj, bind.ttb.tensor) and obj.data.dtype.kind in "iu" and obj.data.size:
            # the norm is homogeneous: ||c X|| = |c| ||X||.  For integer-typed data the scaled entries still fit the
            # element type while their squares do not (c = 100 for 16-bit, 10000 for wider types)
            c = 100 if obj.data.dtype.itemsize <= 2 else 10000
            if np.max(np.abs(obj.data.astype(np.int64))) * c <= np.iinfo(obj.data.dtype).max:
                scaled = float(bind.ttb.tensor(obj.data * obj.data.dtype.type(c)).norm()) / c
        x = float(obj.norm()) if scaled is None else scaled
        if isinstance(obj, bind.ttb.ktensor) and obj.ncomponents >= 1:
            # the difference of two parameterisations of one Kruskal tensor denotes the zero tensor: its norm is a
            # rounding residue of either sign under the square root, never "not a number"
            for c in (3.0, 0.1, 0.7, 1.9, 1e-3, 7.3, 0.37):
                other = obj.copy()
                other.factor_matrices[0] = other.factor_matrices[0] * c
                other.factor_matrices[-1] = other.factor_matrices[-1] * (c + 0.2)
                other.weights = other.weights / c / (c + 0.2)
                z = float((obj - other).norm())
                if z != z or z > 1e-6 * (1.0 + abs(x)):
                    raise bind.Inexact(f"norm of a Kruskal tensor that denotes zero = {z!r}")
        n2 = x * x
        r = round(n2)
        if abs(n2 - r) > 1e-6 * max(1.0, abs(n2)):
            raise bind.Inexact(f"norm^2 = {n2!r} is not an integer")
        return int(r)
    if op == "contract":
        # a trace is a sum: homogeneous, so for data of a narrow integer type the entries are scaled to the top of the type
        arr = obj.data if isinstance(obj, ttb.tensor) else obj.vals if isinstance(obj, ttb.sptensor) else None
        if not a.get("scaled") and arr is not None and arr.size and arr.dtype.kind in "iu" and arr.dtype.itemsize <= 2 \
                and np.max(np.abs(arr.astype(np.int64))) > 0:
            cf = int(np.iinfo(arr.dtype).max // np.max(np.abs(arr.astype(np.int64))))
            c = arr.dtype.type(cf)
            big = ttb.tensor(obj.data * c) if isinstance(obj, ttb.tensor) else ttb.sptensor(obj.subs.copy(), obj.vals * c, obj.shape)
            r = apply(big, dict(ev, args=dict(a, scaled=True)))
            if isinstance(r, ttb.tensor):
                return ttb.tensor(r.data / float(cf))
            if isinstance(r, ttb.sptensor):
                return ttb.sptensor(r.subs.copy(), r.vals / float(cf), r.shape) if r.nnz else r
            return r / float(cf)
        return obj.contract(a["a"], a["b"])
    if op == "collapse":
        d = np.array(a["dims"], dtype=int)
        # sum / max / min are homogeneous under a positive factor.  For data of a narrow integer type the scaled entries
        # (the largest factor that keeps them
        # in range) still fit the element type while a sum of two of them need not
        arr = obj.data if isinstance(obj, ttb.tensor) else obj.vals if isinstance(obj, ttb.sptensor) else None
        if a["red"] in ("sum", "max", "min") and arr is not None and arr.size and arr.dtype.kind in "iu" and arr.dtype.itemsize <= 2 \
                and np.max(np.abs(arr.astype(np.int64))) > 0:
            cf = int(np.iinfo(arr.dtype).max // np.max(np.abs(arr.astype(np.int64))))
            c = arr.dtype.type(cf)
            big = ttb.tensor(obj.data * c) if isinstance(obj, ttb.tensor) else ttb.sptensor(obj.subs.copy(), obj.vals * c, obj.shape)
            r = apply(big, dict(ev, args=dict(a, red=a["red"] + "!")))
            if isinstance(r, ttb.tensor):
                return ttb.tensor(r.data / float(cf))
            if isinstance(r, ttb.sptensor):
                return ttb.sptensor(r.subs.copy(), r.vals / float(cf), r.shape) if r.nnz else r
            return np.asarray(r) / float(cf) if isinstance(r, np.ndarray) else r / float(cf)
        a = dict(a, red=a["red"].rstrip("!"))
        if isinstance(obj, ttb.sptensor) and a["red"] == "sum":
            return obj.collapse(d)        # default reducer (sum)
        if a["red"] == "halfsum":
            r = obj.collapse(d, lambda v: np.sum(v) / 2)
            return r * 2
        if a["red"] == "wsum":
            # defined on the VECTOR of selected entries, first index fastest (an N-way array has no such weights)
            return obj.collapse(d, lambda v: float(np.dot(np.arange(1, np.asarray(v).shape[0] + 1), v))
                                if np.asarray(v).ndim == 1 else float("nan"))
        return obj.collapse(d, {"sum": np.sum, "max": np.max, "min": np.min}[a["red"]])
    if op == "scale":
        F = bind.gamma(a["F"])
        if a["fkind"] == "array":
            F = F.double() if isinstance(F, ttb.tensor) else F
        return obj.scale(F, np.array(a["dims"], dtype=int))
    if op == "mask":
        return obj.mask(bind.gamma(a["W"]))
    if op == "reconstruct":
        samples = []
        for s in a["samples"]:
            samples.append(np.array(s["idx"], dtype=int) if s["kind"] == "rows"
                           else np.array(s["m"], dtype=f))
        return obj.reconstruct(samples, list(a["modes"]))
    raise ValueError(op)


def _too_big(x) -> bool:
    if isinstance(x, bool):
        return False
    if isinstance(x, int):
        return abs(x) > 2 ** 24
    if isinstance(x, dict):
        return any(_too_big(v) for v in x.values())
    if isinstance(x, (list, tuple)):
        return any(_too_big(v) for v in x)
    return False


def call(obj, ev):
    import bind
    import c05
    try:
        before = c05.snapshot(obj)
        r = project(apply(obj, ev))
        if c05.snapshot(obj) != before:
            return {"kind": "receiver-changed"}
        if _too_big(r):       # far outside the value domain of the specification (TLC integers are 32 bit)
            return {"kind": "inexact", "msg": "value beyond the modelled range"}
        return r
    except bind.Inexact as e:
        return {"kind": "inexact", "msg": str(e)[:200]}
    except Exception as e:
        return {"kind": "raised", "msg": f"{type(e).__name__}: {e}"[:200]}


def same_value(ret: dict, exp: dict) -> bool:
    """python-side comparison of the denotations (lock-step; TLC is authoritative)."""
    import bind
    k = ret.get("kind")
    if exp["kind"] == "scalar":
        return k == "scalar" and ret["val"] == exp["val"]
    if exp["kind"] == "matrices":
        return ret == exp
    if k == "array":
        ns = [s for s in ret["shape"] if s != 1]
        return ns == [s for s in exp["shape"] if s != 1] and ret["v"] == exp["v"]
    if k in TENSOR_KINDS:
        try:
            if k == "sparse" and bind.wf_sparse(ret, strict=False) != "ok":
                return False
            d = bind.den_any(ret)
        except Exception:
            return False
        return d is not None and list(d[0]) == list(exp["shape"]) and d[1] == exp["v"]
    return False


def site_of(kind: str, ev: dict) -> str:
    op = "norm" if ev["op"] == "normsq" else ev["op"]
    s = f"{CLS.get(kind, kind)}.{op}"
    a = ev["args"]
    if op == "innerprod":
        s += f"({CLS.get(a['other']['kind'])})"
    if op in ("mttkrp", "mttkrps") and a.get("asK"):
        s += "(ktensor)"
    return s


def record(stim: dict) -> dict:
    obj = make(stim["init"], stim.get("pres", {}))
    evs = []
    for e in stim["ev"]:
        ret = call(obj, e)
        if ret.get("kind") == "receiver-changed":
            obj = make(stim["init"], stim.get("pres", {}))
        evs.append({"op": e["op"], "args": e["args"], "ret": ret})
    return {"init": stim["init"], "pres": stim.get("pres", {}), "ev": evs}


def replay(b: dict) -> dict:
    obj = make(b["init"], b.get("pres", {}))
    tr = {"init": b["init"], "pres": b.get("pres", {}), "ev": []}
    divs, nontrivial = [], []
    for i, ev in enumerate(b["ev"]):
        ret = call(obj, ev)
        if ret.get("kind") == "receiver-changed":
            obj = make(b["init"], b.get("pres", {}))      # the remaining calls are made on a fresh receiver
        tr["ev"].append({"op": ev["op"], "args": ev["args"], "ret": ret})
        exp = ev["ret"]
        if exp["kind"] == "matrices" or (exp["kind"] == "scalar" and exp["val"] != 0) or \
                (exp["kind"] == "dense" and any(exp["v"])):
            nontrivial.append(json.dumps([b["init"], ev["op"], ev["args"]], sort_keys=True))
        if not same_value(ret, exp):
            divs.append({"site": site_of(b["init"]["kind"], ev), "why": "differs-from-defined-value",
                         "expected": exp, "detail": json.dumps(ret)[:300], "trace_index": 0,
                         "event": i + 1})
    return {"traces": [tr], "divs": divs, "events": len(b["ev"]), "nontrivial": nontrivial}


def tags_of(tr: dict, k: int) -> List[str]:
    ev = tr["ev"][k - 1]
    a = ev["args"]
    tags = []
    if tr.get("pres", {}).get("sparse_core"):
        tags.append("sparse_core")
    if a.get("asK"):
        tags.append("ktensor_operand_with_weights")
    return tags


def main(tier: str) -> int:
    if core.replay_arg():
        return core.replay_file(core.replay_arg(), PROP, "c02", "Products_Trace")
    out = Outcome(PROP, tier)
    jobs = []
    for s, rich in shapes(tier):
        d = {"ShapeC": tla.tla(list(s))}
        if len(s) >= 4 and tier == "quick":
            # order 4 is needed for the interior-mode branches; keep the quick tier short
            for kinds in (("dense", "ktensor", "ttensor", "sum"), ("sparse",)):
                jobs.append(dict(module="Products_Gen", cfg_text=cfg(rich, ops=BIG_OPS, kinds=kinds),
                                 defs=d, timeout=3400))
        elif len(s) >= 3:
            for kinds in (("dense", "ktensor", "ttensor", "sum"), ("sparse",)):
                jobs.append(dict(module="Products_Gen", cfg_text=cfg(rich, kinds=kinds), defs=d,
                                 timeout=3400))
        else:
            jobs.append(dict(module="Products_Gen", cfg_text=cfg(rich), defs=d, timeout=3400))
    # a long, sparsely filled mode (the result of a product stays sparse)
    for s in ([(2, 9)] if tier == "quick" else [(2, 9), (3, 11), (2, 2, 7)]):
        jobs.append(dict(module="Products_Gen", cfg_text=cfg(False, ops=("ttv", "mttkrp", "innerprod", "collapse", "contract"), kinds=("sparse",)),
                         defs={"ShapeC": tla.tla(list(s))}, timeout=3400))
    results = tla.run_many(jobs)
    behaviours = []
    for r in results:
        out.add_tlc(r)
        behaviours += r.json
    # merge the calls on one receiver into one trace (products do not change the receiver)
    merged = {}
    for b in behaviours:
        key = json.dumps([b["init"], b["pres"]], sort_keys=True)
        merged.setdefault(key, {"init": b["init"], "pres": b["pres"], "ev": []})["ev"] += b["ev"]
    groups = []
    for g in merged.values():
        for i in range(0, len(g["ev"]), 60):
            groups.append({"init": g["init"], "pres": g["pres"], "ev": g["ev"][i:i + 60]})
    from collections import Counter
    out.notes["calls_per_kind_op"] = {f"{k[0]}.{k[1]}": n for k, n in sorted(Counter(
        (b["init"]["kind"], b["ev"][0]["op"]) for b in behaviours).items())}
    out.notes["result_kinds_expected"] = dict(Counter(b["ev"][0]["ret"]["kind"] for b in behaviours))
    out.notes["shapes"] = [list(s) for s, _ in shapes(tier)]
    core.pipeline(out, "c02", groups, "Products_Trace", lock_mode="superset", chunk=400,
                  site_of=lambda tr, k: site_of(tr["init"]["kind"], tr["ev"][k - 1]), tags_of=tags_of)
    out.rule = ("every call of Products_Gen: receivers = dense / sparse (pattern classes x stored orders) / "
                "Kruskal / Tucker (dense and sparse core) / sum holders of labelled integer data for each shape; "
                "products ttv, ttm(+transposed), mttkrp (factor list and weighted Kruskal operand), mttkrps, ttt "
                "(every pairing of mode lists incl. outer product and full contraction), ttsv, innerprod (all "
                "kind pairs), norm, contract, collapse, scale, mask, reconstruct; modes designated by every dims "
                "list in any order and every exclude_dims list, multiplicand lists of length |dims| and N; "
                "non-trivial = defined value is not all-zero")
    out.exhaustive = True
    out.trusted = ["alpha/gamma (harness/bind.py), apply() in harness/c02.py", "TLC"]
    out.assumptions = ["multilinearity + small scope (DESIGN 2.5): orders <= 4, sizes <= 3",
                       "sparse collapse with max / min is exercised on non-negative / non-positive data only (other "
                       "reducers act on the stored values of a slice by design)", "norm is bound through norm()^2 (integer) with relative tolerance 1e-6"]
    return core.finish(out)


if __name__ == "__main__":
    core.main_wrap(main)
