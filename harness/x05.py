"""X05 (extension) — index plumbing: gather_wrap_dims, tt_renumber, tt_irenumber (spec: Plumbing*.tla)."""
from __future__ import annotations

import json

import numpy as np

import core
import tla
from core import Outcome

PROP = "X05"
SITE = {"memorder": "to_memory_order", "wrap": "gather_wrap_dims", "renumber": "tt_renumber", "irenumber": "tt_irenumber"}


def key_obj(k: dict, as_array: bool = False):
    if k["k"] == "all":
        return slice(None, None, None)
    if k["k"] == "int":
        return int(k["v"])
    if k["k"] == "slice":
        return slice(int(k["a"]), int(k["b"]), int(k["s"]))
    return np.array(k["v"], dtype=int) if as_array else [int(x) for x in k["v"]]


def subs_arr(rows, n):
    return np.array(rows, dtype=int).reshape(len(rows), n)


def call(op: str, a: dict) -> dict:
    import bind
    ttb = bind.ttb
    u = ttb.pyttb_utils
    try:
        if op == "memorder":
            dims = tuple(int(x) for x in a["dims"])
            n = int(np.prod(dims))
            if a["layout"] == "strided":
                base = np.arange(2 * n, dtype=float).reshape((2 * dims[0],) + dims[1:])
                arr = base[::2]
            else:
                arr = np.arange(n, dtype=float).reshape(dims, order=a["layout"])
            before = arr.copy()
            res = u.to_memory_order(arr, a["order"], copy=bool(a["copy"]))
            return {"st": "ok", "same_values": bool(res.shape == arr.shape and np.array_equal(res, before)),
                    "in_order": bool(res.flags["F_CONTIGUOUS" if a["order"] == "F" else "C_CONTIGUOUS"]),
                    "shares": bool(np.shares_memory(res, arr)), "operand_kept": bool(np.array_equal(arr, before))}
        if op == "wrap":
            r = np.array(a["r"]["v"], dtype=int) if a["r"]["given"] else None
            c = np.array(a["c"]["v"], dtype=int) if a["c"]["given"] else None
            cyc = None if a["cyc"] == "none" else a["cyc"]
            try:
                rr, cc = u.gather_wrap_dims(int(a["n"]), r, c, cyc)
            except AssertionError:
                return {"st": "rejected"}
            ints = all(isinstance(x, np.ndarray) and np.issubdtype(x.dtype, np.integer) for x in (rr, cc))
            return {"st": "ok", "r": [int(x) for x in rr], "c": [int(x) for x in cc], "ints": bool(ints)}
        n = len(a["shape"])
        shape = tuple(int(x) for x in a["shape"])
        if op == "renumber":
            subs = subs_arr(a["subs"], n)
            before = subs.copy()
            key = tuple(key_obj(k) for k in a["key"])
            ns, nsh = u.tt_renumber(subs, shape, key)
            ns = np.asarray(ns)
            if ns.size and not np.all(ns == np.round(ns)):
                return {"st": "subscripts-not-integral"}
            return {"st": "ok", "subs": [[int(x) for x in row] for row in ns.reshape(len(a["subs"]), n)] if ns.size else [],
                    "shape": [int(x) for x in nsh], "operand_kept": bool(np.array_equal(subs, before))}
        if op == "irenumber":
            m = len(a["tshape"])
            tsubs = subs_arr(a["tsubs"], m)
            tshape = tuple(int(x) for x in a["tshape"])
            if len(a["tsubs"]):
                t = ttb.sptensor(tsubs.copy(), np.ones((len(a["tsubs"]), 1)), tshape)
            else:
                t = ttb.sptensor(shape=tshape)
            key = tuple(key_obj(k, as_array=(i % 2 == 1)) for i, k in enumerate(a["key"]))
            ns = np.asarray(u.tt_irenumber(t, shape, key))
            kept = (t.nnz == len(a["tsubs"])) and (t.nnz == 0 or np.array_equal(t.subs, tsubs))
            return {"st": "ok", "subs": [[int(x) for x in row] for row in ns.reshape(len(a["tsubs"]), n)] if ns.size else [],
                    "operand_kept": bool(kept)}
    except Exception as e:
        return {"st": "raised:" + type(e).__name__ + ":" + str(e)[:80]}
    raise ValueError(op)


def event(b: dict) -> dict:
    return {"op": b["op"], "args": b["a"], "ret": call(b["op"], b["a"])}


def expected_matches(op, a, exp, got) -> bool:
    if got.get("st") != exp.get("st"):
        return False
    if exp["st"] != "ok":
        return True
    if op == "memorder":
        return got["same_values"] and got["in_order"] and got["operand_kept"] and got["shares"] == exp["shares"]
    if op == "wrap":
        return got["r"] == exp["r"] and got["c"] == exp["c"] and got["ints"]
    if op == "renumber":
        return (got["subs"] == exp["subs"] and got["operand_kept"] and len(got["shape"]) == len(exp["shape"])
                and all(k["k"] == "int" or g == e for k, g, e in zip(a["key"], got["shape"], exp["shape"])))
    return got["subs"] == exp["subs"] and got["operand_kept"]


def replay(b: dict) -> dict:
    ev = event(b)
    tr = {"init": {}, "b": b, "ev": [ev]}
    divs = []
    if not expected_matches(b["op"], b["a"], b["ret"], ev["ret"]):
        divs.append({"site": SITE[b["op"]], "why": "candidate", "expected": b["ret"], "detail": json.dumps(ev["ret"])[:200],
                     "trace_index": 0, "event": 1})
    return {"traces": [tr], "divs": divs, "events": 1, "nontrivial": [json.dumps([b["op"], b["a"]], sort_keys=True)]}


def record(stim: dict) -> dict:
    return {"init": {}, "b": stim["b"], "ev": [event(stim["b"])]}


def tags_of(tr, k):
    a = tr["ev"][k - 1]["args"]
    if tr["ev"][k - 1]["op"] == "memorder":
        return ["layout_" + a["layout"], "to_" + a["order"], "copy" if a["copy"] else "nocopy"]
    if tr["ev"][k - 1]["op"] == "wrap":
        return ["n%d" % a["n"], "cyc_" + a["cyc"], "r" if a["r"]["given"] else "no_r", "c" if a["c"]["given"] else "no_c"]
    return sorted({"key_" + x["k"] for x in a["key"]}) + (["no_entries"] if not a.get("subs", a.get("tsubs")) else [])


def main(tier: str) -> int:
    rp = core.replay_arg()
    if rp:
        return core.replay_file(rp, PROP, "x05", "Plumbing_Trace")
    out = Outcome(PROP, tier)
    r = tla.run_tlc("Plumbing_Gen", "SPECIFICATION Spec\n" + "".join(
        f"INVARIANT {x}\n" for x in ("WrapIsPartition", "CyclicSameModes", "TransposeSwaps", "RenumberInside", "InverseLaw", "MemOrderLaw")),
        timeout=1200)
    out.add_tlc(r)
    behaviours = r.json
    from collections import Counter
    out.notes["calls_per_helper"] = dict(Counter(b["op"] for b in behaviours))
    core.pipeline(out, "x05", behaviours, "Plumbing_Trace", lock_mode="superset", chunk=600,
                  site_of=lambda tr, k: SITE[tr["ev"][k - 1]["op"]], tags_of=tags_of)
    out.rule = ("gather_wrap_dims for 1 to 4 modes with every duplicate-free row / column mode list (one side, both sides, "
                "neither) and the cyclic conventions fc / bc / t; tt_renumber and tt_irenumber on shapes (3), (2,3), (3,1,2) "
                "with every key over {full slice, integer, index list (also non-monotone), slices with start / stop / step, "
                "stop past the end} and the entries of the selected region stored ascending, descending, rotated, or none; "
                "to_memory_order on nine shapes (1 to 3 dimensions, with singleton dimensions) x operand layout C / F / strided "
                "x requested order x copy flag")
    out.exhaustive = True
    out.trusted = ["key_obj() / call() in harness/x05.py", "TLC"]
    return core.finish(out)


if __name__ == "__main__":
    core.main_wrap(main)
