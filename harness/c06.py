"""C06 — sparse results are well formed and independent of the stored order (SparseOrder*.tla)."""
from __future__ import annotations

import json
from typing import Callable, Dict, List

import numpy as np

import core
import tla
from core import Outcome

PROP = "C06"


# ---------------------------------------------------------------------------
# operation table (names are the vocabulary shared with the specification's constants)

def aux(shape):
    N = len(shape)
    n = int(np.prod(shape))
    return {
        "vec": [np.arange(1, s + 1, dtype=float) * (1 if k % 2 == 0 else -1) + k for k, s in enumerate(shape)],
        "mat": [((np.arange(2 * s).reshape(2, s) + k) % 3 - 1.0) for k, s in enumerate(shape)],
        "U": [((2 * np.arange(s)[:, None] + np.arange(2)[None, :] + k) % 4 - 1.0) for k, s in enumerate(shape)],
        "Dn": ((np.arange(1, n + 1) * 3) % 7 - 2.0).reshape(shape, order="F"),
        "Dnz": ((np.arange(1, n + 1) % 3) + 1.0).reshape(shape, order="F"),
        "allsubs": np.array(np.unravel_index(np.arange(n), shape, order="F")).T,
        "N": N, "n": n,
    }


def U_OPS() -> Dict[str, Callable]:
    import bind
    ttb = bind.ttb
    T = ttb.tensor
    ops = {
        "full": lambda S, a: S.full(),
        "double": lambda S, a: S.double(),
        "copy": lambda S, a: S.copy(),
        "to_sptenmat": lambda S, a: S.to_sptenmat(np.array([0])),
        "to_sptenmat_t": lambda S, a: S.to_sptenmat(np.array([a["N"] - 1]), cdims_cyclic="t"),
        "sptenmat_roundtrip": lambda S, a: S.to_sptenmat(np.array([0])).to_sptensor(),
        "sptenmat_full": lambda S, a: S.to_sptenmat(np.array([0])).full().data,
        "neg": lambda S, a: -S,
        "pos": lambda S, a: +S,
        "ones": lambda S, a: S.ones(),
        "logical_not": lambda S, a: S.logical_not(),
        "nnz": lambda S, a: int(S.nnz),
        "normsq": lambda S, a: int(round(S.norm() ** 2)),
        "squeeze": lambda S, a: S.squeeze(),
        "permute_rev": lambda S, a: S.permute(np.arange(a["N"])[::-1]),
        "reshape_flat": lambda S, a: S.reshape((a["n"],)),
        "squash": lambda S, a: S.squash(),
        "collapse_all": lambda S, a: S.collapse(),
        "collapse_0": lambda S, a: S.collapse(np.array([0])),
        "collapse_last": lambda S, a: S.collapse(np.array([a["N"] - 1])),
        "contract_0_last": lambda S, a: S.contract(0, a["N"] - 1),
        "elemfun_sq": lambda S, a: S.elemfun(lambda v: v * v),
        "elemfun_dec": lambda S, a: S.elemfun(lambda v: v - 1),
        "ttv_0": lambda S, a: S.ttv(a["vec"][0], dims=np.array([0])),
        "ttv_last": lambda S, a: S.ttv(a["vec"][-1], dims=np.array([a["N"] - 1])),
        "ttv_all": lambda S, a: S.ttv(a["vec"]),
        "ttm_0": lambda S, a: S.ttm(a["mat"][0], dims=np.array([0])),
        "ttm_last_t": lambda S, a: S.ttm(a["mat"][-1].T.copy(), dims=np.array([a["N"] - 1]), transpose=True),
        "mttkrp_0": lambda S, a: S.mttkrp(a["U"], 0),
        "mttkrp_last": lambda S, a: S.mttkrp(a["U"], a["N"] - 1),
        "scale_0": lambda S, a: S.scale(a["vec"][0], np.array([0])),
        "scale_dense_0": lambda S, a: S.scale(T(a["vec"][0]), np.array([0])),
        "innerprod_dense": lambda S, a: S.innerprod(T(a["Dn"])),
        "isequal_dense": lambda S, a: bool(S.isequal(T(a["Dn"]))),
        "isequal_own_full": lambda S, a: bool(S.isequal(S.full())),
        "extract_all": lambda S, a: S.extract(a["allsubs"]),
        "getitem_subs": lambda S, a: S[a["allsubs"]],
        "getitem_linear": lambda S, a: S[np.arange(a["n"])],
        "getitem_region": lambda S, a: S[tuple([slice(None)] * (a["N"] - 1) + [0])] if a["N"] > 1 else S[slice(None),],
        "getitem_stride2": lambda S, a: S[tuple([slice(None, None, 2)] + [slice(None)] * (a["N"] - 1))],
        "getitem_stride_last": lambda S, a: S[tuple([slice(None)] * (a["N"] - 1) + [slice(1, None, 2)])],
        "getitem_bounded": lambda S, a: S[tuple(slice(0, max(1, s - 1)) for s in S.shape)],
        "setitem_stride_zero": lambda S, a: _set(S, tuple([slice(None, None, 2)] + [slice(None)] * (a["N"] - 1)), 0),
        "setitem_subs_scalar": lambda S, a: _set(S, a["allsubs"][::3].copy(), 7.0),
        # one batch that deletes some stored entries (value 0), changes others and adds new ones
        "setitem_subs_mixed": lambda S, a: _set(S, a["allsubs"].copy(),
                                                np.array([[0.0, 7.0, 0.0, -5.0][k % 4] for k in range(len(a["allsubs"]))])[:, None]),
        "setitem_subs_mixed_rev": lambda S, a: _set(S, a["allsubs"][::-1].copy(),
                                                    np.array([[3.0, 0.0][k % 2] for k in range(len(a["allsubs"]))])[:, None]),
        # a nonzero scalar assigned to a region that contains stored entries (they are replaced in place) and empty cells
        "setitem_region_scalar": lambda S, a: _set(S, tuple(slice(0, max(1, s - 1)) for s in S.shape), 9.0),
        "setitem_stride_scalar": lambda S, a: _set(S, tuple([slice(None)] * (a["N"] - 1) + [slice(None, None, 2)]), -4.0),
        "getitem_region_list": lambda S, a: S[tuple([[s - 1, 0] if s > 1 else [0] for s in S.shape])],
        # operands that turn stored entries into zeros: they may not stay behind as explicit zeros
        "mul_scalar_zero": lambda S, a: S * 0,
        "rmul_scalar_zero": lambda S, a: 0 * S,
        "mul_ktensor_zero_row": lambda S, a: S * ttb.ktensor([np.where(np.arange(u.shape[0])[:, None] == 0, 0.0, u) if k == 0 else u
                                                              for k, u in enumerate(a["U"])], np.array([2.0, -1.0])),
        "scale_vec_zero": lambda S, a: S.scale(np.where(np.arange(len(a["vec"][0])) == 0, 0.0, a["vec"][0]), np.array([0])),
        "scale_dense_zero": lambda S, a: S.scale(T(np.where(np.arange(len(a["vec"][0])) == 0, 0.0, a["vec"][0])), np.array([0])),
        "mul_scalar": lambda S, a: S * 2,
        "rmul_scalar": lambda S, a: 3 * S,
        "div_scalar": lambda S, a: S / 2,
        "eq_scalar": lambda S, a: S == 1,
        "ne_scalar": lambda S, a: S != 2,
        "lt_scalar": lambda S, a: S < 2,
        "ge_scalar0": lambda S, a: S >= 0,
        "gt_scalar_neg": lambda S, a: S > -1,
        "and_scalar": lambda S, a: S.logical_and(1.0),
        "or_dense": lambda S, a: S.logical_or(T(a["Dn"])),
        "xor_scalar": lambda S, a: S.logical_xor(1.0),
        "add_dense": lambda S, a: S + T(a["Dn"]),
        "mul_dense": lambda S, a: S * T(a["Dnz"]),
        "mul_dense_zeros": lambda S, a: S * T(a["Dn"]),
        "div_dense": lambda S, a: S / T(a["Dnz"]),
        "eq_dense": lambda S, a: S == T(a["Dn"]),
        "ne_dense": lambda S, a: S != T(a["Dn"]),
        "le_dense": lambda S, a: S <= T(a["Dn"]),
        "gt_dense": lambda S, a: S > T(a["Dn"]),
        "and_dense": lambda S, a: S.logical_and(T(a["Dn"])),
        "spmatrix": lambda S, a: S.spmatrix().toarray(),
        "aggregate_dup": lambda S, a: ttb.sptensor.from_aggregator(
            np.vstack([S.subs, S.subs]), np.vstack([S.vals, 2 * S.vals]), S.shape) if S.nnz else
            ttb.sptensor.from_aggregator(np.empty((0, a["N"]), dtype=int), np.empty((0, 1)), S.shape),
        "aggregate_cancel": lambda S, a: ttb.sptensor.from_aggregator(
            np.vstack([S.subs, S.subs[[_imin(S)]]]), np.vstack([S.vals, -S.vals[[_imin(S)]]]), S.shape) if S.nnz else
            ttb.sptensor.from_aggregator(np.empty((0, a["N"]), dtype=int), np.empty((0, 1)), S.shape),
        "sptenmat_ctor": lambda S, a: _sptenmat_ctor(S, a),
        "sptenmat_setitem_new": lambda S, a: _sptenmat_setitem_new(S, a),
        # the repeated pair cancels exactly: the sum is zero and is not an entry
        "sptenmat_ctor_cancel": lambda S, a: _sptenmat_ctor(S, dict(a, _cancel=True)),
        # mask() lists the values in the order of the MASK's subscripts: the mask is kept fixed
        "mask_fixed": lambda S, a: S.mask(ttb.sptensor(a["allsubs"][::2][::-1].copy(),
                                                       np.ones((len(a["allsubs"][::2]), 1)), S.shape)),
        "ktensor_innerprod": lambda S, a: ttb.ktensor(a["U"], np.array([2.0, -1.0])).innerprod(S),
        "tensor_innerprod": lambda S, a: T(a["Dn"]).innerprod(S),
        "tensor_eq": lambda S, a: T(a["Dn"]).isequal(S),
        # the matricized form is stored in one canonical order whatever the stored order of the operand: comparing it
        # with the matricization of the sorted operand is TRUE in every stored order
        "to_sptenmat_isequal_sorted": lambda S, a: bool(S.to_sptenmat(np.array([0])).isequal(_resort(S).to_sptenmat(np.array([0])))),
        "to_sptenmat_last_isequal_sorted": lambda S, a: bool(S.to_sptenmat(np.array([a["N"] - 1])).isequal(
            _resort(S).to_sptenmat(np.array([a["N"] - 1])))),
        "to_sptenmat_stored": lambda S, a: (lambda M: np.hstack([M.subs.astype(float), M.vals.astype(float)]) if M.subs.size else np.zeros((0, 3)))(S.to_sptenmat(np.array([a["N"] - 1]))),
        # products that underflow to exactly zero are not entries
        "mul_scalar_underflow": lambda S, a: ttb.sptensor(S.subs.copy(), S.vals.astype(float) * 2.0 ** -600, S.shape) * 2.0 ** -600,
        "rmul_scalar_underflow": lambda S, a: 2.0 ** -600 * ttb.sptensor(S.subs.copy(), S.vals.astype(float) * 2.0 ** -600, S.shape),
        # the same array at values that are not dyadic (sums of tenths depend on the order of summation), compared
        # with its own lexicographically sorted / reversed storage: equal in every stored order
        "isequal_sorted_tenths": lambda S, a: bool(_tenths(S).isequal(_tenths(S, "sorted"))),
        "isequal_reversed_tenths": lambda S, a: bool(_tenths(S, "reversed").isequal(_tenths(S))),
        "sub_sorted_tenths_nnz": lambda S, a: int((_tenths(S) - _tenths(S, "sorted")).nnz),
        "innerprod_sorted_tenths": lambda S, a: bool(abs(_tenths(S).innerprod(_tenths(S, "sorted")) - _tenths(S).norm() ** 2) < 1e-12),
    }
    return ops


def _resort(S):
    import bind
    if len(S.subs) == 0:
        return S.copy()
    idx = np.lexsort(S.subs.T[::-1])
    return bind.ttb.sptensor(S.subs[idx].copy(), S.vals[idx].copy(), S.shape)


def _tenths(S, order=""):
    import bind
    subs, vals = S.subs.copy(), S.vals.astype(float) * 0.1
    if order == "sorted" and len(subs):
        idx = np.lexsort(subs.T[::-1])
        subs, vals = subs[idx], vals[idx]
    if order == "reversed":
        subs, vals = subs[::-1].copy(), vals[::-1].copy()
    return bind.ttb.sptensor(subs, vals, S.shape)


def _set(S, key, value):
    X = S.copy()
    X[key] = value
    return X


def _imin(S) -> int:
    """position of the entry with the smallest value: identifies an entry independently of the order"""
    return int(np.argmin(S.vals.reshape(-1)))


def _sptenmat_setitem_new(S, a):
    """an sptenmat holding its entries in the operand's stored order (copy=False), then one assignment that adds entries"""
    import bind
    ttb = bind.ttb
    M0 = S.to_sptenmat(np.array([0]))
    if S.nnz == 0:
        return M0.full().data
    r = S.subs[:, 0].copy()
    rest = [d for d in range(S.ndims) if d != 0]
    c = (np.ravel_multi_index(tuple(S.subs[:, d] for d in rest), tuple(S.shape[d] for d in rest), order="F")
         if rest else np.zeros(S.nnz, dtype=int))
    M = ttb.sptenmat(np.stack([r, c], axis=1), S.vals.astype(float).copy(), M0.rdims, M0.cdims, M0.tshape, copy=False)
    nr, nc = M0.shape
    stored = {(int(i), int(j)) for i, j in zip(r, c)}
    free = [(i, j) for j in range(nc) for i in range(nr) if (i, j) not in stored]
    for k, (i, j) in enumerate(free[:2]):
        M[i, j] = 7.0 + k
    return M.full().data


def _sptenmat_ctor(S, a):
    import bind
    ttb = bind.ttb
    M = S.to_sptenmat(np.array([0]))
    if S.nnz == 0:
        return ttb.sptenmat(rdims=M.rdims, cdims=M.cdims, tshape=M.tshape)
    # rebuild from the (row, col) pairs in the operand's stored order, with one duplicated pair
    r = np.ravel_multi_index((S.subs[:, 0],), (S.shape[0],))
    rest = [d for d in range(S.ndims) if d != 0]
    c = (np.ravel_multi_index(tuple(S.subs[:, d] for d in rest), tuple(S.shape[d] for d in rest), order="F")
         if rest else np.zeros(S.nnz, dtype=int))
    j = _imin(S)
    subs = np.vstack([np.stack([r, c], axis=1), np.stack([r[[j]], c[[j]]], axis=1)])
    vals = np.vstack([S.vals, (-1.0 if a.get("_cancel") else 1.0) * S.vals[[j]]])
    return ttb.sptenmat(subs, vals, M.rdims, M.cdims, M.tshape)


def B_OPS() -> Dict[str, Callable]:
    import bind
    ttb = bind.ttb
    return {
        "add": lambda S, T, a: S + T, "sub": lambda S, T, a: S - T, "mul": lambda S, T, a: S * T,
        "div": lambda S, T, a: S / T, "and": lambda S, T, a: S.logical_and(T),
        "or": lambda S, T, a: S.logical_or(T), "xor": lambda S, T, a: S.logical_xor(T),
        "eq": lambda S, T, a: S == T, "ne": lambda S, T, a: S != T, "lt": lambda S, T, a: S < T,
        "le": lambda S, T, a: S <= T, "gt": lambda S, T, a: S > T, "ge": lambda S, T, a: S >= T,
        "innerprod": lambda S, T, a: S.innerprod(T), "isequal": lambda S, T, a: bool(S.isequal(T)),
        "scale_sparse_all": lambda S, T, a: S.scale(T, np.arange(a["N"])),
        "sumtensor_full": lambda S, T, a: ttb.sumtensor([S, T]).full(),
        "setitem_region": lambda S, T, a: _setitem_region(S, T, a),
        "setitem_list_grow": lambda S, T, a: _setitem_list_grow(S, T, a),
        "setitem_stride_block": lambda S, T, a: _setitem_stride_block(S, T, a),
    }


def _setitem_list_grow(S, T, a):
    """a sparse block assigned through an index list whose last entry lies just beyond the first mode: the tensor grows
    by exactly one index there"""
    X = S.copy()
    s0 = S.shape[0]
    if s0 < 2:
        return X
    W = T[tuple([slice(0, 2)] + [slice(0, s) for s in S.shape[1:]])]
    X[tuple([[0, s0]] + [slice(0, s) for s in S.shape[1:]])] = W
    return X


def _setitem_stride_block(S, T, a):
    """a sparse block assigned through a stepped slice of the first mode"""
    X = S.copy()
    key = tuple([slice(0, None, 2)] + [slice(0, s) for s in S.shape[1:]])
    X[key] = T[key]
    return X


def _setitem_region(S, T, a):
    X = S.copy()
    X[tuple(slice(0, s) for s in S.shape)] = T
    return X


# operations whose result may not contain an explicit zero (they combine or filter entries)
STRICT = ["add", "sub", "mul", "and", "or", "xor", "eq", "ne", "lt", "le", "gt", "ge", "logical_not",
          "collapse_0", "collapse_last", "contract_0_last", "ttv_0", "ttv_last", "ttm_0", "ttm_last_t",
          "elemfun_sq", "elemfun_dec", "getitem_region", "getitem_region_list", "getitem_stride2", "getitem_stride_last",
          "getitem_bounded", "setitem_stride_zero", "squash", "to_sptenmat",
          "to_sptenmat_t", "sptenmat_roundtrip", "aggregate_dup", "aggregate_cancel", "sptenmat_ctor",
          "eq_scalar", "ne_scalar", "lt_scalar", "ge_scalar0", "gt_scalar_neg", "and_scalar", "eq_dense",
          "ne_dense", "le_dense", "gt_dense", "and_dense", "mul_dense_zeros", "setitem_region", "setitem_list_grow", "setitem_stride_block", "copy",
          "permute_rev", "reshape_flat", "squeeze", "ones", "neg", "pos",
          "setitem_subs_mixed", "setitem_subs_mixed_rev", "mul_scalar_zero", "rmul_scalar_zero", "mul_ktensor_zero_row", "scale_vec_zero", "scale_dense_zero", "div",
          "mul_scalar_underflow", "rmul_scalar_underflow", "sptenmat_ctor_cancel"]


def applicable(op: str, shape) -> bool:
    N = len(shape)
    if op == "spmatrix":
        return N == 2
    if op == "contract_0_last":
        return N >= 2 and shape[0] == shape[-1]
    if op in ("mttkrp_0", "mttkrp_last", "ktensor_innerprod"):
        return N >= 2 if op != "ktensor_innerprod" else True
    if op == "squeeze":
        return True
    return True


def project(r):
    import bind
    ttb = bind.ttb
    if isinstance(r, ttb.sptensor):
        d = bind.a_sparse(r, RAT)
        d["nnz"] = int(r.nnz)
        return d
    if isinstance(r, ttb.sptenmat):
        d = bind.a_sptenmat(r, RAT)
        d["nnz"] = int(r.nnz)
        return d
    if isinstance(r, np.ndarray):
        return {"kind": "array", "shape": [int(s) for s in r.shape], "v": bind.flatF(r, RAT)}
    if isinstance(r, bool):
        return {"kind": "bool", "val": r}
    if isinstance(r, ttb.tensor):
        return bind.a_dense(r, RAT)
    return bind.alpha(r, RAT)


def RAT(x):
    """numbers as strings so that integers, rationals and IEEE specials are uniformly typed"""
    xf = float(x)
    if xf != xf:
        return "nan"
    if xf in (float("inf"), float("-inf")):
        return "inf" if xf > 0 else "-inf"
    from fractions import Fraction
    q = Fraction(xf).limit_denominator(1000)
    if abs(float(q) - xf) > 1e-9 * max(1.0, abs(xf)):
        import bind
        raise bind.Inexact(f"{xf!r}")
    return f"{q.numerator}/{q.denominator}"


def reorder(S: dict, pi: List[int]) -> dict:
    if not pi:
        return S
    return {"kind": "sparse", "shape": S["shape"], "subs": [S["subs"][p - 1] for p in pi],
            "vals": [S["vals"][p - 1] for p in pi]}


def run_event(st: dict) -> dict:
    """execute stimulus st = {op, S, T, orders} under every listed presentation"""
    import bind
    shape = tuple(st["S"]["shape"])
    a = aux(shape)
    uo, bo = U_OPS(), B_OPS()
    op = st["op"]
    rets = []
    S0 = dict(st["S"], kind="sparse")
    T0 = dict(st["T"], kind="sparse")
    for pS, pT in st["orders"]:
        try:
            S = bind.g_sparse(reorder(S0, pS))
            with np.errstate(all="ignore"):
                if op in uo:
                    r = uo[op](S, a)
                else:
                    T = bind.g_sparse(reorder(T0, pT))
                    r = bo[op](S, T, a)
            pr = project(r)
        except bind.Inexact as e:
            pr = {"kind": "inexact", "msg": str(e)[:150]}
        except Exception as e:
            pr = {"kind": "raised", "msg": f"{type(e).__name__}: {e}"[:150]}
        rets.append(pr)
    return {"op": op, "args": {"S": st["S"], "T": st["T"], "orders": st["orders"]}, "ret": {"rets": rets}}


def record(stim: dict) -> dict:
    evs = []
    for e in stim["ev"]:
        st = {"op": e["op"], "S": e["args"]["S"], "T": e["args"]["T"], "orders": e["args"]["orders"]}
        evs.append(run_event(st))
    return {"init": {}, "ev": evs}


def replay(b: dict) -> dict:
    tr = {"init": {}, "ev": []}
    divs, nontrivial = [], []
    for i, st in enumerate(b["ev"]):
        ev = run_event(st)
        tr["ev"].append(ev)
        rets = ev["ret"]["rets"]
        if len(st["orders"]) > 1:
            nontrivial.append(json.dumps([st["op"], st["S"], st["T"]], sort_keys=True))
        # lock-step pre-filter: anything that is not "all results identical and sparse-free of
        # surprises" is handed to TLC as a candidate
        suspicious = any(r.get("kind") in ("raised", "inexact", "other") for r in rets) and \
            not all(r.get("kind") == "raised" for r in rets)
        if not suspicious:
            suspicious = any(json.dumps(canon(r), sort_keys=True) != json.dumps(canon(rets[0]), sort_keys=True)
                             for r in rets[1:])
        if not suspicious:
            suspicious = any(wf_py(st["op"], r) != "ok" for r in rets)
        if suspicious:
            divs.append({"site": st["op"], "why": "candidate", "expected": None,
                         "detail": json.dumps(rets)[:300], "trace_index": 0, "event": i + 1})
    return {"traces": [tr], "divs": divs, "events": sum(len(s["orders"]) for s in b["ev"]),
            "nontrivial": nontrivial}


def canon(r: dict):
    """order-insensitive normal form of a projected result (python side)"""
    if r.get("kind") in ("sparse", "sptenmat"):
        ent = sorted(zip([tuple(s) for s in r["subs"]], r["vals"])) if len(r["subs"]) == len(r["vals"]) else None
        return {k: v for k, v in r.items() if k not in ("subs", "vals")} | {"ent": ent}
    return r


def wf_py(op: str, r: dict) -> str:
    import bind
    if r.get("kind") not in ("sparse", "sptenmat"):
        return "ok"
    rr = dict(r)
    w = bind.wf_sparse(rr, strict=False)
    if w != "ok":
        return w
    if op in STRICT and any(v == "0/1" for v in r["vals"]):
        return "explicit-zero"
    if r["nnz"] != len(r["subs"]):
        return "reported-nnz"
    return "ok"


def plan(tier: str):
    if tier == "thorough":
        return [((2, 2), 4, True), ((2, 3), 4, False), ((2, 2, 2), 4, False), ((3, 1, 2), 4, False), ((3,), 3, True)]
    return [((2, 2), 3, False), ((2, 3), 2, False), ((3, 1, 2), 2, False), ((2, 2, 2), 2, False)]


def cfg(maxnnz, uops, bops, allpairs) -> str:
    st = lambda xs: "{" + ", ".join(f'"{x}"' for x in xs) + "}"
    return ("SPECIFICATION Spec\nCONSTANTS\n MaxNnz = %d\n UnaryOpsC = %s\n BinaryOpsC = %s\n AllPairs = %s\n"
            " StrictOps = %s\nINVARIANT ReorderLaw\nINVARIANT OrdersDistinct\n"
            % (maxnnz, st(uops), st(bops), "TRUE" if allpairs else "FALSE", st(STRICT)))


def main(tier: str) -> int:
    tconst = "CONSTANTS\n StrictOps = {" + ", ".join(f'"{x}"' for x in STRICT) + "}\n"
    if core.replay_arg():
        if json.loads(open(core.replay_arg()).read())["stimulus"].get("big"):
            return core.replay_file(core.replay_arg(), PROP, "c03b", "Elementwise_Big_Trace")
        return core.replay_file(core.replay_arg(), PROP, "c06", "SparseOrder_Trace", trace_constants=tconst)
    out = Outcome(PROP, tier)
    import bind  # noqa
    unames = list(U_OPS().keys())
    bnames = list(B_OPS().keys())
    jobs = []
    for shape, maxnnz, allpairs in plan(tier):
        us = [u for u in unames if applicable(u, shape)]
        d = {"ShapeC": tla.tla(list(shape))}
        jobs.append(dict(module="SparseOrder_Gen", cfg_text=cfg(maxnnz, us, [], allpairs), defs=d, timeout=3000))
        if tier == "quick" and shape not in ((2, 2), (3, 1, 2)):
            continue
        for i in range(0, len(bnames), 5):
            jobs.append(dict(module="SparseOrder_Gen",
                             cfg_text=cfg(min(maxnnz, 3 if tier == "thorough" else 2), [], bnames[i:i + 5], allpairs),
                             defs=d, timeout=3000))
    results = tla.run_many(jobs)
    stimuli = []
    for r in results:
        out.add_tlc(r)
        stimuli += r.json
    behaviours = [{"ev": stimuli[i:i + 25]} for i in range(0, len(stimuli), 25)]
    from collections import Counter
    out.notes["stimuli"] = len(stimuli)
    out.notes["operations"] = {"unary": unames, "binary": bnames, "strict": STRICT}
    out.notes["stimuli_per_op"] = dict(Counter(s["op"] for s in stimuli))
    # operands with more than 2048 stored entries (Elementwise_Big, shared with C03): the pairing of stored entries and the
    # well-formedness of the result may not depend on how many entries there are (block-wise row matching)
    ops_big = ["mul", "eq", "and"] if tier == "quick" else ["add", "sub", "mul", "eq", "ne", "le", "gt", "and", "or", "xor"]
    rbig = tla.run_tlc("Elementwise_Big_Gen", "SPECIFICATION Spec\nCONSTANTS\n NCells = 2496\n OpsC = {%s}\n" % ", ".join(f'"{o}"' for o in ops_big),
                       timeout=3000)
    out.add_tlc(rbig)
    out.notes["large_operand_calls"] = len(rbig.json)
    core.pipeline(out, "c03b", rbig.json, "Elementwise_Big_Trace", lock_mode="superset", chunk=6,
                  site_of=lambda tr, k: f"sptensor:{tr['ev'][k - 1]['args']['op']}({tr['ev'][k - 1]['args']['rk']}) [large]")
    core.pipeline(out, "c06", behaviours, "SparseOrder_Trace", lock_mode="superset", chunk=250,
                  trace_constants=tconst,
                  site_of=lambda tr, k: "sptensor:" + tr["ev"][k - 1]["op"],
                  tags_of=lambda tr, k: [])
    out.rule = ("for every shape in the plan: every sparsity pattern with <= MaxNnz nonzeros x ALL n! stored orders "
                "(for binary operations also the orders of the second operand) x every public sparse operation of "
                "the table in harness/c06.py; one evaluation = one call under one presentation; non-trivial = the "
                "stimulus has more than one presentation")
    out.exhaustive = True
    out.trusted = ["operation table and projection in harness/c06.py", "TLC"]
    out.assumptions = ["order dependence, if any, shows up with <= 4 stored entries (all n! orders enumerated) or in the large "
                       "operands of Elementwise_Big (more than 2048 stored entries, three stored orders)"]
    return core.finish(out)


if __name__ == "__main__":
    core.main_wrap(main)
