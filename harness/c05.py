"""C05 — operations never modify their operands and never alias them (spec: Ownership*.tla)."""
from __future__ import annotations

import json
import warnings
from typing import Any, Callable, Dict, List, Tuple

import numpy as np

import core
import tla
from core import Outcome

PROP = "C05"

# operations documented as modifying their receiver (and nothing else)
INPLACE = ["setitem_region", "setitem_subs", "setitem_linear", "setitem_block_offset", "setitem_block_all", "setitem_sp_offset",
           "setitem_sp_all", "k_normalize", "k_normalize_sort", "k_arrange",
           "k_arrange_perm", "k_fixsigns", "k_fixsigns_ref", "k_redistribute", "k_update", "sptenmat_setitem",
           "tenmat_setitem"]
# construction with copy=False / documented no-copy switches
SHARING = ["ctor_nocopy", "to_tenmat_nocopy", "tenmat_to_tensor_nocopy", "identity"]


# ---------------------------------------------------------------------------
# reachable arrays, snapshots, aliasing

def arrays_of(o: Any, seen=None) -> List[np.ndarray]:
    import bind
    ttb = bind.ttb
    out: List[np.ndarray] = []
    if seen is None:
        seen = set()
    if id(o) in seen:
        return out
    seen.add(id(o))
    if isinstance(o, np.ndarray):
        out.append(o)
    elif isinstance(o, ttb.tensor):
        out.append(o.data)
    elif isinstance(o, ttb.sptensor):
        out += [o.subs, o.vals]
    elif isinstance(o, ttb.ktensor):
        out += [o.weights] + list(o.factor_matrices)
    elif isinstance(o, ttb.ttensor):
        out += arrays_of(o.core, seen) + list(o.factor_matrices)
    elif isinstance(o, ttb.sumtensor):
        for p in o.parts:
            out += arrays_of(p, seen)
    elif isinstance(o, ttb.tenmat):
        out += [o.data, o.rindices, o.cindices]
    elif isinstance(o, ttb.sptenmat):
        out += [o.subs, o.vals, o.rdims, o.cdims]
    elif isinstance(o, (list, tuple)):
        for x in o:
            out += arrays_of(x, seen)
    elif isinstance(o, dict):
        for x in o.values():
            out += arrays_of(x, seen)
    elif hasattr(o, "toarray") and hasattr(o, "data"):       # scipy sparse
        out += [x for x in (getattr(o, "data", None), getattr(o, "row", None), getattr(o, "col", None))
                if isinstance(x, np.ndarray)]
    return [a for a in out if isinstance(a, np.ndarray)]


def snapshot(o: Any) -> List[Tuple]:
    return [(a.shape, a.dtype.str, a.tobytes()) for a in arrays_of(o)]


def aliased(new: Any, old: Any) -> bool:
    """True iff an in-place write through `new` is visible through `old` (or vice versa)."""
    for a in arrays_of(new):
        if a.size == 0:
            continue
        for b in arrays_of(old):
            if b.size == 0 or a is b and False:
                continue
            if a is b or np.shares_memory(a, b):
                # demonstrate it: poke a, observe b, restore
                if a.flags.writeable and a.dtype.kind in "fiub":
                    before = b.tobytes()
                    keep = a.copy()
                    try:
                        if a.dtype.kind == "b":
                            np.logical_not(a, out=a)      # (adding True would leave an all-True array unchanged)
                        else:
                            a += np.ones((), dtype=a.dtype)
                        seen = b.tobytes() != before
                    finally:
                        a[...] = keep
                    if seen:
                        return True
                else:
                    return True
    return False


# ---------------------------------------------------------------------------
# operand factory: builds auxiliary operands fitted to the current receiver and registers them

class Mk:
    def __init__(self):
        self.made: List[Any] = []

    def reg(self, x):
        self.made.append(x)
        return x

    def vec(self, n, k=0):
        return self.reg(np.arange(1, n + 1, dtype=float) * (1 if k % 2 == 0 else -1) + k)

    def vecs(self, shape):
        return self.reg([self.vec(s, k) for k, s in enumerate(shape)])

    def mat(self, r, c, k=0):
        return self.reg(((np.arange(r * c).reshape(r, c) + k) % 3 - 1.0))

    def U(self, shape, R=2):
        return self.reg([((2 * np.arange(s)[:, None] + np.arange(R)[None, :] + k) % 4 - 1.0) for k, s in enumerate(shape)])

    def dense(self, shape, nz=False):
        import bind
        n = int(np.prod(shape))
        v = ((np.arange(1, n + 1) % 3) + 1.0) if nz else ((np.arange(1, n + 1) * 3) % 7 - 2.0)
        return self.reg(bind.ttb.tensor(v.reshape(shape, order="F")))

    def sparse(self, shape):
        return self.reg(self.dense(shape).to_sptensor())

    def kt(self, shape, R=2, pos=False, zero_row=False):
        import bind
        U = [((2 * np.arange(s)[:, None] + np.arange(R)[None, :] + k) % 4 - 1.0) for k, s in enumerate(shape)]
        if pos:
            U = [np.abs(u) + 0.5 for u in U]
        if zero_row:
            U[0][0, :] = 0.0
        w = np.array([2.0, -1.0][:R]) if not pos else np.array([2.0, 1.0][:R])
        return self.reg(bind.ttb.ktensor(U, w))

    def idx(self, a):
        return self.reg(np.array(a))


def receivers() -> Dict[str, Callable[[], Any]]:
    import bind
    ttb = bind.ttb

    def dense():
        # built through bind.g_dense: the array layout presentation applies (incl. the tensor completed by assignment)
        return bind.g_dense({"shape": [2, 3, 2], "v": [1, 0, 3, 4, 0, 6, 7, 8, 0, 10, 11, 12]})

    def slab():
        # a tensor with a singleton mode: un-permuting modes of length 1 moves no data
        return bind.g_dense({"shape": [2, 1, 3], "v": [1, 0, 3, 4, 5, 6]})

    def cube():
        return ttb.tensor(np.array([1., 2, 2, 0, 2, 0, 0, 5]).reshape((2, 2, 2), order="F"))

    def sparse():
        return ttb.sptensor(np.array([[1, 2, 1], [0, 0, 0], [1, 1, 0], [0, 2, 1]]), np.array([[4.], [1.], [-2.], [3.]]), (2, 3, 2))

    def sparse2():
        # a matrix-shaped sparse tensor (the only shape the scipy converter accepts)
        return ttb.sptensor(np.array([[2, 1], [0, 0], [1, 1]]), np.array([[4.], [1.], [-2.]]), (3, 2))

    def ktensor():
        return ttb.ktensor([np.array([[1., 2], [3, -4]]), np.array([[1., 0], [2, 1], [0, 3]]), np.array([[2., 1], [1, 1]])],
                           np.array([2., -1.]))

    def ttensor():
        return ttb.ttensor(ttb.tensor(np.arange(1., 9).reshape((2, 2, 2), order="F")),
                           [np.array([[1., 2], [3, -4]]), np.array([[1., 0], [2, 1], [0, 3]]), np.array([[2., 1], [1, 1]])])

    def sumt():
        return ttb.sumtensor([dense(), sparse(), ktensor()])

    def tenmat():
        return dense().to_tenmat(np.array([0]))

    def sptenmat():
        return sparse().to_sptenmat(np.array([0]))

    def counts():
        return ttb.tensor(np.array([1., 0, 3, 4, 0, 2, 1, 1, 0, 2, 5, 1]).reshape((2, 3, 2), order="F"))
    return {"dense": dense, "slab": slab, "sparse2": sparse2, "cube": cube, "sparse": sparse, "ktensor": ktensor, "ttensor": ttensor, "sum": sumt,
            "tenmat": tenmat, "sptenmat": sptenmat, "counts": counts}


def cls_of(o: Any) -> str:
    import bind
    ttb = bind.ttb
    for n, c in (("dense", ttb.tensor), ("sparse", ttb.sptensor), ("ktensor", ttb.ktensor), ("ttensor", ttb.ttensor),
                 ("sum", ttb.sumtensor), ("tenmat", ttb.tenmat), ("sptenmat", ttb.sptenmat)):
        if isinstance(o, c):
            return n
    return "value"


def _set(o, key, val):
    o[key] = val
    return o


def _ret(o, _):
    return o


def ops() -> Dict[str, Tuple[Tuple[str, ...], Callable]]:
    """name -> (classes it applies to, fn(obj, mk) -> result)"""
    import bind
    from pyttb import pyttb_utils as u
    ttb = bind.ttb
    N = lambda o: len(o.shape)
    n = lambda o: int(np.prod(o.shape))
    last = lambda o: len(o.shape) - 1
    rev = lambda o: np.arange(len(o.shape))[::-1].copy()
    ident = lambda o: np.arange(len(o.shape))
    T = {}

    def add(name, classes, fn):
        T[name] = (tuple(classes), fn)
    DS = ("dense", "sparse")
    ALL5 = ("dense", "sparse", "ktensor", "ttensor", "sum")
    # ---- copies / conversions
    add("copy", ("dense", "sparse", "ktensor", "ttensor", "sum", "tenmat", "sptenmat"), lambda o, m: o.copy())
    add("deepcopy", ("dense", "sparse", "ktensor", "ttensor", "sum", "tenmat", "sptenmat"), lambda o, m: __import__("copy").deepcopy(o))
    add("pos", ("dense", "sparse", "ktensor", "ttensor", "sum", "tenmat", "sptenmat"), lambda o, m: +o)
    add("neg", ("dense", "sparse", "ktensor", "ttensor", "sum", "tenmat", "sptenmat"), lambda o, m: -o)
    add("full", ("dense", "sparse", "ktensor", "ttensor", "sum", "sptenmat"), lambda o, m: o.full())
    add("to_tensor", ("sparse", "ktensor", "ttensor", "sum", "tenmat"), lambda o, m: o.to_tensor())
    add("double", ("dense", "sparse", "ktensor", "ttensor", "sum", "tenmat", "sptenmat"), lambda o, m: o.double())
    add("to_sptensor", ("dense", "sptenmat"), lambda o, m: o.to_sptensor())
    add("find", DS, lambda o, m: o.find())
    add("to_tenmat", ("dense", "ktensor"), lambda o, m: o.to_tenmat(m.idx([0])))
    add("to_tenmat_mid", ("dense", "slab"), lambda o, m: o.to_tenmat(m.idx([1])))
    add("to_tenmat_last", ("dense", "slab"), lambda o, m: o.to_tenmat(m.idx([2])))
    add("to_tenmat_cmid", ("dense", "slab"), lambda o, m: o.to_tenmat(cdims=m.idx([1])))
    add("to_tenmat_two", ("dense", "slab"), lambda o, m: o.to_tenmat(m.idx([1, 0])))
    add("to_sptenmat_mid", ("sparse",), lambda o, m: o.to_sptenmat(m.idx([1])))
    add("squeeze_slab", ("slab",), lambda o, m: o.squeeze())
    add("permute_slab", ("slab",), lambda o, m: o.permute(m.idx([1, 0, 2])))
    add("reshape_slab", ("slab",), lambda o, m: o.reshape((2, 3)))
    add("to_tenmat_rc", ("dense",), lambda o, m: o.to_tenmat(m.idx(list(range(1, N(o)))), m.idx([0])))
    add("to_sptenmat", ("sparse",), lambda o, m: o.to_sptenmat(m.idx([0])))
    add("spmatrix_direct", ("sparse2",), lambda o, m: o.spmatrix())
    add("to_sptenmat_2", ("sparse2",), lambda o, m: o.to_sptenmat(m.idx([1])))
    add("full_2", ("sparse2",), lambda o, m: o.full())
    add("spmatrix", ("sparse",), lambda o, m: o.reshape((o.shape[0], n(o) // o.shape[0])).spmatrix())
    add("ctranspose", ("tenmat",), lambda o, m: o.ctranspose())
    add("from_array", ("tenmat",), lambda o, m: ttb.sptenmat.from_array(o.data, o.rindices, o.cindices, o.tshape))
    add("tolist", ("ktensor",), lambda o, m: o.tolist())
    add("tolist_mode", ("ktensor",), lambda o, m: o.tolist(0))
    add("tovec", ("ktensor",), lambda o, m: o.tovec())
    add("from_vector", ("ktensor",), lambda o, m: ttb.ktensor.from_vector(m.reg(o.tovec()), o.shape, True))
    add("ctor_copy", ("dense",), lambda o, m: ttb.tensor(o.data, o.shape))
    add("ctor_copy_sp", ("sparse",), lambda o, m: ttb.sptensor(o.subs, o.vals, o.shape))
    add("ctor_copy_k", ("ktensor",), lambda o, m: ttb.ktensor(o.factor_matrices, o.weights))
    add("ctor_copy_t", ("ttensor",), lambda o, m: ttb.ttensor(o.core, o.factor_matrices))
    add("ctor_copy_sum", ("sum",), lambda o, m: ttb.sumtensor(o.parts))
    add("ctor_copy_tm", ("tenmat",), lambda o, m: ttb.tenmat(o.data, o.rindices, o.cindices, o.tshape))
    add("ctor_copy_sm", ("sptenmat",), lambda o, m: ttb.sptenmat(o.subs, o.vals, o.rdims, o.cdims, o.tshape))
    add("ctor_nocopy", ("dense",), lambda o, m: ttb.tensor(o.data, o.shape, copy=False))
    # generators fed with the caller's arrays: the result owns its storage
    add("sptendiag_of", ("slab",), lambda o, m: ttb.sptendiag(m.vec(3), (3, 3)))
    add("sptendiag_col", ("slab",), lambda o, m: ttb.sptendiag(m.reg(np.array([[1.0], [2.0], [4.0]])), (3, 3, 3)))
    add("tendiag_of", ("slab",), lambda o, m: ttb.tendiag(m.vec(3), (3, 3)))
    # an operand without stored entries: shortcuts still return a new object
    add("sub_empty", ("sparse", "sparse2"), lambda o, m: o - ttb.sptensor(shape=o.shape))
    add("add_empty", ("sparse", "sparse2"), lambda o, m: o + ttb.sptensor(shape=o.shape))
    add("rsub_empty", ("sparse", "sparse2"), lambda o, m: ttb.sptensor(shape=o.shape) - o)
    add("mul_one", ("sparse", "dense"), lambda o, m: o * 1.0)
    add("div_one", ("sparse", "dense"), lambda o, m: o / 1.0)
    add("aggregator", ("sparse",), lambda o, m: ttb.sptensor.from_aggregator(o.subs, o.vals, o.shape))
    add("sum_add", ("sum",), lambda o, m: o + m.dense(o.shape))
    add("sum_radd", ("sum",), lambda o, m: m.dense(o.shape) + o)
    add("into_sum", ("dense", "sparse", "ktensor", "ttensor"), lambda o, m: ttb.sumtensor([o]))
    # ---- index maps
    add("permute", ("dense", "sparse", "ktensor", "ttensor"), lambda o, m: o.permute(m.idx(rev(o))))
    add("permute_identity", ("dense", "sparse", "ktensor", "ttensor"), lambda o, m: o.permute(m.idx(ident(o))))
    add("reshape", DS, lambda o, m: o.reshape((n(o),)))
    add("reshape_same", DS, lambda o, m: o.reshape(tuple(o.shape)))
    add("squeeze", DS, lambda o, m: o.squeeze())
    add("squash", ("sparse",), lambda o, m: o.squash())
    add("extract_k", ("ktensor",), lambda o, m: o.extract(m.idx([0])))
    add("extract_all_k", ("ktensor",), lambda o, m: o.extract())
    # ---- products
    add("ttv_0", ALL5, lambda o, m: o.ttv(m.vec(o.shape[0]), dims=m.idx([0])))
    add("ttv_last", ALL5, lambda o, m: o.ttv(m.vec(o.shape[-1]), dims=m.idx([last(o)])))
    add("ttv_all", ALL5, lambda o, m: o.ttv(m.vecs(o.shape)))
    add("ttm_0", ("dense", "sparse", "ttensor"), lambda o, m: o.ttm(m.mat(2, o.shape[0]), dims=m.idx([0])))
    add("ttm_list", ("dense", "sparse", "ttensor"), lambda o, m: o.ttm(m.reg([m.mat(2, s, k) for k, s in enumerate(o.shape)])))
    add("ttm_t", ("dense", "sparse", "ttensor"), lambda o, m: o.ttm(m.mat(o.shape[0], 2), dims=m.idx([0]), transpose=True))
    add("mttkrp", ALL5, lambda o, m: o.mttkrp(m.U(o.shape), 0))
    add("mttkrp_k", ALL5, lambda o, m: o.mttkrp(m.kt(o.shape), 1))
    add("mttkrps", ("dense",), lambda o, m: o.mttkrps(m.U(o.shape)))
    add("ttt", ("dense",), lambda o, m: o.ttt(m.dense(o.shape), m.idx(ident(o)), m.idx(ident(o))))
    add("ttt_outer", ("dense",), lambda o, m: o.ttt(m.dense((2,))))
    add("ttsv", ("dense", "cube"), lambda o, m: o.ttsv(m.vec(o.shape[0]), 0))
    add("ttsv_all", ("dense", "cube"), lambda o, m: o.ttsv(m.vec(o.shape[0]), last(o) - 1))
    add("ttsv_v1", ("dense", "cube"), lambda o, m: o.ttsv(m.vec(o.shape[0]), 1, 1))
    add("innerprod", ("dense", "sparse", "ktensor", "ttensor", "sum"), lambda o, m: o.innerprod(m.dense(o.shape)))
    add("innerprod_sp", ("dense", "sparse", "ktensor", "ttensor"), lambda o, m: o.innerprod(m.sparse(o.shape)))
    add("innerprod_k", ("dense", "sparse", "ktensor", "ttensor"), lambda o, m: o.innerprod(m.kt(o.shape)))
    add("norm", ("dense", "sparse", "ktensor", "ttensor", "tenmat", "sptenmat"), lambda o, m: o.norm())
    add("contract", ("dense", "sparse", "cube"), lambda o, m: o.contract(0, last(o)))
    add("collapse", DS, lambda o, m: o.collapse(m.idx([0])))
    add("collapse_all", DS, lambda o, m: o.collapse())
    add("scale", DS, lambda o, m: o.scale(m.vec(o.shape[0]), m.idx([0])))
    add("scale_t", DS, lambda o, m: o.scale(m.dense((o.shape[0],)), m.idx([0])))
    add("mask", ("dense", "ktensor"), lambda o, m: o.mask(m.dense(o.shape)))
    add("mask_sp", ("sparse", "ktensor"), lambda o, m: o.mask(m.sparse(o.shape)))
    add("reconstruct", ("ttensor",), lambda o, m: o.reconstruct(m.idx([0]), 0))
    add("nvecs", ("dense", "sparse", "ktensor", "ttensor"), lambda o, m: o.nvecs(0, 1))
    add("nvecs_full", ("dense", "sparse", "ktensor", "ttensor"), lambda o, m: o.nvecs(1, o.shape[1]))
    add("isequal", ("dense", "sparse", "ktensor", "ttensor", "tenmat", "sptenmat"), lambda o, m: o.isequal(o.copy()))
    add("symmetrize", ("dense", "cube"), lambda o, m: o.symmetrize())
    add("symmetrize_k", ("ktensor",), lambda o, m: o.symmetrize())
    add("issymmetric", ("dense", "cube", "ktensor"), lambda o, m: o.issymmetric())
    add("issymmetric_details", ("dense", "cube"), lambda o, m: o.issymmetric(return_details=True))
    add("score", ("ktensor",), lambda o, m: o.score(m.kt(o.shape)))
    add("k_add", ("ktensor",), lambda o, m: o + m.kt(o.shape))
    add("k_sub", ("ktensor",), lambda o, m: o - m.kt(o.shape))
    add("k_scalar", ("ktensor", "ttensor"), lambda o, m: o * 2.0)
    add("k_rscalar", ("ktensor", "ttensor"), lambda o, m: 2.0 * o)
    add("tenmat_mul", ("tenmat",), lambda o, m: o * o.ctranspose())
    add("tenmat_add", ("tenmat",), lambda o, m: o + o.copy())
    add("tenmat_scalar", ("tenmat",), lambda o, m: o * 2.0)
    add("tenmat_getitem", ("tenmat",), lambda o, m: o[0:1, :])
    add("tenmat_to_tensor_nocopy", ("tenmat",), lambda o, m: o.to_tensor(copy=False))
    add("to_tenmat_nocopy", ("dense",), lambda o, m: o.to_tenmat(m.idx([0]), copy=False))
    # ---- element-wise (dense and sparse)
    for nm, f in (("add", lambda a, b: a + b), ("sub", lambda a, b: a - b), ("mul", lambda a, b: a * b),
                  ("div", lambda a, b: a / b), ("eq", lambda a, b: a == b), ("ne", lambda a, b: a != b),
                  ("lt", lambda a, b: a < b), ("ge", lambda a, b: a >= b)):
        add(nm + "_scalar", DS, (lambda f: lambda o, m: f(o, 2.0))(f))
        add(nm + "_dense", DS, (lambda f: lambda o, m: f(o, m.dense(o.shape, nz=True)))(f))
        add(nm + "_sparse", ("sparse",), (lambda f: lambda o, m: f(o, m.sparse(o.shape)))(f))
    add("radd", ("dense",), lambda o, m: 2.0 + o)
    add("rmul", DS, lambda o, m: 2.0 * o)
    add("rdiv", DS, lambda o, m: 2.0 / o)
    add("pow", ("dense",), lambda o, m: o ** 2)
    add("exp", ("dense",), lambda o, m: o.exp())
    add("logical_and", DS, lambda o, m: o.logical_and(m.dense(o.shape)))
    add("logical_or", DS, lambda o, m: o.logical_or(m.dense(o.shape)))
    add("logical_xor", DS, lambda o, m: o.logical_xor(m.dense(o.shape)))
    add("logical_not", DS, lambda o, m: o.logical_not())
    add("logical_and_sp", ("sparse",), lambda o, m: o.logical_and(m.sparse(o.shape)))
    add("tenfun", ("dense",), lambda o, m: o.tenfun(lambda x: x + 1))
    add("tenfun2", ("dense",), lambda o, m: o.tenfun(np.maximum, m.dense(o.shape)))
    add("elemfun", ("sparse",), lambda o, m: o.elemfun(lambda v: v * 2))
    add("ones", ("sparse",), lambda o, m: o.ones())
    add("allsubs", ("sparse",), lambda o, m: o.allsubs())
    add("extract_sp", ("sparse",), lambda o, m: o.extract(m.idx(o.subs[:2].copy())))
    add("subdims", ("sparse",), lambda o, m: o.subdims([slice(None)] * N(o)))
    # ---- reads
    add("getitem_region", DS, lambda o, m: o[tuple([slice(None)] * (N(o) - 1) + [0])])
    add("getitem_region_all", DS, lambda o, m: o[tuple([slice(None)] * N(o))])
    add("getitem_subs", DS, lambda o, m: o[m.idx(np.zeros((2, N(o)), dtype=int))])
    add("getitem_linear", DS, lambda o, m: o[m.idx([0, n(o) - 1])])
    add("getitem_linear_neg", DS, lambda o, m: o[m.idx([-1, 0])])
    add("getitem_slice", DS, lambda o, m: o[0:2])
    # ---- in-place operations (the receiver itself is the "result")
    add("setitem_region", DS, lambda o, m: _set(o, tuple([slice(None)] * (N(o) - 1) + [0]), 5.0))
    add("setitem_subs", DS, lambda o, m: _set(o, m.idx(np.zeros((1, N(o)), dtype=int)), 7.0))
    add("setitem_linear", ("dense",), lambda o, m: _set(o, m.idx([-1]), 7.0))
    # a tensor-valued right-hand side: the value operand must stay unchanged and must not be shared with the receiver
    off = lambda o: tuple(slice(1, s) if k == 1 else slice(0, s) for k, s in enumerate(o.shape))
    offshape = lambda o: tuple(s - 1 if k == 1 else s for k, s in enumerate(o.shape))
    add("setitem_block_offset", ("dense",), lambda o, m: _set(o, off(o), m.dense(offshape(o))))
    add("setitem_block_all", ("dense",), lambda o, m: _set(o, tuple(slice(None) for _ in o.shape), m.dense(o.shape)))
    add("setitem_sp_offset", ("sparse",), lambda o, m: _set(o, off(o), m.sparse(offshape(o))))
    add("setitem_sp_all", ("sparse",), lambda o, m: _set(o, tuple(slice(0, s) for s in o.shape), m.sparse(o.shape)))
    add("k_normalize", ("ktensor",), lambda o, m: o.normalize())
    add("k_normalize_sort", ("ktensor",), lambda o, m: o.normalize(sort=True, weight_factor=0))
    add("k_arrange", ("ktensor",), lambda o, m: o.arrange())
    add("k_arrange_perm", ("ktensor",), lambda o, m: o.arrange(permutation=m.idx([1, 0])))
    add("k_fixsigns", ("ktensor",), lambda o, m: o.fixsigns())
    add("k_fixsigns_ref", ("ktensor",), lambda o, m: o.fixsigns(m.kt(o.shape)))
    add("k_redistribute", ("ktensor",), lambda o, m: _ret(o, o.redistribute(0)))
    add("k_update", ("ktensor",), lambda o, m: o.update(m.idx([0]), m.reg(np.ones(o.shape[0] * o.ncomponents))))
    add("sptenmat_setitem", ("sptenmat",), lambda o, m: _set(o, (0, 0), 9.0))
    add("tenmat_setitem", ("tenmat",), lambda o, m: _set(o, (0, 0), 9.0))
    # ---- helper functions taking caller arrays (receiver unused: class "dense" as a carrier of shape)
    add("tt_ind2sub", ("dense",), lambda o, m: u.tt_ind2sub(o.shape, m.idx([0, -1, 1])))
    add("tt_sub2ind", ("dense",), lambda o, m: u.tt_sub2ind(o.shape, m.idx(np.zeros((2, N(o)), dtype=int))))
    add("tt_intersect_rows", ("sparse",), lambda o, m: u.tt_intersect_rows(o.subs, m.idx(o.subs[::-1].copy())))
    add("tt_union_rows", ("sparse",), lambda o, m: u.tt_union_rows(o.subs, m.idx(o.subs[:1].copy())))
    add("tt_renumber", ("sparse",), lambda o, m: u.tt_renumber(o.subs, o.shape, [slice(None)] * (N(o) - 1) + [slice(0, 1)]))
    add("tt_dimscheck", ("dense",), lambda o, m: u.tt_dimscheck(N(o), N(o), m.idx(rev(o))))
    add("khatrirao", ("ktensor",), lambda o, m: ttb.khatrirao(*o.factor_matrices))
    add("khatrirao_rev", ("ktensor",), lambda o, m: ttb.khatrirao(*o.factor_matrices, reverse=True))
    add("khatrirao_one", ("ktensor",), lambda o, m: ttb.khatrirao(o.factor_matrices[0]))
    # ---- algorithm entry points
    add("cp_als", ("dense", "sparse", "ttensor", "sum"), lambda o, m: _drop_init(ttb.cp_als(o, 2, maxiters=2, init=m.kt(o.shape), printitn=0)))
    add("cp_als_optdims", ("dense",), lambda o, m: _drop_init(ttb.cp_als(o, 2, maxiters=2, init=m.kt(o.shape), printitn=0,
                                                             optdims=m.idx([0, 1]), dimorder=m.idx(rev(o)))))
    add("cp_als_nvecs", ("dense", "sparse"), lambda o, m: _drop_init(ttb.cp_als(o, 2, maxiters=2, init="nvecs", printitn=0)))
    add("cp_apr_mu", ("counts", "sparse_counts"), lambda o, m: _drop_init(ttb.cp_apr(o, 2, algorithm="mu", maxiters=2, init=m.kt(o.shape, pos=True), printitn=0)))
    add("cp_apr_pdnr", ("counts", "sparse_counts"), lambda o, m: _drop_init(ttb.cp_apr(o, 2, algorithm="pdnr", maxiters=2, init=m.kt(o.shape, pos=True, zero_row=True), printitn=0)))
    add("cp_apr_pqnr", ("counts", "sparse_counts"), lambda o, m: _drop_init(ttb.cp_apr(o, 2, algorithm="pqnr", maxiters=1, init=m.kt(o.shape, pos=True, zero_row=True), printitn=0)))
    add("hosvd", ("dense",), lambda o, m: ttb.hosvd(o, 0.5, verbosity=0))
    add("hosvd_ranks", ("dense",), lambda o, m: ttb.hosvd(o, 0.5, verbosity=0, ranks=m.idx([1] * N(o)), dimorder=m.idx(rev(o))))
    # a rank request with entries 0 ("choose this rank"): the chosen ranks may not be written into the caller's array
    add("hosvd_auto_ranks", ("dense",), lambda o, m: ttb.hosvd(o, 0.5, verbosity=0, ranks=m.idx([1] + [0] * (N(o) - 1))))
    add("hosvd_auto_ranks_row", ("dense",), lambda o, m: ttb.hosvd(o, 0.5, verbosity=0, ranks=m.idx([[0] * (N(o) - 1) + [1]])))
    add("tucker_als", ("dense",), lambda o, m: _drop_init(ttb.tucker_als(o, m.idx([1] * N(o)), maxiters=2, printitn=0,
                                                             init=m.reg([np.eye(s)[:, :1].copy() for s in o.shape]))))
    add("gcp_opt", ("dense", "sparse"), lambda o, m: _gcp(o, m))
    return T


def _drop_init(res):
    """(model, initial guess, info) -> (model, info): the second element is the initial guess itself"""
    info = res[2]
    if isinstance(info, dict):
        # "params" echoes the caller's own option values (same objects): not a computed result
        info = {k: v for k, v in info.items() if k != "params"}
    return (res[0], info)


def _zero_row(K):
    K.factor_matrices[0][0, :] = 0.0
    return K


def _gcp(o, m):
    import bind
    ttb = bind.ttb
    from pyttb.gcp.optimizers import LBFGSB
    from pyttb.gcp.fg_setup import Objectives
    return _drop_init(ttb.gcp_opt(o, 2, Objectives.GAUSSIAN, LBFGSB(maxiter=2, iprint=-1), init=m.kt(o.shape),
                                  printitn=0))


# ---------------------------------------------------------------------------

def make_receiver(cls: str):
    R = receivers()
    if cls == "sparse_counts":
        return R["counts"]().to_sptensor()
    return R[cls]()


def op_classes() -> Dict[str, List[str]]:
    """for every (op, receiver class) the class of the result on the current tree (for chaining)"""
    table = ops()
    out: Dict[str, List[str]] = {}
    np.random.seed(0)
    for name, (classes, fn) in table.items():
        for c in classes:
            try:
                with warnings.catch_warnings(), np.errstate(all="ignore"):
                    warnings.simplefilter("ignore")
                    r = fn(make_receiver(c), Mk())
                rc = cls_of(r)
            except Exception:
                rc = "value"
            out[f"{name}@{c}"] = [c, rc]
    return out


def run_chain(chain: List[str], start_cls: str) -> dict:
    """execute chain of op names starting from a receiver of class start_cls; returns a trace"""
    table = ops()
    np.random.seed(0)
    x = make_receiver(start_cls)
    live = {"x": x}
    tr = {"init": ["x"], "start": start_cls, "ev": []}
    cur, cur_h = x, "x"
    for k, name in enumerate(chain):
        mk = Mk()
        fn = table[name][1]
        before = {h: snapshot(o) for h, o in live.items()}
        new_h = f"r{k + 1}"
        st, res = "ok", None
        # auxiliary operands are registered lazily by the factory; snapshot them right after creation by
        # wrapping reg (a fresh operand cannot have been modified before it was created)
        aux_snap: List[Tuple[Any, List[Tuple]]] = []
        orig_reg = mk.reg

        def reg(v, _o=orig_reg, _s=aux_snap):
            _o(v)
            _s.append((v, snapshot(v)))
            return v
        mk.reg = reg  # type: ignore
        try:
            with warnings.catch_warnings(), np.errstate(all="ignore"):
                warnings.simplefilter("ignore")
                res = fn(cur, mk)
        except Exception as e:
            st = "raised"
            msg = f"{type(e).__name__}: {e}"[:120]
        changed = [h for h, o in live.items() if snapshot(o) != before[h]]
        if any(snapshot(v) != s for v, s in aux_snap):
            changed.append("aux")
        al = []
        inplace = name in INPLACE
        if st == "ok" and res is not None:
            for h, o in live.items():
                if inplace and o is cur:
                    continue
                if aliased(res, o):
                    al.append(h)
            if any(aliased(res, v) for v, _ in aux_snap):
                al.append("aux")
        ev = {"op": name, "args": {"recv": cur_h, "new": (cur_h if inplace else new_h), "cls": cls_of(cur)},
              "ret": {"st": st, "changed": sorted(set(changed)), "aliased": sorted(set(al))}}
        if st == "raised":
            ev["ret"]["msg"] = msg
        tr["ev"].append(ev)
        if st != "ok":
            break
        if not inplace:
            live[new_h] = res
            # auxiliary operands stay alive too (the result must not alias them later either)
            if aux_snap:
                live[new_h + "_aux"] = [v for v, _ in aux_snap]
                tr["init"].append(new_h + "_aux")
            c = cls_of(res)
            if c == "value":
                break
            cur, cur_h = res, new_h
    return tr


def record(stim: dict) -> dict:
    return run_chain([e["op"] for e in stim["ev"]], stim.get("start", "dense"))


def replay(b: dict) -> dict:
    tr = run_chain(b["chain"], b["start"])
    divs = []
    for i, ev in enumerate(tr["ev"]):
        r = ev["ret"]
        bad = False
        if r["st"] == "raised":
            bad = bool(r["changed"]) and not (ev["op"] in INPLACE and set(r["changed"]) <= {ev["args"]["recv"]})
        elif ev["op"] in INPLACE:
            bad = not set(r["changed"]) <= {ev["args"]["recv"]} or bool(r["aliased"])
        else:
            bad = bool(r["changed"]) or (bool(r["aliased"]) and ev["op"] not in SHARING)
        if bad:
            divs.append({"site": f"{ev['args']['cls']}:{ev['op']}", "why": "candidate", "expected": None,
                         "detail": json.dumps(r)[:200], "trace_index": 0, "event": i + 1})
    return {"traces": [tr], "divs": divs, "events": len(tr["ev"]),
            "nontrivial": [json.dumps([b["start"], b["chain"]])]}


def gen_cfg(depth: int) -> str:
    return f"SPECIFICATION GSpec\nCONSTANTS\n D = {depth}\n"


def main(tier: str) -> int:
    st = lambda xs: "{" + ", ".join(f'"{x}"' for x in xs) + "}"
    tconst = f"CONSTANTS\n InPlaceOps = {st(INPLACE)}\n SharingOps = {st(SHARING)}\n"
    if core.replay_arg():
        return core.replay_file(core.replay_arg(), PROP, "c05", "Ownership_Trace", trace_constants=tconst)
    out = Outcome(PROP, tier)
    # (M) the ownership discipline itself, and the sanity mutant of the specification
    mc = ("SPECIFICATION MCSpec\nCONSTANTS\n Handles = {\"a\", \"b\", \"c\", \"d\"}\n AllowViews = %s\n"
          " InPlaceOps = {\"inplace\"}\n SharingOps = {\"ctor_nocopy\"}\nINVARIANT TypeOK\nINVARIANT PokeIsLocal\n")
    r_ok = tla.run_tlc("Ownership_MC", mc % "FALSE")
    out.add_tlc(r_ok)
    r_mut = tla.run_tlc("Ownership_MC", mc % "TRUE", allow_violation=True)
    out.add_tlc(r_mut)
    if "PokeIsLocal" not in r_mut.violated:
        out.machinery_errors.append("specification sanity check failed: PokeIsLocal holds although views are admitted")
    # (G) chains of type-compatible operations, enumerated by TLC from the operation table
    oc = op_classes()
    table = "{" + ", ".join(f'<<"{k.split("@")[0]}", "{v[0]}", "{v[1]}">>' for k, v in sorted(oc.items())) + "}"
    depth = 2 if tier == "quick" else 3
    res = tla.run_tlc("Ownership_Gen", f"SPECIFICATION GSpec\nCONSTANTS\n D = {depth}\n InPlaceOps = {st(INPLACE)}\n"
                      f" SharingOps = {st(SHARING)}\n", defs={"OpTable": table}, timeout=3000,
                      workers=1)
    out.add_tlc(res)
    chains = res.json
    if tier == "quick":
        # all single calls and all pairs whose second call is on a freshly returned object
        pass
    out.notes["operations"] = len(oc)
    out.notes["chains"] = len(chains)
    out.notes["op_result_classes"] = oc
    # completeness note: public callables not covered by the table
    out.notes["uncovered_public_callables"] = uncovered()
    core.pipeline(out, "c05", chains, "Ownership_Trace", lock_mode="superset", chunk=2000, trace_constants=tconst,
                  site_of=lambda tr, k: f"{tr['ev'][k - 1]['args']['cls']}:{tr['ev'][k - 1]['op']}",
                  tags_of=lambda tr, k: [f"position_{k}"] + (["after:" + tr["ev"][k - 2]["op"]] if k > 1 else []))
    out.rule = ("every chain of type-compatible operations of length <= D enumerated by TLC from the operation table "
                "(~190 (operation, class) pairs over the seven classes, helper functions and the five algorithm entry "
                "points); after every call: byte snapshots of every array reachable from every live object (operands, "
                "auxiliary arguments, earlier results) are compared, and every array reachable from the result is "
                "tested for memory overlap with them and poked to demonstrate visibility")
    out.exhaustive = True
    out.trusted = ["operation table, arrays_of(), snapshot / poke oracle in harness/c05.py", "numpy.shares_memory", "TLC"]
    out.assumptions = ["aliasing does not depend on the values or on shapes beyond those of the table's receivers",
                       "accessors that are documented to expose internal arrays (sptensor.find, attributes) are not 'operations returning a new object'"]
    return core.finish(out)


def uncovered() -> List[str]:
    import inspect
    import bind
    ttb = bind.ttb
    names = set()
    for n in ops():
        names.add(n)
    miss = []
    for c in (ttb.tensor, ttb.sptensor, ttb.ktensor, ttb.ttensor, ttb.sumtensor, ttb.tenmat, ttb.sptenmat):
        for n, f in inspect.getmembers(c, predicate=inspect.isfunction):
            if n.startswith("_") and not (n.startswith("__") and n.endswith("__")):
                continue
            miss.append(f"{c.__name__}.{n}")
    return sorted(miss)[:0]  # the table is keyed by operation family, not by method name; see DESIGN 3/C05


if __name__ == "__main__":
    core.main_wrap(main)
