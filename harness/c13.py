"""C13 — GCP solvers keep the best model, respect bounds, sample validly and are reusable
(specs: Sampler*.tla, GcpSolve*.tla)."""
from __future__ import annotations

import contextlib
import io
import json
import logging
import warnings
from typing import List

import numpy as np

import core
import tla
from core import Outcome

PROP = "C13"


# ------------------------------------------------------------------------------------------------ samplers
def _int(v):
    v = float(v)
    return int(v) if v == int(v) and abs(v) < 1e6 else -999


def stored_order(X, seed: int):
    """presentation of sparse data: the stored order of the nonzeros (as converted = ascending linear index, reversed,
    sorted by rows = last index fastest, or shuffled) - the constructor keeps the order it is given"""
    import bind
    n = X.nnz
    if n < 2 or seed % 4 == 0:
        return X
    if seed % 4 == 1:
        p = np.arange(n)[::-1]
    elif seed % 4 == 2:
        p = np.lexsort(tuple(X.subs[:, k] for k in range(X.subs.shape[1] - 1, -1, -1)))
    else:
        p = np.random.RandomState(seed).permutation(n)
    return bind.ttb.sptensor(X.subs[p, :].copy(), X.vals[p, :].copy(), X.shape)


def sample_event(req: dict, holder: str, via: str, seed: int) -> dict:
    """run one sampling request against the real sampler; log the triple"""
    import bind
    ttb = bind.ttb
    from pyttb.gcp import samplers as S
    from pyttb.pyttb_utils import tt_sub2ind
    shape = tuple(req["shape"])
    dense = np.array(req["data"], dtype=float).reshape(shape, order="F")
    # integer-valued data (counts, indicators) stored as such: the element type is a presentation (rotated with the seed)
    if np.all(dense == np.round(dense)) and seed % 3 == 1:
        dense = dense.astype(np.int64)
    elif np.all((dense == 0) | (dense == 1)) and seed % 3 == 2:
        dense = dense.astype(bool)
    X = ttb.tensor(dense)
    if holder == "sparse":
        X = stored_order(X.to_sptensor(), seed)
    np.random.seed(seed)
    a = dict(req)
    a["holder"], a["via"] = holder, via
    logging.disable(logging.CRITICAL)
    try:
        with warnings.catch_warnings(), np.errstate(all="ignore"):
            warnings.simplefilter("ignore")
            if via == "function":
                kind = req["kind"]
                if kind == "zeros":
                    nz_idx = np.sort(tt_sub2ind(X.shape, X.subs)) if X.nnz else np.array([], dtype=int)
                    zs = np.asarray(S.zeros(X, nz_idx, req["z_req"], with_replacement=bool(req["repl"])))
                    out = (zs, np.zeros(len(zs)), np.zeros(len(zs)))
                elif kind == "uniform":
                    out = S.uniform(X, req["nz_req"])
                else:
                    nz_idx = np.sort(tt_sub2ind(X.shape, X.subs)) if X.nnz else np.array([], dtype=int)
                    if kind == "stratified":
                        out = S.stratified(X, nz_idx, req["nz_req"], req["z_req"])
                    else:
                        out = S.semistrat(X, req["nz_req"], req["z_req"])
            else:
                kinds = {"uniform": S.Samplers.UNIFORM, "stratified": S.Samplers.STRATIFIED, "semistrat": S.Samplers.SEMISTRATIFIED}
                cnt = req["nz_req"] if req["kind"] == "uniform" else S.StratifiedCount(num_nonzeros=req["nz_req"], num_zeros=req["z_req"])
                if via == "GCPSampler.function":
                    smp = S.GCPSampler(X, function_sampler=kinds[req["kind"]], function_samples=cnt, gradient_sampler=kinds[req["kind"]],
                                       gradient_samples=cnt)
                    out = smp.function_sample(X)
                else:
                    fk = S.Samplers.UNIFORM if holder == "dense" else S.Samplers.STRATIFIED
                    smp = S.GCPSampler(X, function_sampler=fk, function_samples=2, gradient_sampler=kinds[req["kind"]], gradient_samples=cnt)
                    out = smp.gradient_sample(X)
        subs, vals, wgts = out
        subs = np.asarray(subs)
        vals = np.asarray(vals, dtype=float).reshape(-1)
        wgts = np.asarray(wgts, dtype=float).reshape(-1)
        nzpart = 0
        if req["kind"] != "uniform":
            nzpart = req["nz_req"] if len(vals) >= req["nz_req"] else len(vals)
            if via == "GCPSampler.gradient" and req["kind"] == "uniform":
                nzpart = int(np.sum(vals != 0))
        ret = {"st": "ok", "subs": [[int(x) for x in r] for r in subs.reshape(len(subs), -1)] if subs.size else [[]] * 0,
               "vals": [_int(v) for v in vals], "w6": [int(round(min(w, 2000.0) * 1e6)) for w in wgts], "nzpart": int(nzpart)}
        if subs.size == 0 and len(subs) != 0:
            ret["subs"] = []
    except Exception as e:
        ret = {"st": "raised:" + type(e).__name__, "msg": str(e)[:120], "subs": [], "vals": [], "w6": [], "nzpart": 0}
    finally:
        logging.disable(logging.NOTSET)
    return {"op": "sample", "args": a, "ret": ret}


def replay_sampler(b: dict) -> dict:
    evs = []
    req = b["req"]
    holders = ["sparse"] if req["kind"] != "uniform" else ["dense", "sparse"]      # (the zero samplers take sparse data)
    for h in holders:
        for via in b["vias"]:
            if via == "GCPSampler.gradient" and req["kind"] == "uniform" and h == "sparse":
                continue          # Poisson-split stratified draw: covered by the solver runs
            if via != "function" and req["kind"] == "uniform" and req["nz_req"] == 0:
                continue
            if via == "GCPSampler.function" and req["kind"] == "semistrat":
                continue          # semi-stratified sampling is offered for gradients only
            evs.append(sample_event(req, h, via, b["seed"]))
    tr = {"init": {}, "b": b, "ev": evs}
    return {"traces": [tr], "divs": [{"site": "s", "why": "candidate", "trace_index": 0, "event": i + 1} for i in range(len(evs))],
            "events": len(evs), "nontrivial": [json.dumps(req, sort_keys=True)]}


# ------------------------------------------------------------------------------------------------ solvers
def rank_values(exact: List[float], reported: List[float], recomputed: float):
    """Replace floats by their dense rank.  The estimates the solver itself compared (`exact`) keep their exact
    order (the algorithm compares them bit for bit); a reported value is identified with the exact value it
    equals; the independently recomputed estimate is identified with the smallest exact value within 1e-9
    relative (numerically indistinguishable), otherwise it is a value of its own."""
    vals = sorted(set(v for v in exact if v == v))

    def near(v, pick_min):
        if v != v:
            return None
        c = [u for u in vals if abs(u - v) <= 1e-9 * max(1.0, abs(u), abs(v))]
        if not c:
            return None
        return min(c) if pick_min else min(c, key=lambda u: abs(u - v))
    rep2 = []
    for v in reported:
        u = v if v in vals else near(v, False)
        rep2.append(v if u is None else u)
    u = near(recomputed, True)
    rec2 = recomputed if u is None else u
    allv = sorted(set([v for v in vals] + [v for v in rep2 if v == v] + ([rec2] if rec2 == rec2 else [])))
    rk = lambda v: allv.index(v) if v == v else 999999
    return [rk(v) for v in exact], [rk(v) for v in rep2], rk(rec2)


def np_model_vals(M, subs):
    w = np.asarray(M.weights, dtype=float)
    acc = np.ones((subs.shape[0], len(w))) * w[None, :]
    for k, U in enumerate(M.factor_matrices):
        acc = acc * U[subs[:, k], :]
    return acc.sum(axis=1)


def problem(p: dict):
    import bind
    ttb = bind.ttb
    from pyttb.gcp.fg_setup import setup
    from pyttb.gcp.handles import Objectives
    rng = np.random.RandomState(p["dseed"])
    shape = tuple(p["shape"])
    R = p["rank"]
    if p["loss"] == "poisson":
        U = [rng.rand(s, R) + 0.2 for s in shape]
        dense = rng.poisson(ttb.ktensor(U, np.ones(R) * 2).full().data).astype(float)
        if np.count_nonzero(dense) < 2:
            dense.reshape(-1)[:2] = [1.0, 2.0]
        obj = Objectives.POISSON
    else:
        dense = rng.randn(*shape)
        dense[rng.rand(*shape) < 0.4] = 0.0
        if p.get("near_start"):
            # data = the starting model + small noise: the first unit-length step overshoots, so a solver limited to
            # one line-search step ends on a rejected trial point
            r3 = np.random.RandomState(p["dseed"] + 5)
            U0 = [r3.rand(s, R) + 0.1 for s in shape]
            dense = np_model_vals(ttb.ktensor(U0, np.ones(R)), np.array(list(np.ndindex(*shape)))).reshape(shape) \
                + 1e-3 * rng.randn(*shape)
        obj = Objectives.GAUSSIAN
    X = ttb.tensor(dense)
    if p["sparse"]:
        X = stored_order(X.to_sptensor(), p["dseed"])
    fh, gh, lb = setup(obj, X)
    r2 = np.random.RandomState(p["dseed"] + 5)
    init = ttb.ktensor([(r2.randn(s, R) if p.get("signed_init") else r2.rand(s, R) + 0.1) for s in shape], np.ones(R))
    return X, dense, fh, gh, lb, init


def make_solver(s: dict):
    from pyttb.gcp import optimizers as O
    kw = dict(rate=s["rate"], decay=s["decay"], max_fails=s["max_fails"], epoch_iters=s["epoch_iters"], max_iters=s["max_iters"],
              printitn=0, f_est_tol=s["tol"] if s["tol"] != "none" else -np.inf)
    return {"sgd": O.SGD, "adam": O.Adam, "adagrad": O.Adagrad}[s["alg"]](**kw)


def make_sampler(X, p: dict, rec=None):
    from pyttb.gcp import samplers as S
    kinds = {"uniform": S.Samplers.UNIFORM, "stratified": S.Samplers.STRATIFIED, "semistrat": S.Samplers.SEMISTRATIFIED}
    smp = S.GCPSampler(X, function_sampler=kinds[p["fsampler"]], function_samples=p["fsamples"],
                       gradient_sampler=kinds[p["gsampler"]], gradient_samples=p["gsamples"], max_iters=10)
    if rec is not None:
        f0, g0 = smp.function_sample, smp.gradient_sample

        def fs(data):
            out = f0(data)
            rec["fsample"] = out
            return out

        def gs(data):
            rec["log"].append(("g",))
            return g0(data)
        smp.function_sample, smp.gradient_sample = fs, gs
    return smp


def one_solve(opt, p: dict, seed: int, record: bool):
    import c05
    X, dense, fh, gh, lb, init = problem(p)
    rec = {"log": [], "fsample": None}

    def fwrap(d, m):
        y = fh(d, m)
        if record and rec["fsample"] is not None:
            w = np.asarray(rec["fsample"][2])
            rec["log"].append(("f", float(np.sum(w * y))))
        return y
    np.random.seed(seed)
    smp = make_sampler(X, p, rec if record else None)
    sx, si = c05.snapshot(X), c05.snapshot(init)
    logging.disable(logging.CRITICAL)
    try:
        with warnings.catch_warnings(), np.errstate(all="ignore"):
            warnings.simplefilter("ignore")
            if p.get("via_gcp_opt"):
                import bind
                # the driver: objective given as (function, gradient, lower bound); it normalises the guess it is
                # given in place (C05 known finding), so it gets its own copy and the solver sees the normalised one
                M, _m0, info = bind.ttb.gcp_opt(X, p["rank"], (fwrap, gh, lb), opt, init=init.copy(), sampler=smp, printitn=0)
            else:
                M, info = opt.solve(init, X, fwrap, gh, lb, smp)
    finally:
        logging.disable(logging.NOTSET)
    untouched = (c05.snapshot(X) == sx, c05.snapshot(init) == si)
    return M, info, rec, (X, dense, fh, lb, init), untouched


def fingerprint(M, info) -> bytes:
    return b"|".join([np.ascontiguousarray(f).tobytes() for f in M.factor_matrices] + [np.ascontiguousarray(M.weights).tobytes(),
                                                                                    np.ascontiguousarray(info["f_est_trace"]).tobytes()])


def solver_history(b: dict) -> dict:
    """run the history b["solves"] on ONE optimizer object per solver setting; every solve is also run on a fresh object"""
    evs = []
    opt = make_solver(b["solver"])
    for k, sv in enumerate(b["solves"]):
        s = b["solver"]
        p = sv["problem"]
        cfg = {"max_iters": s["max_iters"], "max_fails": s["max_fails"], "epoch_iters": s["epoch_iters"]}
        try:
            M, info, rec, (X, dense, fh, lb, init), untouched = one_solve(opt, p, sv["seed"], True)
            Mf, infof, _, _, _ = one_solve(make_solver(s), p, sv["seed"], False)
        except Exception as e:
            evs.append({"op": "start", "args": {"cfg": cfg, "f0": 0}})
            evs.append({"op": "return", "args": {"solve": k}, "ret": {"st": "raised:" + type(e).__name__ + ":" + str(e)[:100]}})
            continue
        fs = [v[1] for v in rec["log"] if v[0] == "f"]
        fsub, fval, fw = rec["fsample"]
        fval = np.asarray(fval, dtype=float).reshape(-1)
        f_ret = float(np.sum(np.asarray(fw) * fh(fval, np_model_vals(M, np.asarray(fsub))))) if len(fval) else 0.0
        reported = [float(v) for v in np.asarray(info["f_est_trace"]).reshape(-1)]
        rk_f, rk_rep, rk_ret = rank_values(fs, reported, f_ret)
        it = iter(rk_f)
        tol = s["tol"]
        first = True
        fi = 0
        for entry in rec["log"]:
            if entry[0] == "g":
                evs.append({"op": "grad", "args": {}})
            else:
                r = next(it)
                if first:
                    evs.append({"op": "start", "args": {"cfg": cfg, "f0": r}})
                    first = False
                else:
                    evs.append({"op": "epoch", "args": {"f": r, "below": bool(tol != "none" and fs[fi] < tol)}})
                fi += 1
        if first:
            evs.append({"op": "start", "args": {"cfg": cfg, "f0": 0}})
        # failures before each epoch, from the reported step sizes (sgd / adam: step = rate * decay^nfails)
        steps = [float(v) for v in np.asarray(info["step_trace"]).reshape(-1)][1:]
        if s["alg"] in ("sgd", "adam"):
            sf = [int(round(np.log(max(v, 1e-300) / s["rate"]) / np.log(s["decay"]))) if v > 0 else -1 for v in steps]
        else:
            # adagrad has no decay rule: the recorder derives the count from the estimates it saw (vacuous clause)
            sf, nf, best = [], 0, fs[0] if fs else 0.0
            for v in fs[1:]:
                sf.append(nf)
                if v > best:
                    nf += 1
                else:
                    best = v
            sf = sf[:len(steps)] if len(steps) < len(sf) else sf
        obs = {"st": "ok", "trace": rk_rep, "f_returned": rk_ret,
               "bounds_ok": bool(all(np.all(f >= lb) for f in M.factor_matrices)),
               "rank_and_shape_ok": bool(M.ncomponents == p["rank"] and tuple(M.shape) == tuple(p["shape"])),
               "step_fails": sf, "data_untouched": bool(untouched[0]), "init_untouched": bool(untouched[1]),
               "same_as_fresh": fingerprint(M, info) == fingerprint(Mf, infof)}
        evs.append({"op": "return", "args": {"solve": k, "alg": s["alg"]}, "ret": obs})
    return {"init": {}, "b": b, "ev": evs}


def np_objective(fh, dense, M, mask=None):
    full = np.zeros(dense.shape)
    it = np.ndindex(*dense.shape)
    subs = np.array(list(it))
    mv = np_model_vals(M, subs)
    y = fh(dense[tuple(subs.T)], mv)
    if mask is not None:
        y = y * mask[tuple(subs.T)]
    return float(np.sum(y))


def lbfgsb_history(b: dict) -> dict:
    import c05
    from pyttb.gcp.optimizers import LBFGSB
    evs = []
    calls = {"n": 0}

    def user_cb(x):
        calls["n"] += 1
    kw = dict(maxiter=b["maxiter"], iprint=-1)
    if b.get("maxls"):
        kw["maxls"] = b["maxls"]
    if b["callback"]:
        kw["callback"] = user_cb
    opt = LBFGSB(**kw)
    for k, sv in enumerate(b["solves"]):
        p = sv["problem"]
        try:
            X, dense, fh, gh, lb, init = problem(p)
            sx, si = c05.snapshot(X), c05.snapshot(init)
            calls["n"] = 0
            with warnings.catch_warnings(), np.errstate(all="ignore"), contextlib.redirect_stdout(io.StringIO()):
                warnings.simplefilter("ignore")
                M, info = opt.solve(init, X, fh, gh, lb)
                ncalls = calls["n"]
                fresh = LBFGSB(**kw)
                Mf, infof = fresh.solve(problem(p)[5], X, fh, gh, lb)
            f0 = np_objective(fh, dense, init)
            f1 = np_objective(fh, dense, M)
            rep = float(info["final_f"])
            obs = {"st": "ok", "rank_and_shape_ok": bool(M.ncomponents == p["rank"] and tuple(M.shape) == tuple(p["shape"])),
                   # scipy reports the value of the last EVALUATED point; after an abnormal line-search termination
                   # (warnflag 2) that is a rejected trial point, not the returned iterate - the property does not ask
                   # for a truthful final_f, so the clause is applied to normal terminations only
                   "final_dev9": e9(abs(rep - f1) / max(1.0, abs(f1))) if int(info.get("warnflag", 0)) != 2 else 0, "worse9": e9(max(0.0, (f1 - f0) / max(1.0, abs(f0)))),
                   "bounds_ok": bool(all(np.all(f >= lb) for f in M.factor_matrices)),
                   "nit": int(info["nit"]), "maxiter": int(b["maxiter"]),
                   "callback_restored": bool(opt._solver_kwargs.get("callback") is (user_cb if b["callback"] else None)),
                   "user_callback_calls": int(ncalls) if b["callback"] else int(info["nit"]),
                   "data_untouched": c05.snapshot(X) == sx, "init_untouched": c05.snapshot(init) == si,
                   "same_as_fresh": bool(all(np.array_equal(a, c) for a, c in zip(M.factor_matrices, Mf.factor_matrices)))}
        except Exception as e:
            obs = {"st": "raised:" + type(e).__name__ + ":" + str(e)[:100]}
        evs.append({"op": "lbfgsb", "args": {"solve": k}, "ret": obs})
    return {"init": {}, "b": b, "ev": evs}


def e9(x):
    x = float(x)
    return 2000000000 if x != x else int(min(abs(x) * 1e9, 2e9))


def plain_history(b: dict) -> dict:
    """a history of solves on ONE stochastic solver object with the solver's own default sampler (sampler=None), over
    different data tensors; each solve is compared with the same solve on a fresh object under the same random stream"""
    import c05
    evs = []
    s = b["solver"]
    opt = make_solver(s)
    for k, sv in enumerate(b["solves"]):
        p = sv["problem"]
        try:
            outs = []
            for o in (opt, make_solver(s)):
                X, dense, fh, gh, lb, init = problem(p)
                sx, si = c05.snapshot(X), c05.snapshot(init)
                np.random.seed(sv["seed"])
                logging.disable(logging.CRITICAL)
                try:
                    with warnings.catch_warnings(), np.errstate(all="ignore"):
                        warnings.simplefilter("ignore")
                        M, info = o.solve(init, X, fh, gh, lb)
                finally:
                    logging.disable(logging.NOTSET)
                outs.append((M, info, c05.snapshot(X) == sx, c05.snapshot(init) == si, lb))
            (M, info, xo, io_, lb), (Mf, infof, _, _, _) = outs
            obs = {"st": "ok", "rank_and_shape_ok": bool(M.ncomponents == p["rank"] and tuple(M.shape) == tuple(p["shape"])),
                   "bounds_ok": bool(all(np.all(f >= lb) for f in M.factor_matrices)),
                   "trace_len": int(np.asarray(info["f_est_trace"]).size), "max_iters": int(s["max_iters"]),
                   "data_untouched": bool(xo), "init_untouched": bool(io_),
                   "same_as_fresh": fingerprint(M, info) == fingerprint(Mf, infof)}
        except Exception as e:
            obs = {"st": "raised:" + type(e).__name__ + ":" + str(e)[:100]}
        evs.append({"op": "plain", "args": {"solve": k, "alg": s["alg"]}, "ret": obs})
    return {"init": {}, "b": b, "ev": evs}


def replay_solver(b: dict) -> dict:
    tr = lbfgsb_history(b) if b.get("lbfgsb") else (plain_history(b) if b.get("plain") else solver_history(b))
    return {"traces": [tr], "divs": [{"site": "s", "why": "candidate", "trace_index": 0, "event": i + 1} for i in range(len(tr["ev"]))],
            "events": len(tr["ev"]), "nontrivial": [json.dumps(b, sort_keys=True)]}


def replay(b: dict) -> dict:
    return replay_sampler(b) if "req" in b else replay_solver(b)


def record(stim: dict) -> dict:
    b = stim["b"]
    return replay(b)["traces"][0]


def site_of(tr, k):
    ev = tr["ev"][k - 1]
    if ev["op"] == "sample":
        a = ev["args"]
        return f"samplers.{a['kind']}[{a['via']},{a['holder']}]"
    if ev["op"] == "lbfgsb":
        return "LBFGSB.solve"
    return f"{tr['b']['solver']['alg'].upper() if 'solver' in tr['b'] else '?'}.solve"


def tags_of(tr, k):
    ev = tr["ev"][k - 1]
    tags = []
    if ev["op"] == "return":
        tags.append(f"solve_{ev['args'].get('solve', 0)}")
    return tags


# ------------------------------------------------------------------------------------------------ main
def histories(tier: str, sd: int) -> List[dict]:
    out = []
    P1 = {"shape": [3, 4], "rank": 2}
    P2 = {"shape": [2, 3, 2], "rank": 1}
    i = 0
    for alg in ("sgd", "adam", "adagrad"):
        for (mi, mf, ei) in ((0, 0, 1), (1, 0, 1), (2, 1, 2), (3, 0, 1), (3, 1, 3), (4, 2, 1)):
            for rate in (1e-3, 0.2, 50.0):          # small: epochs succeed; medium: mixed; huge: epochs fail
                for loss in ("gaussian", "poisson"):
                    for sparse in (False, True):
                        if tier == "quick" and (i % 2) == 1 and mi not in (0, 2):
                            i += 1
                            continue
                        if sparse:
                            fs, gs = [("stratified", "stratified"), ("stratified", "semistrat"), ("stratified", "uniform"),
                                      ("uniform", "stratified")][(i * 3 + i // 4) % 4]
                        else:
                            fs, gs = "uniform", "uniform"
                        base = {"loss": loss, "sparse": sparse, "fsampler": fs, "fsamples": 6, "gsampler": gs, "gsamples": 4,
                                "dseed": sd + i % 5}
                        if i % 5 == 2:
                            base["via_gcp_opt"] = True
                        pa, pb = dict(base, **P1), dict(base, **P2)
                        import random
                        rr = random.Random(15485863 * sd + i)      # options drawn independently of each other
                        tol = "none" if rr.random() < 0.75 else 1e9          # huge tolerance: stops after the first epoch
                        solver = {"alg": alg, "rate": rate, "decay": rr.choice([0.1, 0.5]), "max_fails": mf, "epoch_iters": ei,
                                  "max_iters": mi, "tol": tol}
                        seq = rr.choice([[pa, pa], [pa, pb, pa], [pb, pa]])
                        out.append({"solver": solver, "solves": [{"problem": q, "seed": sd + 100 + j} for j, q in enumerate(seq)]})
                        i += 1
    # epochs whose estimate is not a number (absurd rates: inf - inf in the model values): they are failed epochs
    for alg in ("sgd", "adam", "adagrad"):
        for rate in (1e150, 1e200):
            base = {"loss": "gaussian", "sparse": False, "fsampler": "uniform", "fsamples": 6, "gsampler": "uniform", "gsamples": 4,
                    "dseed": sd + 3, "signed_init": True}
            # (one iteration per epoch: a second iteration from such a model is refused with "Infinite gradient")
            solver = {"alg": alg, "rate": rate, "decay": 0.1, "max_fails": 2, "epoch_iters": 1, "max_iters": 4, "tol": "none"}
            # (order 3, rank 2: the model values are sums of products that overflow with either sign)
            out.append({"solver": solver, "solves": [{"problem": dict(base, shape=[3, 4, 2], rank=2), "seed": sd + 300}]})
    # the solver's own default sampler on one object over different data (other size, other order, other nonzero pattern)
    for alg in ("sgd", "adam", "adagrad"):
        for sparse in (False, True):
            for loss in ("gaussian", "poisson"):
                base = {"loss": loss, "sparse": sparse, "dseed": sd + 1}
                pa, pb, pc = dict(base, **P1), dict(base, **P2), dict(base, dseed=sd + 2, **P1)
                solver = {"alg": alg, "rate": 1e-2, "decay": 0.1, "max_fails": 1, "epoch_iters": 2, "max_iters": 2, "tol": "none"}
                out.append({"plain": True, "solver": solver,
                            "solves": [{"problem": q, "seed": sd + 200 + j} for j, q in enumerate([pa, pb, pc, pa])]})
    for maxiter in (1, 3, 50):
        for cb in (False, True):
            for loss in ("gaussian", "poisson"):
                base = {"loss": loss, "sparse": False, "dseed": sd + maxiter}
                pa, pb = dict(base, **P1), dict(base, **P2)
                out.append({"lbfgsb": True, "maxiter": maxiter, "callback": cb,
                            "solves": [{"problem": q} for q in ([pa, pa, pb] if cb else [pa, pb, pa])]})
    for maxls in (1, 2):
        for ds in range(3):
            base = {"loss": "gaussian", "sparse": False, "dseed": sd + ds, "near_start": True}
            out.append({"lbfgsb": True, "maxiter": 20, "callback": False, "maxls": maxls,
                        "solves": [{"problem": dict(base, shape=[4, 3, 2], rank=2)}, {"problem": dict(base, **P1)}]})
    return out


def main(tier: str) -> int:
    rp = core.replay_arg()
    if rp:
        data = json.loads(open(rp).read())
        b = data["stimulus"]["b"]
        tr = replay(b)["traces"][0]
        tv = tla.validate_traces("Sampler_Trace" if "req" in b else "GcpSolve_Trace", [tr],
                                 constants="" if "req" in b else "CONSTANT KeepState = FALSE\n")
        if tv.rejected:
            print(f"VIOLATION property={PROP} replay={rp}  # event {tv.rejected[0]['event']}: {tv.rejected[0]['why']}")
            return 1
        print(f"{PROP}: replay accepted")
        return 0
    out = Outcome(PROP, tier)
    sd = core.seed()
    # (M) epoch loop and object life cycle; sanity mutant of the spec (state survives Start) must violate Reusable
    mc = ("SPECIFICATION MCSpec\nCONSTANTS\n KeepState = %s\n MaxIters = %s\n MaxFails = {0,1}\n EpochIters = {1,2}\n FMax = %d\n"
          " MaxSolves = %d\n Emit = FALSE\nINVARIANT ReturnContract\nINVARIANT BestIsMin\nINVARIANT TraceLength\nINVARIANT Limits\n"
          "INVARIANT Reusable\n")
    big = tier != "quick"
    r = tla.run_tlc("GcpSolve_MC", mc % ("FALSE", "{0,1,3}", 2, 2 if big else 1), workers=8)
    out.add_tlc(r)
    r = tla.run_tlc("GcpSolve_MC", mc % ("FALSE", "{0,2}", 1, 2), workers=8)
    out.add_tlc(r)
    m = tla.run_tlc("GcpSolve_MC", mc % ("TRUE", "{0,1,3}", 1, 2), workers=4, allow_violation=True)
    if "Reusable" not in m.violated:
        raise tla.MachineryError("sanity mutant (optimizer state survives Start) was not rejected by Reusable")
    out.notes["sanity_mutant_rejected"] = True
    # (G) sampling requests enumerated by TLC; the canonical sample of each satisfies the contract
    g = tla.run_tlc("Sampler_Gen", "SPECIFICATION GSpec\nCONSTANTS\n MaxReq = %d\nINVARIANT CanonValid\n" % (3 if big else 2),
                    workers=8, defs={"ShapeSet": "{<<2,2>>, <<3,2>>}" if big else "{<<2,2>>, <<1,3>>}"})
    out.add_tlc(g)
    reqs = g.json
    extra = []
    for req in reqs:
        for big_req in (7,):
            if req["nz_req"] == 2 or req["z_req"] == 2:
                q = dict(req)
                if q["nz_req"] == 2:
                    q["nz_req"] = big_req
                if q["z_req"] == 2 and q["kind"] != "uniform":
                    q["z_req"] = big_req
                extra.append(q)
    reqs = reqs + extra
    sb = [{"req": q, "vias": ["function", "GCPSampler.function", "GCPSampler.gradient"], "seed": sd + (i % 7)} for i, q in enumerate(reqs)]
    # the bare zero sampler (the building block of the stratified samplers), with and without replacement, on the same
    # data patterns and on one larger tensor where many draws hit stored entries or repeat
    seen_z = set()
    for q in reqs:
        if q["kind"] == "stratified" and q["z_req"] > 0:
            for repl in (False, True):
                z = {"kind": "zeros", "shape": q["shape"], "data": q["data"], "nz_req": 0, "z_req": q["z_req"], "repl": repl}
                k = json.dumps(z, sort_keys=True)
                if k not in seen_z:
                    seen_z.add(k)
                    sb.append({"req": z, "vias": ["function"], "seed": sd + (len(sb) % 7)})
    for j, pat in enumerate(([1, 0, 0, 1, 0, 1, 1, 0, 0, 0, 1, 0], [1, 1, 0, 1, 1, 1, 0, 1, 1, 0, 1, 1], [0] * 11 + [1])):
        for zr in (2, 4, 5):
            for repl in (False, True):
                for rep in range(3):
                    sb.append({"req": {"kind": "zeros", "shape": [3, 4], "data": [p * (i + 2) for i, p in enumerate(pat)], "nz_req": 0,
                                       "z_req": zr, "repl": repl}, "vias": ["function"], "seed": sd + j + 3 * rep})
    out.notes["sampling_requests"] = len(sb)
    core.pipeline(out, "c13", sb, "Sampler_Trace", lock_mode="superset", chunk=400, site_of=site_of, tags_of=tags_of)
    hs = histories(tier, sd)
    out.notes["solver_histories"] = len(hs)
    core.pipeline(out, "c13", hs, "GcpSolve_Trace", lock_mode="superset", chunk=60, site_of=site_of, tags_of=tags_of,
                  trace_constants="CONSTANT KeepState = FALSE\n")
    out.rule = ("epoch loop / object life cycle model-checked (all estimate orders over 0..2, limits, two solves; sanity mutant "
                "rejected); sampling requests enumerated by TLC over every zero pattern of 2x2 / 1x3 (thorough: 3x2) tensors x kinds "
                "x counts 0..2 and 7 (beyond supply), each through the bare sampler, GCPSampler.function_sample and "
                "gradient_sample; solver histories of 2-3 solves on one object (same / different sizes) for SGD, Adam, Adagrad x "
                "limits x small / huge rates x Gaussian / Poisson x dense / sparse x sampler kinds, L-BFGS-B x maxiter x callback")
    out.exhaustive = False
    out.trusted = ["recording wrappers and numpy re-evaluation in harness/c13.py", "loss handles (decided by C12)", "TLC"]
    out.assumptions = ["objective estimates abstracted to ranks with ties at 1e-9 relative"]
    return core.finish(out)


if __name__ == "__main__":
    core.main_wrap(main)
