"""X02 (extension) — algebra of tenmat / sptenmat / sumtensor / ttensor (spec: MatAlgebra*.tla)."""
from __future__ import annotations

import json

import numpy as np

import core
import tla
from core import Outcome

PROP = "X02"


def make(v: dict):
    import bind
    import c01
    return c01.make(v, {})


def project(o, r):
    import bind
    ttb = bind.ttb
    if isinstance(r, (bool, np.bool_)):
        return {"kind": "bool", "val": bool(r)}
    if isinstance(r, (ttb.sumtensor, ttb.ttensor)):
        kind = "sum" if isinstance(r, ttb.sumtensor) else "ttensor"
        f = r.full()
        out = {"kind": kind, "den": {"shape": [int(s) for s in f.shape], "v": bind.flatF(f.data)}}
        if kind == "sum":
            out["parts"] = len(r.parts)
        return out
    return bind.alpha(r)


def apply(o, op: str, a: dict):
    other = make(a["other"]) if "other" in a else None
    c = a.get("c")
    if op == "ctranspose":
        return o.ctranspose()
    if op == "normsq":
        n2 = float(o.norm()) ** 2
        if abs(n2 - round(n2)) > 1e-6 * max(1.0, n2):
            raise ValueError(f"norm^2 = {n2} is not an integer")
        return int(round(n2))
    if op == "pos":
        return +o
    if op == "neg":
        return -o
    if op == "add_scalar":
        return o + c
    if op == "radd_scalar":
        return c + o
    if op == "sub_scalar":
        return o - c
    if op == "rsub_scalar":
        return c - o
    if op == "mul_scalar":
        return o * c
    if op == "rmul_scalar":
        return c * o
    if op == "add":
        return o + other
    if op == "radd":
        return other + o
    if op == "sub":
        return o - other
    if op == "mul":
        return o * other
    if op == "isequal":
        return o.isequal(other)
    if op == "getitem":
        return o[a["r"], a["c"]]
    if op == "setitem":
        z = o.copy()
        z[a["r"], a["c"]] = float(a["v"])
        return z
    if op == "full":
        return o.full()
    raise ValueError(op)


def event(b: dict) -> dict:
    import bind
    import c05
    o = make(b["obj"])
    snap = c05.snapshot(o)
    try:
        r = apply(o, b["op"], b["args"])
        ret = project(o, r)
    except bind.Inexact as e:
        ret = {"kind": "inexact", "msg": str(e)[:150]}
    except (AssertionError, ValueError, TypeError, IndexError) as e:
        ret = {"kind": "raised", "msg": f"{type(e).__name__}: {e}"[:150]}
    if c05.snapshot(o) != snap:
        ret = {"kind": "operand-modified"}
    return {"op": b["op"], "args": {"obj": b["obj"], "a": b["args"]}, "ret": ret}


def replay(b: dict) -> dict:
    ev = event(b)
    tr = {"init": {}, "b": b, "ev": [ev]}
    return {"traces": [tr], "divs": [{"site": "s", "why": "candidate", "trace_index": 0, "event": 1}], "events": 1,
            "nontrivial": [json.dumps(b, sort_keys=True)]}


def record(stim: dict) -> dict:
    return {"init": {}, "b": stim["b"], "ev": [event(stim["b"])]}


CLS = {"tenmat": "tenmat", "sptenmat": "sptenmat", "sum": "sumtensor", "ttensor": "ttensor"}


def main(tier: str) -> int:
    rp = core.replay_arg()
    if rp:
        return core.replay_file(rp, PROP, "x02", "MatAlgebra_Trace")
    out = Outcome(PROP, tier)
    shapes = [(2, 3), (2, 2, 2), (3, 1, 2)] if tier == "quick" else [(3,), (2, 3), (2, 2, 2), (3, 1, 2), (2, 3, 2), (2, 2, 1, 2)]
    jobs = [dict(module="MatAlgebra_Gen", cfg_text="SPECIFICATION GSpec\nINVARIANT Laws\n", defs={"ShapeC": tla.tla(list(s))}, timeout=2400)
            for s in shapes]
    behaviours = []
    for r in tla.run_many(jobs):
        out.add_tlc(r)
        behaviours += r.json
    out.notes["stimuli"] = len(behaviours)
    core.pipeline(out, "x02", behaviours, "MatAlgebra_Trace", lock_mode="superset", chunk=600,
                  site_of=lambda tr, k: CLS.get(tr["ev"][k - 1]["args"]["obj"]["kind"], "?") + "." + tr["ev"][k - 1]["op"])
    out.rule = ("tenmat for every ordered mode partition of the shapes in scope: conjugate transpose, norm, sign, scalar and "
                "tenmat addition / subtraction (both operand orders), scalar and matrix product (with the mode bookkeeping of the "
                "result), element read / write, isequal; sptenmat: norm, sign, full, isequal; sumtensor: sign, addition of every "
                "part kind (adding another sumtensor is not offered); ttensor: sign and scalar product; laws: transposing does not change the tensor a "
                "tenmat denotes, norm^2 = <X,X>, A A' is symmetric with doubled row modes")
    out.exhaustive = True
    out.trusted = ["alpha/gamma", "apply()/project() in harness/x02.py", "TLC"]
    return core.finish(out)


if __name__ == "__main__":
    core.main_wrap(main)
