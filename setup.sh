#!/bin/sh
# Offline setup: parse every specification module with SANY, check the Python side imports.
cd "$(dirname "$0")" || exit 1
mkdir -p evidence replays
rc=0
for f in spec/*.tla; do
  out=$(cd spec && tla-sany "$(basename "$f")" 2>&1)
  if echo "$out" | grep -q "Semantic errors\|Parse Error\|Fatal errors\|Could not find module"; then
    echo "SANY failed on $f"; echo "$out" | tail -15; rc=1
  fi
done
PYTHONPATH=harness:/repo /venv/bin/python -c "import bind, core, tla; print('harness ok, pyttb from', bind.ttb.__file__)" || rc=1
exit $rc
