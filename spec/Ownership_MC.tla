---------------------------- MODULE Ownership_MC ----------------------------
(* (M) small-model check of the ownership discipline itself: histories of   *)
(* calls, chained calls on results, no-copy constructions and pokes over 4  *)
(* handles.  Shows: with only admissible calls, a poke is visible in another*)
(* object only if a no-copy constructor linked them (PokeIsLocal); and that *)
(* the property fails as soon as a "view-returning" call is admitted        *)
(* (configuration Ownership_MC_mutant: sanity check of the specification).  *)
EXTENDS Ownership

CONSTANTS Handles, AllowViews

VARIABLES linked           \* pairs linked by an explicit no-copy construction (allowed sharing)
mcvars == <<live, shares, linked>>

MCInit == Init /\ linked = {}

Fresh == Handles \ live

MCCall == \E new \in Fresh, recv \in live \cup {"none"} :
            /\ Call("op", recv, new, {}, {}) /\ UNCHANGED linked
MCInPlace == \E recv \in live : Call("inplace", recv, recv, {recv}, {}) /\ UNCHANGED linked
MCNoCopy == \E new \in Fresh, src \in live :
              /\ Call("ctor_nocopy", src, new, {}, {src}) /\ linked' = linked \cup {Pair(new, src)}
\* a (forbidden) view-returning operation, only in the mutant configuration
MCView == /\ AllowViews
          /\ \E new \in Fresh, src \in live :
               /\ live' = live \cup {new} /\ shares' = shares \cup {Pair(new, src)} /\ UNCHANGED linked

MCNext == MCCall \/ MCInPlace \/ MCNoCopy \/ MCView
MCSpec == MCInit /\ [][MCNext]_mcvars

PokeIsLocal == \A h \in live : \A g \in PokeVisibleIn(h) : g = h \/ Pair(h, g) \in linked
TypeOK == live \subseteq Handles /\ \A p \in shares : p \subseteq live

=============================================================================
