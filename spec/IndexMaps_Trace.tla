--------------------------- MODULE IndexMaps_Trace --------------------------
(***************************************************************************)
(* (V) trace validation for IndexMaps: every recorded trace                *)
(*    {"init": obj, "ev": [{"op", "args", "ret"}, ...]}                    *)
(* must be a behaviour of IndexMaps with `res` bound to the logged result. *)
(* All traces of one file are validated in one TLC run (DESIGN section 10).*)
(***************************************************************************)
EXTENDS IndexMaps, Json, IOUtils, TLC, TLCExt

VARIABLES tid, l

Traces == ndJsonDeserialize(IOEnv.TRACE_FILE)
ASSUME TLCSet(42, <<>>)          \* rejections  <<tid, event, clause>>
ASSUME TLCSet(43, 0)             \* number of traces consumed to the end

Tr == Traces[tid].ev
E  == Tr[l]

TInit == /\ tid \in 1..Len(Traces)
         /\ l = 1
         /\ obj = Traces[tid].init

TPermute == E.op = "permute" /\ Permute(E.args.order, E.ret)
TReshape == E.op = "reshape" /\ Reshape(E.args.shape, E.args.old, E.ret)
TSqueeze == E.op = "squeeze" /\ Squeeze(E.ret)

TAccept == /\ l <= Len(Tr)
           /\ (TPermute \/ TReshape \/ TSqueeze)
           /\ l' = l + 1 /\ UNCHANGED tid

TReject == /\ l <= Len(Tr)
           /\ EventWhy(obj, E) # "ok"
           /\ TLCSet(42, Append(TLCGet(42), <<tid, l, EventWhy(obj, E)>>))
           /\ l' = Len(Tr) + 2 /\ UNCHANGED <<tid, obj>>

TNext == TAccept \/ TReject
TSpec == TInit /\ [][TNext]_<<obj, tid, l>>

Done == (l = Len(Tr) + 1) => TLCSet(43, TLCGet(43) + 1)

Accepted ==
  /\ \A k \in 1..Len(TLCGet(42)) :
        PrintT(<<"REJECTED", TLCGet(42)[k][1], TLCGet(42)[k][2], TLCGet(42)[k][3]>>)
  /\ PrintT(<<"CONSUMED", TLCGet(43), Len(Traces)>>)
  /\ Len(TLCGet(42)) = 0
  /\ TLCGet(43) = Len(Traces)

=============================================================================
