--------------------------- MODULE IndexMaps_Bits ---------------------------
(***************************************************************************)
(* C07 beyond the range of machine integers in the specification: a sparse *)
(* tensor whose mode sizes are powers of two.  Mode k has 2^W[k] indices   *)
(* and a subscript is a bit string of length W[k], least significant bit   *)
(* first.  The first-index-fastest linear index of an entry is then simply *)
(* the CONCATENATION of its subscripts, and reshaping to the widths V (same*)
(* total) re-splits that string - no arithmetic on 60-bit numbers needed.  *)
(* The harness converts bit strings to Python integers and back.           *)
(***************************************************************************)
EXTENDS Naturals, Sequences, TLC

VARIABLE last

RECURSIVE SumW(_)
SumW(w) == IF w = <<>> THEN 0 ELSE Head(w) + SumW(Tail(w))
RECURSIVE Concat(_)
Concat(ss) == IF ss = <<>> THEN <<>> ELSE Head(ss) \o Concat(Tail(ss))
Off(v, k) == SumW(SubSeq(v, 1, k - 1))
Split(bits, v) == [k \in 1..Len(v) |-> SubSeq(bits, Off(v, k) + 1, Off(v, k) + v[k])]

\* where the entry with subscript `sub` (one bit string per mode) goes
ReshapeBits(sub, v) == Split(Concat(sub), v)

IsSub(sub, w) == Len(sub) = Len(w) /\ \A k \in 1..Len(w) : Len(sub[k]) = w[k] /\ \A i \in 1..w[k] : sub[k][i] \in {0, 1}

\* first failing clause or "ok": a = [w, v, subs]; res = [st, subs] (result subscripts in the order of the operand's entries)
BitsWhy(a, res) ==
  IF SumW(a.w) # SumW(a.v) \/ \E e \in 1..Len(a.subs) : ~IsSub(a.subs[e], a.w) THEN "precondition"
  ELSE IF res.st # "ok" THEN res.st
  ELSE IF Len(res.subs) # Len(a.subs) THEN "number-of-entries"
  ELSE IF \E e \in 1..Len(a.subs) : ~IsSub(res.subs[e], a.v) THEN "subscript-outside-the-new-shape"
  ELSE IF \E e \in 1..Len(a.subs) : res.subs[e] # ReshapeBits(a.subs[e], a.v) THEN "entries-moved-wrongly"
  ELSE "ok"

Reshaped(a, res) == BitsWhy(a, res) = "ok" /\ last' = "reshaped"

=============================================================================
