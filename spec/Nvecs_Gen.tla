------------------------------ MODULE Nvecs_Gen -----------------------------
(* (M)+(G): exact-class stimuli for Nvecs.                                  *)
EXTENDS Nvecs, Json

CONSTANT ShapeC
VARIABLES stim, done
gvars == <<Y, todo, kept, stim, done>>

N0 == Len(ShapeC)
AllSubs == {s \in [1..N0 -> 0..3] : \A m \in 1..N0 : s[m] < ShapeC[m]}
TwoApart(a, b) == Cardinality({m \in 1..N0 : a[m] # b[m]}) >= 2
Supports == {S \in SUBSET AllSubs : Cardinality(S) \in 2..4 /\ \A a, b \in S : a # b => TwoApart(a, b)}
RECURSIVE Weigh(_, _)
Weigh(S, w) == IF S = {} THEN {} ELSE LET s == CHOOSE s \in S : TRUE IN {[sub |-> s, w |-> w]} \cup Weigh(S \ {s}, w + 1)
RECURSIVE SetSeq(_)
SetSeq(S) == IF S = {} THEN <<>> ELSE LET x == CHOOSE x \in S : TRUE IN <<x>> \o SetSeq(S \ {x})
Tensors == {T \in {Weigh(S, 1) : S \in Supports} : \A k \in 0..(N0 - 1) : NoTies(T, k, ShapeC[k + 1])}

Stimuli == {[shape |-> ShapeC, entries |-> SetSeq(T), n |-> n, r |-> r, rot |-> rot, flipsign |-> fs] :
              T \in Tensors, n \in 0..(N0 - 1), r \in 1..3, rot \in {"id", "swap", "r345"}, fs \in BOOLEAN}
Ok(s) == s.r <= ShapeC[s.n + 1] /\ (s.rot = "id" \/ ShapeC[s.n + 1] >= 2)

GInit == /\ stim \in {s \in Stimuli : Ok(s)} /\ done = FALSE /\ Y = {} /\ todo = <<>> /\ kept = <<>>
GEmit == ~done /\ PrintT(ToJson(stim)) /\ done' = TRUE /\ UNCHANGED <<Y, todo, kept, stim>>
GSpec == GInit /\ [][GEmit]_gvars

\* (M) the expected columns are orthogonal with squared norm s^2, and Q Qs^T = s^2 I
OrthLaw ==
  LET X == {stim.entries[i] : i \in 1..Len(stim.entries)}
      e == NvecsExpect(X, stim.shape, stim.n, stim.r, stim.rot)
      s == QScale(stim.rot)
      dot(a, b) == LET RECURSIVE Go(_)
                       Go(i) == IF i > Len(a) THEN 0 ELSE a[i] * b[i] + Go(i + 1)
                   IN  Go(1)
  IN  \A i, j \in 1..stim.r : dot(e[i], e[j]) = (IF i = j THEN s * s ELSE 0)

=============================================================================
