-------------------------------- MODULE Losses ------------------------------
(***************************************************************************)
(* C12 (element level): for every built-in GCP loss the gradient function  *)
(* is the derivative of the loss function with respect to the model value. *)
(*                                                                         *)
(* A loss is a finite sum of terms                                          *)
(*     (cn/cd) * pi^pp * x^xp * r^rp * b(m)                                 *)
(* with rational coefficient, x the data value, r the extra parameter and  *)
(* b a basis function of the model value m:                                 *)
(*   [k |-> "pow", sh, en, ed]  (m + sh)^(en/ed)     sh in {"0","1","eps"}  *)
(*   [k |-> "log", sh, 0, 1]    log(m + sh)                                 *)
(*   [k |-> "exp", ...]         exp(m)                                      *)
(*   [k |-> "lse", ...]         log(exp(m) + 1)                             *)
(*   [k |-> "sig", ...]         exp(m) / (exp(m) + 1)                       *)
(* Differentiation is symbolic and exact; TLC checks Grad = d/dm Loss as an *)
(* identity between normalised term sets.  The harness evaluates the same   *)
(* term sets numerically against the implementation's handles.              *)
(***************************************************************************)
EXTENDS Integers, Sequences, FiniteSets, TLC

VARIABLE last

Basis(k, sh, en, ed) == [k |-> k, sh |-> sh, en |-> en, ed |-> ed]
Pow(sh, en, ed) == Basis("pow", sh, en, ed)
Log(sh) == Basis("log", sh, 0, 1)
Exp == Basis("exp", "0", 0, 1)
Lse == Basis("lse", "0", 0, 1)
Sig == Basis("sig", "0", 0, 1)
T(cn, cd, pp, xp, rp, b) == [cn |-> cn, cd |-> cd, pp |-> pp, xp |-> xp, rp |-> rp, b |-> b]

AbsI(x) == IF x < 0 THEN 0 - x ELSE x
RECURSIVE Gcd(_, _)
Gcd(a, b) == IF b = 0 THEN a ELSE Gcd(b, a % b)
Red(n, d) == LET g == Gcd(AbsI(n), AbsI(d))   s == IF d < 0 THEN 0 - 1 ELSE 1
             IN  IF n = 0 THEN <<0, 1>>
                 ELSE <<s * (IF n < 0 THEN 0 - ((0 - n) \div g) ELSE n \div g), AbsI(d) \div g>>
QAdd(a, b) == Red(a[1] * b[2] + b[1] * a[2], a[2] * b[2])
QMul(a, b) == Red(a[1] * b[1], a[2] * b[2])

\* d/dm of one term: a set of terms
DTerm(t) ==
  CASE t.b.k = "pow" ->
         IF t.b.en = 0 THEN {}
         ELSE LET c == QMul(<<t.cn, t.cd>>, <<t.b.en, t.b.ed>>)
                  e == QAdd(<<t.b.en, t.b.ed>>, <<0 - 1, 1>>)
              IN  {T(c[1], c[2], t.pp, t.xp, t.rp, Pow(t.b.sh, e[1], e[2]))}
    [] t.b.k = "log" -> {T(t.cn, t.cd, t.pp, t.xp, t.rp, Pow(t.b.sh, 0 - 1, 1))}
    [] t.b.k = "exp" -> {t}
    [] t.b.k = "lse" -> {T(t.cn, t.cd, t.pp, t.xp, t.rp, Sig)}

\* normal form: one term per (pp, xp, rp, basis) key with the coefficients added; zero terms dropped
Key(t) == <<t.pp, t.xp, t.rp, t.b>>
RECURSIVE SumQ(_)
SumQ(S) == IF S = {} THEN <<0, 1>> ELSE LET t == CHOOSE t \in S : TRUE IN QAdd(Red(t.cn, t.cd), SumQ(S \ {t}))
Normal(S) ==
  {u \in {LET c == SumQ({t \in S : Key(t) = k}) IN T(c[1], c[2], k[1], k[2], k[3], k[4]) : k \in {Key(t) : t \in S}} : u.cn # 0}
Deriv(S) == Normal(UNION {DTerm(t) : t \in Normal(S)})

\* the ten built-in losses (b = bn/bd is the parameter of the beta loss; r is kept symbolic)
LossTerms(name, bn, bd) ==
  CASE name = "gaussian" -> {T(1, 1, 0, 0, 0, Pow("0", 2, 1)), T(0 - 2, 1, 0, 1, 0, Pow("0", 1, 1)), T(1, 1, 0, 2, 0, Pow("0", 0, 1))}
    [] name = "bernoulli_odds" -> {T(1, 1, 0, 0, 0, Log("1")), T(0 - 1, 1, 0, 1, 0, Log("eps"))}
    [] name = "bernoulli_logit" -> {T(1, 1, 0, 0, 0, Lse), T(0 - 1, 1, 0, 1, 0, Pow("0", 1, 1))}
    [] name = "poisson" -> {T(1, 1, 0, 0, 0, Pow("0", 1, 1)), T(0 - 1, 1, 0, 1, 0, Log("eps"))}
    [] name = "poisson_log" -> {T(1, 1, 0, 0, 0, Exp), T(0 - 1, 1, 0, 1, 0, Pow("0", 1, 1))}
    [] name = "rayleigh" -> {T(2, 1, 0, 0, 0, Log("eps")), T(1, 4, 1, 2, 0, Pow("eps", 0 - 2, 1))}
    [] name = "gamma" -> {T(1, 1, 0, 1, 0, Pow("eps", 0 - 1, 1)), T(1, 1, 0, 0, 0, Log("eps"))}
    [] name = "negative_binomial" -> {T(1, 1, 0, 0, 1, Log("1")), T(1, 1, 0, 1, 0, Log("1")), T(0 - 1, 1, 0, 1, 0, Log("eps"))}
    [] name = "beta" -> {T(bd, bn, 0, 0, 0, Pow("eps", bn, bd)), T(0 - bd, bn - bd, 0, 1, 0, Pow("eps", bn - bd, bd))}

\* the gradients as documented
GradTerms(name, bn, bd) ==
  CASE name = "gaussian" -> {T(2, 1, 0, 0, 0, Pow("0", 1, 1)), T(0 - 2, 1, 0, 1, 0, Pow("0", 0, 1))}
    [] name = "bernoulli_odds" -> {T(1, 1, 0, 0, 0, Pow("1", 0 - 1, 1)), T(0 - 1, 1, 0, 1, 0, Pow("eps", 0 - 1, 1))}
    [] name = "bernoulli_logit" -> {T(1, 1, 0, 0, 0, Sig), T(0 - 1, 1, 0, 1, 0, Pow("0", 0, 1))}
    [] name = "poisson" -> {T(1, 1, 0, 0, 0, Pow("0", 0, 1)), T(0 - 1, 1, 0, 1, 0, Pow("eps", 0 - 1, 1))}
    [] name = "poisson_log" -> {T(1, 1, 0, 0, 0, Exp), T(0 - 1, 1, 0, 1, 0, Pow("0", 0, 1))}
    [] name = "rayleigh" -> {T(2, 1, 0, 0, 0, Pow("eps", 0 - 1, 1)), T(0 - 1, 2, 1, 2, 0, Pow("eps", 0 - 3, 1))}
    [] name = "gamma" -> {T(0 - 1, 1, 0, 1, 0, Pow("eps", 0 - 2, 1)), T(1, 1, 0, 0, 0, Pow("eps", 0 - 1, 1))}
    [] name = "negative_binomial" -> {T(1, 1, 0, 0, 1, Pow("1", 0 - 1, 1)), T(1, 1, 0, 1, 0, Pow("1", 0 - 1, 1)),
                                      T(0 - 1, 1, 0, 1, 0, Pow("eps", 0 - 1, 1))}
    [] name = "beta" -> {T(1, 1, 0, 0, 0, Pow("eps", bn - bd, bd)), T(0 - 1, 1, 0, 1, 0, Pow("eps", bn - 2 * bd, bd))}

Names == {"gaussian", "bernoulli_odds", "bernoulli_logit", "poisson", "poisson_log", "rayleigh", "gamma",
          "negative_binomial", "beta"}

\* a pow term with exponent 0 and shift s is the constant 1 whatever the shift: canonical shift "0"
Canon(S) == Normal({IF t.b.k = "pow" /\ t.b.en = 0 THEN [t EXCEPT !.b = Pow("0", 0, 1)] ELSE t : t \in S})

\* (M) the documented gradient is the derivative of the documented loss
GradIsDerivative(name, bn, bd) == Canon(Deriv(LossTerms(name, bn, bd))) = Canon(GradTerms(name, bn, bd))

\* observation: the implementation's handle pair agrees with the term sets on the sample grid
\* res = [loss_agrees, grad_agrees : BOOLEAN]
HandleWhy(a, res) ==
  IF res.st # "ok" THEN res.st
  ELSE IF ~GradIsDerivative(a.name, a.bn, a.bd) THEN "specification-error"
  ELSE IF ~res.loss_agrees THEN "loss-function"
  ELSE IF ~res.grad_agrees THEN "gradient-is-not-the-derivative-of-the-loss"
  ELSE "ok"

Handle(a, res) == HandleWhy(a, res) = "ok" /\ last' = a.name

=============================================================================
