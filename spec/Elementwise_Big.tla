-------------------------- MODULE Elementwise_Big ---------------------------
(***************************************************************************)
(* C03 at a size beyond any block a vectorised implementation may process  *)
(* at a time (more than 2048 stored entries per operand).  Operands and    *)
(* results are given position by position (flat, first index fastest):     *)
(* the value at every position is Apply(op, x, y) of Elementwise, which    *)
(* keeps the evaluation linear in the number of cells.  The harness holds  *)
(* the operands sparse (scrambled stored order) and expands the result.    *)
(***************************************************************************)
EXTENDS Elementwise

BigWhy(a, res) ==
  IF Len(a.x) # Len(a.y) THEN "precondition"
  ELSE IF res.st # "ok" THEN res.st
  ELSE IF Len(res.v) # Len(a.x) THEN "number-of-positions"
  ELSE IF \E k \in 1..Len(a.x) : res.v[k] # Apply(a.op, a.x[k], a.y[k]) THEN "value-at-some-position"
  ELSE "ok"

BigCall(a, res) == BigWhy(a, res) = "ok" /\ UNCHANGED obj
=============================================================================
