------------------------------ MODULE Losses_Gen ----------------------------
(* (M)+(G): every built-in loss (several values of the beta parameter);     *)
(* checks Grad = d/dm Loss symbolically and emits both term sets.           *)
EXTENDS Losses, Json

VARIABLES stim, done
vars == <<last, stim, done>>

Stimuli == {[name |-> n, bn |-> 3, bd |-> 2] : n \in Names \ {"beta"}}
           \cup {[name |-> "beta", bn |-> b[1], bd |-> b[2]] : b \in {<<3, 2>>, <<1, 2>>, <<5, 2>>, <<7, 3>>, <<3, 1>>}}

Init == stim \in Stimuli /\ last = "none" /\ done = FALSE
RECURSIVE SetSeq(_)
SetSeq(S) == IF S = {} THEN <<>> ELSE LET x == CHOOSE x \in S : TRUE IN <<x>> \o SetSeq(S \ {x})
DoEmit == /\ ~done
          /\ PrintT(ToJson([name |-> stim.name, bn |-> stim.bn, bd |-> stim.bd,
                            loss |-> SetSeq(Normal(LossTerms(stim.name, stim.bn, stim.bd))),
                            grad |-> SetSeq(Normal(GradTerms(stim.name, stim.bn, stim.bd))),
                            dloss |-> SetSeq(Deriv(LossTerms(stim.name, stim.bn, stim.bd)))]))
          /\ done' = TRUE /\ UNCHANGED <<stim, last>>
Next == DoEmit
Spec == Init /\ [][Next]_vars

DerivativeLaw == GradIsDerivative(stim.name, stim.bn, stim.bd)
\* sanity of the differentiator: d/dm of m^2 is 2m; second derivative of a logarithm
DiffSanity == /\ Deriv({T(1, 1, 0, 0, 0, Pow("0", 2, 1))}) = {T(2, 1, 0, 0, 0, Pow("0", 1, 1))}
              /\ Deriv(Deriv({T(1, 1, 0, 0, 0, Log("eps"))})) = {T(0 - 1, 1, 0, 0, 0, Pow("eps", 0 - 2, 1))}
              /\ Deriv({T(3, 1, 0, 1, 0, Pow("1", 0, 1))}) = {}

=============================================================================
