--------------------------------- MODULE Num --------------------------------
(***************************************************************************)
(* Value domain for element-wise arithmetic on integers with IEEE special  *)
(* results.  Every number is a uniformly typed triple <<tag, n, d>>:       *)
(*   <<"q", n, d>>  the rational n/d in lowest terms, d > 0                *)
(*   <<"nan",0,1>>, <<"pinf",0,1>>, <<"ninf",0,1>>                         *)
(* (TLC cannot compare an integer with a string, so no mixed encodings.)   *)
(***************************************************************************)
EXTENDS Integers

Q(n)  == <<"q", n, 1>>
NaN   == <<"nan", 0, 1>>
PInf  == <<"pinf", 0, 1>>
NInf  == <<"ninf", 0, 1>>
Zero  == Q(0)
One   == Q(1)

AbsI(x) == IF x < 0 THEN 0 - x ELSE x
RECURSIVE Gcd(_, _)
Gcd(a, b) == IF b = 0 THEN a ELSE Gcd(b, a % b)
\* n / d for d > 0 in lowest terms
NormQ(n, d) == LET g == Gcd(AbsI(n), d)
               IN  IF n >= 0 THEN <<"q", n \div g, d \div g>>
                   ELSE <<"q", 0 - ((0 - n) \div g), d \div g>>
\* IEEE division of two integers
DivI(a, b) == IF b = 0 THEN (IF a = 0 THEN NaN ELSE IF a > 0 THEN PInf ELSE NInf)
              ELSE IF b > 0 THEN NormQ(a, b) ELSE NormQ(0 - a, 0 - b)
B(p) == IF p THEN One ELSE Zero

\* element-wise operations on two integers, result a triple
Apply(op, x, y) ==
  CASE op = "add" -> Q(x + y)
    [] op = "sub" -> Q(x - y)
    [] op = "mul" -> Q(x * y)
    [] op = "div" -> DivI(x, y)
    [] op = "and" -> B(x # 0 /\ y # 0)
    [] op = "or"  -> B(x # 0 \/ y # 0)
    [] op = "xor" -> B((x # 0) # (y # 0))
    [] op = "eq"  -> B(x = y)
    [] op = "ne"  -> B(x # y)
    [] op = "lt"  -> B(x < y)
    [] op = "le"  -> B(x <= y)
    [] op = "gt"  -> B(x > y)
    [] op = "ge"  -> B(x >= y)

\* unary operations; "elemfun" variants act on the nonzero entries only
Apply1(op, x) ==
  CASE op = "not"  -> B(x = 0)
    [] op = "neg"  -> Q(0 - x)
    [] op = "pos"  -> Q(x)
    [] op = "ones" -> B(x # 0)
    [] op = "elem_neg" -> Q(0 - x)                              \* f(v) = -v
    [] op = "elem_sq"  -> Q(x * x)                              \* f(v) = v*v
    [] op = "elem_dec" -> IF x = 0 THEN Zero ELSE Q(x - 1)      \* f(v) = v-1 (maps 1 to 0)
    [] op = "elem_inc" -> IF x = 0 THEN Zero ELSE Q(x + 1)      \* f(v) = v+1 (maps -1 to 0)

=============================================================================
