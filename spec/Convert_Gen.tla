---------------------------- MODULE Convert_Gen -----------------------------
(* (M)+(G) configuration of Convert for one shape.                          *)
EXTENDS Convert, Json

CONSTANTS ShapeC, D, AllOrders,
          Rich,      \* TRUE: every mode split; FALSE (chains): a few
          KOnly      \* TRUE: only Kruskal / Tucker / sum-of-Kruskal objects (used for orders >= 5, where the
                     \* Khatri-Rao grouping inside Kruskal -> dense conversion has three or more factors per group)

VARIABLES hist, init0, pres
vars == <<obj, hist, init0, pres>>

N0 == Len(ShapeC)
NC == Prod(ShapeC)

Patterns ==
  {{}} \cup {{k} : k \in 1..NC} \cup {1..NC}
  \cup (IF NC <= 6 THEN {S \in SUBSET (1..NC) : Cardinality(S) = 2}
        ELSE {{1, NC}, {2, 3, NC - 1}, {k \in 1..NC : k % 2 = 1}, {k \in 1..NC : k % 3 = 0}})
FewPatterns == {{}, {NC}, 1..NC, {k \in 1..NC : k % 2 = 1}}

SparseOf(cells, all) ==
  LET S == ToSparse(MaskedLabelD(ShapeC, cells))
      n == Len(S.subs)
      ords == IF n <= 3 \/ (all /\ n <= 4) THEN OrdersAll(n) ELSE OrdersFew(n)
  IN  {Reorder(S, pi) : pi \in ords}

LabelK(s, R) == KObj([r \in 1..R |-> IF r = 1 THEN 2 ELSE 0 - 1],
                     [k \in 1..Len(s) |-> MkM(s[k], R, LAMBDA i, r : ((i + 2 * r + k) % 4) - 1)])
LabelT(s)    == LET cs == [k \in 1..Len(s) |-> Min2(s[k], 2)]
                IN  TObj(LabelD(cs),
                         [k \in 1..Len(s) |-> MkM(s[k], cs[k], LAMBDA i, j : ((i + 2 * j + k) % 3) - 1)])

\* every ordered partition of the modes into (R, C)
Splits(n) == {<<SubSeq(p, 1, k), SubSeq(p, k + 1, n)>> : p \in Perms0(n), k \in 0..n}
FewSplits(n) == {<<SubSeq(p, 1, k), SubSeq(p, k + 1, n)>> : p \in {IdPerm0(n), RevSeq(IdPerm0(n))}, k \in 0..n}

SumInits ==
  LET d == DenseObj(MaskedLabelD(ShapeC, {k \in 1..NC : k % 2 = 1}))
      s == SparseObj(CHOOSE x \in SparseOf({1, NC}, FALSE) : TRUE)
  IN  {[kind |-> "sum", parts |-> <<d, s>>],
       [kind |-> "sum", parts |-> <<LabelK(ShapeC, 2), d, s>>],
       [kind |-> "sum", parts |-> <<LabelT(ShapeC)>>],
       [kind |-> "sum", parts |-> <<s, LabelT(ShapeC), LabelK(ShapeC, 1)>>]}

\* large sparse tensors with a few entries (mode products beyond the range of narrow integer subscript types)
BigPatterns == {{}, {NC}, {1, NC}, {k \in 1..NC : k % 47 = 0}}
InitObjs ==
  IF KOnly /\ NC > 100 THEN UNION {{SparseObj(S) : S \in SparseOf(c, FALSE)} : c \in BigPatterns}
  ELSE IF KOnly THEN {LabelK(ShapeC, R) : R \in 1..2} \cup {LabelT(ShapeC)} \cup {[kind |-> "sum", parts |-> <<LabelK(ShapeC, 2)>>]}
  ELSE
  {DenseObj(MaskedLabelD(ShapeC, c)) : c \in Patterns}
  \cup UNION {{SparseObj(S) : S \in SparseOf(c, AllOrders)} : c \in Patterns}
  \cup {LabelK(ShapeC, R) : R \in 1..2} \cup {LabelT(ShapeC)}
  \cup SumInits
  \cup {TenmatObj(LabelD(ShapeC), sp[1], sp[2]) : sp \in Splits(N0)}
  \cup {TenmatObj(MaskedLabelD(ShapeC, {k \in 1..NC : k % 2 = 1}), sp[1], sp[2]) : sp \in FewSplits(N0)}
  \cup UNION {UNION {{SptenmatObj(S, sp[1], sp[2]) : S \in SparseOf(c, FALSE)} : c \in FewPatterns} :
              sp \in (IF Rich THEN Splits(N0) ELSE FewSplits(N0))}

Ev(op, args, res) == [op |-> op, args |-> args, ret |-> res]
NoArgs == [form |-> "none", rdims |-> <<>>, cdims |-> <<>>]

SplitArgs(n) ==
  LET sps == IF Rich THEN Splits(n) ELSE FewSplits(n)
  IN  {[form |-> "rc", rdims |-> sp[1], cdims |-> sp[2]] : sp \in sps}
      \cup (IF Rich
            THEN {[form |-> "r", rdims |-> r, cdims |-> <<>>] : r \in UNION {InjSeqs(n, len) : len \in 0..n}}
                 \cup {[form |-> "c", rdims |-> <<>>, cdims |-> c] : c \in UNION {InjSeqs(n, len) : len \in 0..n}}
            ELSE {[form |-> "r", rdims |-> <<0>>, cdims |-> <<>>], [form |-> "c", rdims |-> <<>>, cdims |-> <<n - 1>>]})
      \cup {[form |-> f, rdims |-> <<m>>, cdims |-> <<>>] : f \in {"fc", "bc", "t"}, m \in 0..(n - 1)}

Init == /\ obj \in InitObjs
        /\ init0 = obj
        /\ hist = <<>>
        /\ pres \in [sparse_core : BOOLEAN]
        /\ (pres.sparse_core => obj.kind = "ttensor")

Plain == {"to_sptensor", "full", "to_tensor", "copy", "double", "spmatrix", "nnz", "from_array"}

GPlain == \E op \in Plain :
            /\ Applicable(obj, op)
            /\ LET res == ConvFn(obj, op, NoArgs)
               IN  /\ IF IsQuery(op) THEN Query(op, NoArgs, res) ELSE Convert(op, NoArgs, res)
                   /\ hist' = Append(hist, Ev(op, NoArgs, res))

GSplit == \E op \in {"to_tenmat", "to_sptenmat"} :
            /\ Applicable(obj, op)
            /\ \E a \in SplitArgs(NDimsObj(obj)) :
                 LET res == ConvFn(obj, op, a)
                 IN  Convert(op, a, res) /\ hist' = Append(hist, Ev(op, a, res))

Live == obj.kind # "done"

Finish == /\ Live
          /\ Len(hist) = D
          /\ PrintT(ToJson([init |-> init0, pres |-> pres, ev |-> hist]))
          /\ obj' = [kind |-> "done"]
          /\ UNCHANGED hist

Next == /\ \/ (Len(hist) < D /\ Live /\ (GPlain \/ GSplit))
           \/ Finish
        /\ UNCHANGED <<init0, pres>>

Spec == Init /\ [][Next]_vars

---------------------------------------------------------------------------
\* (M) laws on every reachable object

IsTensorKind == Live /\ obj.kind \in {"dense", "sparse", "ktensor", "ttensor", "sum"}

\* matricize / un-matricize is the identity for every ordered partition
MatLaw == IsTensorKind =>
  \A sp \in Splits(NDimsObj(obj)) :
     /\ Unmat(Mat(DenObj(obj), sp[1], sp[2]), ShapeObj(obj), sp[1], sp[2]) = DenObj(obj)
     /\ DenObj(TenmatObj(DenObj(obj), sp[1], sp[2])) = DenObj(obj)

\* the cyclic conventions are mode partitions with the documented column orders
CyclicLaw == IsTensorKind =>
  \A m \in 0..(NDimsObj(obj) - 1) : \A f \in {"fc", "bc", "t"} :
     LET sp == SplitOf(NDimsObj(obj), f, <<m>>, <<>>)
     IN  /\ IsPartition(NDimsObj(obj), sp[1], sp[2])
         /\ (f = "t" => sp[2] = <<m>>)
         /\ (f # "t" => sp[1] = <<m>>)

\* dense -> sparse -> dense and sparse -> sptenmat -> sparse preserve the denotation;
\* the sparse holder's nonzero count equals the number of nonzero cells
SparseLaw == IsTensorKind =>
  /\ Den(ToSparse(DenObj(obj))) = DenObj(obj)
  /\ NnzS(ToSparse(DenObj(obj))) = NnzD(DenObj(obj))
  /\ obj.kind = "sparse" =>
       \A sp \in FewSplits(NDimsObj(obj)) : DenObj(SptenmatObj(AsS(obj), sp[1], sp[2])) = DenObj(obj)

\* conversions never change the denotation along a history (tenmat / sptenmat included)
DenKept == (Live /\ hist # <<>>) => DenObj(obj) = DenObj(init0)

WFKept == Live => WhyWF(obj, TRUE) = "ok"

=============================================================================
