--------------------------- MODULE FileFormat_Gen ---------------------------
(* (M)+(G) for FileFormat: objects over a catalogue of opaque values.       *)
EXTENDS FileFormat, Json, Sequences

CONSTANT Cat        \* catalogue of values: a sequence of limb 4-tuples (supplied by the harness)

VARIABLES stim, done
vars == <<last, stim, done>>

V(k) == Cat[((k - 1) % Len(Cat)) + 1]
ShapesF == {<<3>>, <<1>>, <<2, 3>>, <<3, 1>>, <<1, 1>>, <<2, 3, 2>>, <<1, 2, 3>>, <<2, 1, 2, 2>>, <<2, 3, 2, 2>>, <<2, 2, 1, 2, 2>>}

DenseOf(s, off) == [kind |-> "dense", shape |-> s, v |-> [k \in 1..Prod(s) |-> V(k + off)]]
\* sparse: pattern of cells, stored order pi
SparseOf(s, cells, rev, off) ==
  LET cs == SortSet(cells)
      ord == IF rev THEN RevSeq(cs) ELSE cs
  IN  [kind |-> "sparse", shape |-> s, subs |-> [k \in 1..Len(ord) |-> Unlin(s, ord[k] - 1)],
       vals |-> [k \in 1..Len(ord) |-> V(ord[k] + off)]]
KOf(s, R, off) == [kind |-> "ktensor", w |-> [r \in 1..R |-> V(r + off)],
                   U |-> [k \in 1..Len(s) |-> [i \in 1..s[k] |-> [r \in 1..R |-> V(off + 7 * k + 3 * i + r)]]]]
MOf(r, c, off) == [kind |-> "matrix", m |-> [i \in 1..r |-> [j \in 1..c |-> V(off + (i - 1) * c + j)]]]

AOf(s, off) == [kind |-> "array", shape |-> s, v |-> [k \in 1..Prod(s) |-> V(off + k)]]

Patterns(n) == {{}, {1}, {n}, 1..n, {k \in 1..n : k % 2 = 1}} \cup (IF n >= 3 THEN {{2, n}, {n, 1, 2}} ELSE {})
Objs ==
  UNION {{DenseOf(s, off) : off \in {0, 11}} : s \in ShapesF}
  \cup UNION {UNION {{SparseOf(s, c, rv, off) : rv \in BOOLEAN, off \in {0, 5}} : c \in Patterns(Prod(s))} : s \in ShapesF}
  \cup UNION {{KOf(s, R, off) : R \in 1..3, off \in {0, 13}} : s \in ShapesF}
  \* header numbers with more than one digit: rank 10 and 12, a mode of length 11, a matrix with 10 columns
  \cup {KOf(<<2, 3>>, 10, 0), KOf(<<3>>, 12, 13), KOf(<<11, 2>>, 2, 0), MOf(2, 10, 0), MOf(12, 1, 4),
        DenseOf(<<10, 2>>, 0), SparseOf(<<12, 10>>, {1, 55, 120}, FALSE, 5), SparseOf(<<2, 3, 2>>, 1..12, TRUE, 0),
        \* subscripts at the top of the range of a narrow integer type (the harness stores them as int8 / uint8)
        SparseOf(<<128>>, {1, 128}, FALSE, 2), SparseOf(<<2, 256>>, {2, 511, 512}, TRUE, 7),
        \* more stored entries than any block size a writer is likely to use
        [kind |-> "sparse", shape |-> <<4500>>, subs |-> [k \in 1..4500 |-> <<k - 1>>], vals |-> [k \in 1..4500 |-> V(k + 3)]]}
  \cup {MOf(r, c, off) : r \in 1..3, c \in 1..3, off \in {0, 4}}
  \* plain arrays that are not 2-way (written under the matrix keyword with their own shape)
  \cup {AOf(s, off) : s \in {<<1>>, <<3>>, <<12>>, <<2, 1, 2>>, <<2, 3, 2>>, <<1, 1, 1>>, <<2, 2, 1, 2>>}, off \in {0, 6}}

Stimuli == {[obj |-> o, base |-> b] : o \in Objs, b \in 0..1}

Init == stim \in Stimuli /\ last = "none" /\ done = FALSE
DoEmit == /\ ~done
          /\ PrintT(ToJson([obj |-> stim.obj, base |-> stim.base, tokens |-> ExportBase(stim.obj, stim.base)]))
          /\ done' = TRUE /\ UNCHANGED <<stim, last>>
Next == DoEmit
Spec == Init /\ [][Next]_vars

\* (M) import is the inverse of export, for both index bases; the grammar is prefix-unambiguous in
\* its header (type and shape can be read back before any value)
RoundTripLaw == /\ Import(Export(stim.obj), 1) = stim.obj
                /\ Import(ExportBase(stim.obj, stim.base), stim.base) = stim.obj
HeaderLaw == LET ts == Export(stim.obj) IN
             /\ ts[1][1] \in {"tensor", "sptensor", "ktensor", "matrix"}
             /\ ts[2][1] = "int"
             /\ (stim.obj.kind = "sparse" => \A k \in 1..Len(stim.obj.subs) :
                    \A m \in 1..Len(stim.obj.shape) :
                       TInt(ts[3 + Len(stim.obj.shape) + (k - 1) * (Len(stim.obj.shape) + 1) + m]) >= 1)

=============================================================================
