------------------------------ MODULE Symmetry ------------------------------
(***************************************************************************)
(* C15: symmetrisation averages over the permutations of the modes within  *)
(* each of several disjoint groups; the symmetry test is exact.            *)
(* To stay in the integers, the symmetrised tensor is compared after       *)
(* scaling by K = prod_g |g|! :   K * Sym(X)[i] = sum_pi X[i o pi].        *)
(***************************************************************************)
EXTENDS Objects, TLC

VARIABLE last

RECURSIVE FactS(_)
FactS(n) == IF n = 0 THEN 1 ELSE n * FactS(n - 1)

\* all mode orders (0-based, length N) that permute the modes inside every group and fix the rest
GroupPerms(N, grps) ==
  {p \in Perms0(N) :
     /\ \A m \in 0..(N - 1) : (\A g \in Range(grps) : m \notin Range(g)) => p[m + 1] = m
     /\ \A g \in Range(grps) : \A m \in Range(g) : p[m + 1] \in Range(g)}
GroupPermsOf(N, grps) == GroupPerms(N, grps)
RECURSIVE SortPerms(_)
SortPerms(P) == IF P = {} THEN <<>> ELSE LET x == CHOOSE x \in P : TRUE IN <<x>> \o SortPerms(P \ {x})
ScaleK(grps) == Prod([k \in 1..Len(grps) |-> FactS(Len(grps[k]))])

SymScaled(X, grps) ==
  LET P == GroupPerms(Len(X.shape), grps)
      Ps == SortPerms(P)
  IN  MkD(X.shape, LAMBDA i : SumSeq([k \in 1..Len(Ps) |-> At(X, [m \in 1..Len(i) |-> i[Ps[k][m] + 1]])]))
IsSymmetric(X, grps) == \A p \in GroupPerms(Len(X.shape), grps) : PermuteD(X, p) = X
GroupsOk(X, grps) == /\ \A g \in Range(grps) : \A m \in Range(g) : X.shape[m + 1] = X.shape[g[1] + 1]
                     /\ \A a, b \in 1..Len(grps) : a # b => Range(grps[a]) \cap Range(grps[b]) = {}

\* first failing clause or "ok"
SymWhy(op, a, res) ==
  IF op = "k_symmetrize" THEN
    \* Kruskal tensors (cubical): observations made on the returned ktensor with tolerance 1e-9
    (IF res.st # "ok" THEN res.st
     ELSE IF ~res.all_factors_equal THEN "factor-matrices-differ"
     ELSE IF ~res.full_symmetric THEN "result-not-symmetric-in-all-modes"
     ELSE IF ~res.passes THEN "result-fails-symmetry-test"
     ELSE IF ~res.idempotent THEN "not-idempotent"
     ELSE IF a.symmetric_input /\ ~res.same_tensor THEN "symmetric-input-changed"
     ELSE "ok")
  ELSE IF op = "k_issymmetric" THEN
    \* the Kruskal symmetry test: it must say yes when all factor matrices are identical, and it may say yes only
    \* for a tensor that is invariant under every mode permutation (res.full_symmetric: exact test on the full array)
    (IF res.st # "ok" THEN res.st
     ELSE IF a.perturb = "none" /\ ~res.val THEN "identical-factors-called-asymmetric"
     ELSE IF res.val /\ ~res.full_symmetric THEN "true-for-a-tensor-that-is-not-symmetric"
     ELSE IF res.diffs_zero # res.val THEN "details-disagree-with-answer"
     ELSE "ok")
  ELSE IF ~GroupsOk(a.X, a.grps) THEN "precondition"
  ELSE IF res.st # "ok" THEN res.st
  ELSE IF op = "symmetrize" THEN
         \* res.scaled : K * result as a dense integer tensor; res.passes : result.issymmetric(grps);
         \* res.idempotent : symmetrising the result again changes nothing
         (IF res.scaled.shape # a.X.shape THEN "shape"
          ELSE IF AsD(res.scaled) # SymScaled(a.X, a.grps) THEN "not-the-average-over-group-permutations"
          ELSE IF ~res.passes THEN "result-fails-symmetry-test"
          ELSE IF ~res.idempotent THEN "not-idempotent"
          \* "an already symmetric tensor keeps its value": also after the result is written to
          ELSE IF ~res.independent THEN "result-shares-storage-with-the-operand"
          \* the default algorithm leaves a group that is already symmetric alone: such a tensor keeps its value bit for bit
          \* (observed at values that are not dyadic, where averaging k equal numbers is not the identity)
          ELSE IF a.version = 0 /\ IsSymmetric(a.X, a.grps) /\ ~res.keeps_exactly THEN "symmetric-input-changed"
          ELSE "ok")
  ELSE IF op = "issymmetric" THEN
         (IF res.val # IsSymmetric(a.X, a.grps) THEN "wrong-answer"
          ELSE IF a.details /\ res.ndiffs # SumSeq([k \in 1..Len(a.grps) |-> FactS(Len(a.grps[k]))])
            THEN "details-size"
          ELSE IF a.details /\ (res.all_zero # IsSymmetric(a.X, a.grps)) THEN "details-differences"
          ELSE "ok")
  ELSE "unknown-op"

Observe(op, a, res) == SymWhy(op, a, res) = "ok" /\ last' = op

=============================================================================
