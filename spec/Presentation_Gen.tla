-------------------------- MODULE Presentation_Gen --------------------------
(* (G) all admissible presentations that differ from the base in exactly one coordinate (Two = TRUE: *)
(* also printing combined with one other), per algorithm.  (M) laws of Transform.                    *)
EXTENDS Presentation, Json
CONSTANTS N, Two, KModel, TModel
VARIABLES a, p, done
Scales == {<<1, 1>>, <<2, 1>>, <<1, 4>>, <<3, 1>>, <<1, 1000000>>, <<1000000, 1>>, <<1, 1000000000>>}
All == [holder : {"dense", "sparse"}, printitn : 0..3, seed : {0}, scale : Scales, perm : Perms0(N), start : {"given", "random"},
        dtype : {"float", "int"}]
NDiff(q) == LET b == [Base(N) EXCEPT !.start = q.start] IN
            Cardinality({c \in {"holder", "printitn", "scale", "perm", "dtype"} : q[c] # b[c]})
Keep(al, q) == /\ Admissible(al, N, q)
               /\ \/ NDiff(q) <= 1
                  \/ Two /\ NDiff(q) = 2 /\ q.printitn # 0
                  \/ NDiff(q) = 2 /\ q.dtype = "int" /\ q.holder = "sparse"      \* integer-typed sparse data
GInit == PInit /\ a \in Algs /\ p \in {q \in All : Keep(a, q)} /\ done = FALSE
GNext == ~done /\ done' = TRUE /\ UNCHANGED <<a, p, pvars>> /\ PrintT(ToJson([alg |-> a, pres |-> p]))
GSpec == GInit /\ [][GNext]_<<a, p, done, pvars>>

\* laws (on the constant models): relabelling / scaling the model = relabelling / scaling what it denotes
PermLawK  == \A q \in Perms0(Len(KModel.U)) : FullK(PermK(KModel, q)) = PermuteD(FullK(KModel), q)
PermInvK  == \A q \in Perms0(Len(KModel.U)) : PermK(PermK(KModel, q), Inv0(q)) = KModel
ScaleLawK == \A c \in {2, 3} : FullK(ScaleK(KModel, c)) = ScaleD(FullK(KModel), c)
PermLawT  == \A q \in Perms0(Len(TModel.U)) : FullT(PermT(TModel, q)) = PermuteD(FullT(TModel), q)
ScaleLawT == \A c \in {2, 3} : FullT(ScaleT(TModel, c)) = ScaleD(FullT(TModel), c)
OrderLaw  == \A q \in Perms0(N), o \in Perms0(N) : \A j \in 1..N : q[RelabelOrder(o, q)[j] + 1] = o[j]
Laws == PermLawK /\ PermInvK /\ ScaleLawK /\ PermLawT /\ ScaleLawT /\ OrderLaw
=============================================================================
