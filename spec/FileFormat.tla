----------------------------- MODULE FileFormat -----------------------------
(***************************************************************************)
(* C16: export followed by import reproduces the object exactly.           *)
(* A file is a sequence of tokens.  Every token is a uniformly typed       *)
(* 5-tuple  <<tag, a, b, c, d>> :                                          *)
(*    <<"tensor"|"sptensor"|"ktensor"|"matrix", 0,0,0,0>>   keyword        *)
(*    <<"int", n, 0,0,0>>                                   integer         *)
(*    <<"val", l1,l2,l3,l4>>   a double, as the four 16-bit limbs of its   *)
(*                             IEEE-754 bit pattern (opaque value)         *)
(* Objects hold values as limb 4-tuples <<l1,l2,l3,l4>>.                   *)
(***************************************************************************)
EXTENDS Shapes, TLC

VARIABLE last

KW(k)   == <<k, 0, 0, 0, 0>>
INT(n)  == <<"int", n, 0, 0, 0>>
VAL(x)  == <<"val", x[1], x[2], x[3], x[4]>>
Ints(s) == [k \in 1..Len(s) |-> INT(s[k])]
Vals(s) == [k \in 1..Len(s) |-> VAL(s[k])]

RECURSIVE Flat(_)
Flat(ss) == IF ss = <<>> THEN <<>> ELSE Head(ss) \o Flat(Tail(ss))
\* the same for rows of one common length L (linear in the number of rows; used for the long entry lists)
FlatU(ss, L) == [i \in 1..(Len(ss) * L) |-> ss[((i - 1) \div L) + 1][((i - 1) % L) + 1]]

\* export with 1-based subscripts (base 1); `base` generalises to files with another index base
ExportMatrix(m) ==      \* m: sequence of rows
  <<KW("matrix"), INT(2), INT(Len(m)), INT(IF Len(m) = 0 THEN 0 ELSE Len(m[1]))>>
  \o Flat([r \in 1..Len(m) |-> Vals(m[r])])
ExportBase(o, base) ==
  CASE o.kind = "dense" ->
         <<KW("tensor"), INT(Len(o.shape))>> \o Ints(o.shape) \o Vals(o.v)            \* first index fastest
    [] o.kind = "sparse" ->
         <<KW("sptensor"), INT(Len(o.shape))>> \o Ints(o.shape) \o <<INT(Len(o.subs))>>
         \o FlatU([k \in 1..Len(o.subs) |-> [m \in 1..Len(o.shape) |-> INT(o.subs[k][m] + base)] \o <<VAL(o.vals[k])>>],
                  Len(o.shape) + 1)
    [] o.kind = "ktensor" ->
         <<KW("ktensor"), INT(Len(o.U))>> \o Ints([k \in 1..Len(o.U) |-> Len(o.U[k])]) \o <<INT(Len(o.w))>>
         \o Vals(o.w) \o Flat([k \in 1..Len(o.U) |-> ExportMatrix(o.U[k])])
    [] o.kind = "matrix" -> ExportMatrix(o.m)
    [] o.kind = "array" ->      \* a plain array that is not 2-way: the matrix keyword, its own shape, last index fastest
         <<KW("matrix"), INT(Len(o.shape))>> \o Ints(o.shape) \o Vals(o.v)
Export(o) == ExportBase(o, 1)

\* import: the inverse reading of a token sequence
TInt(t) == t[2]
TVal(t) == <<t[2], t[3], t[4], t[5]>>
ImportMatrix(ts, at) ==       \* returns <<matrix, next position>>
  LET r == TInt(ts[at + 2])   c == TInt(ts[at + 3])
  IN  <<[i \in 1..r |-> [j \in 1..c |-> TVal(ts[at + 3 + (i - 1) * c + j])]], at + 4 + r * c>>
RECURSIVE ImportFactors(_, _, _)
ImportFactors(ts, at, n) ==
  IF n = 0 THEN <<>> ELSE LET mm == ImportMatrix(ts, at) IN <<mm[1]>> \o ImportFactors(ts, mm[2], n - 1)
Import(ts, base) ==
  LET kw == ts[1][1]
      N  == TInt(ts[2])
      sh == [k \in 1..N |-> TInt(ts[2 + k])]
  IN  CASE kw = "tensor" ->
             [kind |-> "dense", shape |-> sh, v |-> [k \in 1..Prod(sh) |-> TVal(ts[2 + N + k])]]
        [] kw = "sptensor" ->
             LET nz == TInt(ts[3 + N])
             IN  [kind |-> "sparse", shape |-> sh,
                  subs |-> [k \in 1..nz |-> [m \in 1..N |-> TInt(ts[3 + N + (k - 1) * (N + 1) + m]) - base]],
                  vals |-> [k \in 1..nz |-> TVal(ts[3 + N + k * (N + 1)])]]
        [] kw = "ktensor" ->
             LET R == TInt(ts[3 + N])
             IN  [kind |-> "ktensor", w |-> [r \in 1..R |-> TVal(ts[3 + N + r])],
                  U |-> ImportFactors(ts, 4 + N + R, N)]
        [] kw = "matrix" -> IF N = 2 THEN [kind |-> "matrix", m |-> ImportMatrix(ts, 1)[1]]
                            ELSE [kind |-> "array", shape |-> sh, v |-> [k \in 1..Prod(sh) |-> TVal(ts[2 + N + k])]]

\* first failing clause or "ok"
IoWhy(op, a, res) ==
  IF res.st # "ok" THEN res.st
  ELSE CASE op = "export" ->       \* res.tokens: the real file, tokenised
              IF res.tokens = Export(a.obj) THEN "ok"
              ELSE IF Len(res.tokens) # Len(Export(a.obj)) THEN "file-length"
              ELSE LET k == CHOOSE k \in 1..Len(res.tokens) : res.tokens[k] # Export(a.obj)[k] /\
                                 \A j \in 1..(k - 1) : res.tokens[j] = Export(a.obj)[j]
                   IN  IF res.tokens[k][1] # Export(a.obj)[k][1] THEN "token-kind"
                       ELSE IF res.tokens[k][1] = "val" THEN "value-token" ELSE "integer-token"
         [] op = "import" ->       \* a.tokens written to a file with index base a.base and read back
              IF res.obj.kind # Import(a.tokens, a.base).kind THEN "object-type"
              ELSE IF res.obj # Import(a.tokens, a.base) THEN "object-content" ELSE "ok"
         [] op = "roundtrip" ->
              IF res.obj.kind # a.obj.kind THEN "object-type"
              ELSE IF res.obj # a.obj THEN "object-content" ELSE "ok"

Io(op, a, res) == IoWhy(op, a, res) = "ok" /\ last' = op

=============================================================================
