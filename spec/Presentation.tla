---------------------------- MODULE Presentation ----------------------------
(***************************************************************************)
(* C18: a decomposition result does not depend on how the problem is       *)
(* presented.                                                              *)
(*                                                                         *)
(* A PROBLEM is (algorithm, data denotation, start, options).  A           *)
(* PRESENTATION of it chooses a holder for the data, a printing interval,  *)
(* the identity of the global random seed, a positive scale factor num/den *)
(* and a relabelling of the modes (a 0-based order).                       *)
(*                                                                         *)
(*   Problem(alg, N)    a new problem is fixed                             *)
(*   Run(p, o)          the problem was run in presentation p; o are the   *)
(*                      observations on the result AFTER Transform undid   *)
(*                      the scale and the relabelling, relative to the     *)
(*                      run in the base presentation                       *)
(***************************************************************************)
EXTENDS Multilinear, TLC

VARIABLES alg, nmodes, ref       \* ref: [set |-> BOOLEAN, iters |-> Int]
pvars == <<alg, nmodes, ref>>

Algs == {"cp_als", "cp_apr_mu", "cp_apr_pdnr", "cp_apr_pqnr", "hosvd", "tucker_als", "gcp_lbfgsb"}
Base(N) == [holder |-> "dense", printitn |-> 0, seed |-> 0, scale |-> <<1, 1>>, perm |-> IdPerm0(N), start |-> "given", dtype |-> "float"]

\* which presentations an algorithm admits (the statement's scope)
Admissible(a, N, p) ==
  /\ p.holder \in {"dense", "sparse"} /\ p.printitn \in 0..3 /\ p.seed \in 0..1 /\ IsPerm0(p.perm, N)
  /\ p.scale[1] > 0 /\ p.scale[2] > 0
  /\ p.holder = "sparse" => a \in {"cp_als", "cp_apr_mu", "cp_apr_pdnr", "cp_apr_pqnr", "tucker_als"}
  /\ p.scale # <<1, 1>> => a \in {"cp_als", "hosvd", "tucker_als"}        \* "scales the CP or Tucker model"
  /\ p.perm # IdPerm0(N) => a \in {"cp_als", "hosvd", "tucker_als"} /\ p.start = "given"  \* algorithms with a mode order
  /\ p.start \in {"given", "random"} /\ (p.start = "random" => a # "hosvd")
  \* element type of the (integer-valued) data: float64 or int64 storage
  /\ p.dtype \in {"float", "int"} /\ (p.dtype = "int" => p.scale = <<1, 1>>)

\* the coordinates in which p differs from the base presentation
Coord(p, N) ==
  LET b == Base(N) IN
  IF p.holder # b.holder THEN "representation"
  ELSE IF p.scale # b.scale THEN "scale"
  ELSE IF p.perm # b.perm THEN "mode-relabelling"
  ELSE IF p.dtype # b.dtype THEN "element-type"
  ELSE IF p.printitn # b.printitn THEN "printing"
  ELSE "rerun-with-the-same-seed"

Tol9 == 1000          \* 1e-6 relative, units of 1e-9

RunWhy(p, o) ==
  IF ~Admissible(alg, nmodes, p) THEN "inadmissible-presentation"
  ELSE IF o.st # "ok" THEN o.st
  ELSE IF ~ref.set THEN (IF p = [Base(nmodes) EXCEPT !.start = p.start] THEN "ok" ELSE "first-run-must-be-the-base-presentation")
  ELSE IF o.dist9 > Tol9 THEN "model-depends-on-" \o Coord(p, nmodes)
  ELSE IF o.fit_dev9 > Tol9 THEN "fit-or-objective-depends-on-" \o Coord(p, nmodes)
  ELSE IF o.iters # ref.iters THEN "iteration-count-depends-on-" \o Coord(p, nmodes)
  ELSE "ok"

PInit == alg = "none" /\ nmodes = 0 /\ ref = [set |-> FALSE, iters |-> 0]
Problem(a, N) == a \in Algs /\ N \in 1..4 /\ alg' = a /\ nmodes' = N /\ ref' = [set |-> FALSE, iters |-> 0]
Run(p, o) == /\ RunWhy(p, o) = "ok"
             /\ ref' = IF ref.set THEN ref ELSE [set |-> TRUE, iters |-> o.iters]
             /\ UNCHANGED <<alg, nmodes>>

---------------------------------------------------------------------------
(* Transform: what undoing a presentation means on a Kruskal / Tucker model, and the laws that make *)
(* the comparison meaningful (checked by TLC on small integer models in Presentation_Gen)           *)
PermK(K, p)  == [w |-> K.w, U |-> [k \in 1..Len(K.U) |-> K.U[p[k] + 1]]]
ScaleK(K, c) == [w |-> [r \in 1..Len(K.w) |-> c * K.w[r]], U |-> K.U]
PermT(T, p)  == [core |-> PermuteD(T.core, p), U |-> [k \in 1..Len(T.U) |-> T.U[p[k] + 1]]]
ScaleT(T, c) == [core |-> [shape |-> T.core.shape, v |-> [k \in 1..Len(T.core.v) |-> c * T.core.v[k]]], U |-> T.U]
ScaleD(X, c) == [shape |-> X.shape, v |-> [k \in 1..Len(X.v) |-> c * X.v[k]]]
\* the mode order an algorithm must be given after relabelling by p: old mode m is now called Inv0(p)[m]
RelabelOrder(order, p) == [j \in 1..Len(order) |-> Inv0(p)[order[j] + 1]]
=============================================================================
