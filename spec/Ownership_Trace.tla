--------------------------- MODULE Ownership_Trace --------------------------
(* (V) trace validation for Ownership (batched).  Events:                   *)
(*  {"op", "args": {"recv", "new", "cls"}, "ret": {"st", "changed": [...], "aliased": [...]}}  *)
EXTENDS Ownership, Json, IOUtils, TLCExt

VARIABLES tid, l

Traces == ndJsonDeserialize(IOEnv.TRACE_FILE)
ASSUME TLCSet(42, <<>>)
ASSUME TLCSet(43, 0)

Tr == Traces[tid].ev
E  == Tr[l]
SetOf(s) == {s[k] : k \in 1..Len(s)}

TInit == tid \in 1..Len(Traces) /\ l = 1 /\ live = SetOf(Traces[tid].init) /\ shares = {}

EWhy == IF E.ret.st = "raised" THEN "ok"      \* a rejected call: judged by C19, but it must not modify
        ELSE CallWhy(E.op, E.args.recv, E.args.new, SetOf(E.ret.changed), SetOf(E.ret.aliased))
\* a rejected call must not modify anything; for an operation documented as in-place the state of
\* the receiver after a rejected call is the subject of C19, not of this property
RaisedWhy == IF E.ret.st = "raised" /\ E.ret.changed # <<>>
                /\ ~(E.op \in InPlaceOps /\ SetOf(E.ret.changed) \subseteq {E.args.recv})
             THEN "rejected-call-modified-operand" ELSE "ok"

TAccept == /\ l <= Len(Tr)
           /\ RaisedWhy = "ok"
           /\ IF E.ret.st = "raised" THEN UNCHANGED <<live, shares>>
              ELSE Call(E.op, E.args.recv, E.args.new, SetOf(E.ret.changed), SetOf(E.ret.aliased))
           /\ l' = l + 1 /\ UNCHANGED tid

TReject == /\ l <= Len(Tr)
           /\ (EWhy # "ok" \/ RaisedWhy # "ok")
           /\ TLCSet(42, Append(TLCGet(42), <<tid, l, IF RaisedWhy # "ok" THEN RaisedWhy ELSE EWhy>>))
           /\ l' = l + 1
           /\ live' = live \cup {E.args.new} /\ UNCHANGED <<tid, shares>>

TNext == TAccept \/ TReject
TSpec == TInit /\ [][TNext]_<<live, shares, tid, l>>

Done == (l = Len(Tr) + 1) => TLCSet(43, TLCGet(43) + 1)

Accepted ==
  /\ \A k \in 1..Len(TLCGet(42)) :
        PrintT(<<"REJECTED", TLCGet(42)[k][1], TLCGet(42)[k][2], TLCGet(42)[k][3]>>)
  /\ PrintT(<<"CONSUMED", TLCGet(43), Len(Traces)>>)
  /\ Len(TLCGet(42)) = 0

=============================================================================
