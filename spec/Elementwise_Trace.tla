--------------------------- MODULE Elementwise_Trace ---------------------------
(* (V) trace validation for Elementwise (batched; see IndexMaps_Trace).        *)
EXTENDS Elementwise, Json, IOUtils, TLCExt

VARIABLES tid, l

Traces == ndJsonDeserialize(IOEnv.TRACE_FILE)
ASSUME TLCSet(42, <<>>)
ASSUME TLCSet(43, 0)

Tr == Traces[tid].ev
E  == Tr[l]

TInit == tid \in 1..Len(Traces) /\ l = 1 /\ obj = Traces[tid].init

TAccept == /\ l <= Len(Tr)
           /\ Elementwise(E.op, E.args.rhs, E.ret)
           /\ l' = l + 1 /\ UNCHANGED tid

\* products do not change the receiver: a rejected call does not stop the trace
TReject == /\ l <= Len(Tr)
           /\ EventWhy(obj, E) # "ok"
           /\ TLCSet(42, Append(TLCGet(42), <<tid, l, EventWhy(obj, E)>>))
           /\ l' = l + 1 /\ UNCHANGED <<tid, obj>>

TNext == TAccept \/ TReject
TSpec == TInit /\ [][TNext]_<<obj, tid, l>>

Done == (l = Len(Tr) + 1) => TLCSet(43, TLCGet(43) + 1)

Accepted ==
  /\ \A k \in 1..Len(TLCGet(42)) :
        PrintT(<<"REJECTED", TLCGet(42)[k][1], TLCGet(42)[k][2], TLCGet(42)[k][3]>>)
  /\ PrintT(<<"CONSUMED", TLCGet(43), Len(Traces)>>)
  /\ Len(TLCGet(42)) = 0
  /\ TLCGet(43) = Len(Traces)

=============================================================================
