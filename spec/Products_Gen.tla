---------------------------- MODULE Products_Gen ----------------------------
(* (M)+(G) configuration of Products for one shape: every receiver kind,    *)
(* every product, every mode designation.                                    *)
EXTENDS Products, Json

CONSTANTS ShapeC,
          Rich,       \* TRUE: every dims list in any order; FALSE: sorted lists + one reversed
          Ops,        \* set of operation names to generate ({} = all)
          Kinds       \* set of receiver kinds to generate ({} = all)

VARIABLES stim, done, pres
vars == <<obj, stim, done, pres>>

N0 == Len(ShapeC)
NC == Prod(ShapeC)
Cubical == \A m \in 1..N0 : ShapeC[m] = ShapeC[1]

---------------------------------------------------------------------------
\* receivers

Odd  == {k \in 1..NC : k % 2 = 1}
\* (the pattern {3, 4, NC - 1} puts two entries into one fibre of the first mode and leaves most of a long mode empty)
SpPatterns == {{}, {NC}, {1}, Odd, 1..NC} \cup (IF NC >= 4 THEN {{2, 3, NC - 1}} ELSE {}) \cup (IF NC >= 6 THEN {{3, 4, NC - 1}} ELSE {})
SparseOf(cells) ==
  LET S == ToSparse(MaskedLabelD(ShapeC, cells))
      n == Len(S.subs)
  IN  {SparseObj(Reorder(S, pi)) : pi \in (IF n <= 3 THEN OrdersAll(n) ELSE OrdersFew(n))}

LabelK(s, R) == KObj([r \in 1..R |-> IF r = 1 THEN 2 ELSE 0 - 1],
                     [k \in 1..Len(s) |-> MkM(s[k], R, LAMBDA i, r : ((i + 2 * r + k) % 4) - 1)])
LabelT(s)    == LET cs == [k \in 1..Len(s) |-> Min2(s[k], 2)]
                IN  TObj(LabelD(cs),
                         [k \in 1..Len(s) |-> MkM(s[k], cs[k], LAMBDA i, j : ((i + 2 * j + k) % 3) - 1)])
OddDense  == DenseObj(MaskedLabelD(ShapeC, Odd))
OneSparse == CHOOSE x \in SparseOf(IF NC >= 4 THEN {2, 3, NC - 1} ELSE {NC}) : TRUE

Receivers ==
  {DenseObj(LabelD(ShapeC)), OddDense, DenseObj(MaskedLabelD(ShapeC, {NC})), DenseObj(ZerosD(ShapeC))}
  \cup UNION {SparseOf(c) : c \in SpPatterns}
  \cup {LabelK(ShapeC, 2), LabelK(ShapeC, 1), LabelT(ShapeC)}
  \cup {[kind |-> "sum", parts |-> <<OddDense, OneSparse>>],
        [kind |-> "sum", parts |-> <<LabelK(ShapeC, 2), OddDense, OneSparse, LabelT(ShapeC)>>]}

---------------------------------------------------------------------------
\* multiplicands: small, position-dependent, sign-mixed, non-symmetric

Vec(j, n)      == [i \in 1..n |-> (i + 1) * (IF j % 2 = 1 THEN 1 ELSE 0 - 1) + j]
MatA(j, nr, nc) == MkM(nr, nc, LAMBDA r, c : ((r + 2 * c + j) % 5) - 2)
FacU(k, n, R)  == MkM(n, R, LAMBDA i, r : ((2 * i + r + k) % 4) - 1)

\* mode designations: dims lists (any order) and exclude lists
DimForms ==
  LET lists(lo, hi) == UNION {InjSeqs(N0, len) : len \in lo..hi}
      sortedOnly(S) == {d \in S : \A k \in 1..(Len(d) - 1) : d[k] < d[k + 1]}
      inc == IF Rich THEN lists(1, N0) ELSE sortedOnly(lists(1, N0)) \cup {RevSeq(IdPerm0(N0))}
      exc == IF Rich THEN lists(1, N0 - 1) ELSE sortedOnly(lists(1, N0 - 1))
  IN  {[dims |-> d, excl |-> FALSE] : d \in inc} \cup {[dims |-> d, excl |-> TRUE] : d \in exc}

\* the mode a multiplicand at list position j (1-based) belongs to, for list length M
ModeOfPos(f, M, j) ==
  LET sd == DimsSel(N0, f.dims, f.excl)
  IN  IF M = N0 /\ M # Len(sd) THEN j - 1
      ELSE IF f.excl THEN sd[j] ELSE f.dims[j]

TtvArgs == UNION {{[dims |-> f.dims, excl |-> f.excl,
                    vecs |-> [j \in 1..M |-> Vec(j, ShapeC[ModeOfPos(f, M, j) + 1])]] :
                   M \in {Len(DimsSel(N0, f.dims, f.excl)), N0}} : f \in DimForms}
TtmArgs == UNION {UNION {{[dims |-> f.dims, excl |-> f.excl, transp |-> tr,
                    mats |-> [j \in 1..M |->
                               LET n == ShapeC[ModeOfPos(f, M, j) + 1]
                               IN  IF tr THEN MatA(j, n, 2) ELSE MatA(j, 2, n)]] :
                   M \in {Len(DimsSel(N0, f.dims, f.excl)), N0}} : f \in DimForms} : tr \in BOOLEAN}

KW(R, asK) == IF asK THEN [r \in 1..R |-> IF r = 1 THEN 2 ELSE 0 - 1] ELSE Ones(R)
MttkrpArgs == {[n |-> n, U |-> [k \in 1..N0 |-> FacU(k, ShapeC[k], R)], w |-> KW(R, asK), asK |-> asK] :
                n \in 0..(N0 - 1), R \in 1..2, asK \in BOOLEAN}
MttkrpsArgs == {[U |-> [k \in 1..N0 |-> FacU(k, ShapeC[k], R)], w |-> KW(R, asK), asK |-> asK] :
                 R \in 1..2, asK \in BOOLEAN}

OtherD == DenseObj([shape |-> ShapeC, v |-> [k \in 1..NC |-> ((k * 3) % 7) - 2]])
TttArgs == {[other |-> OtherD, xd |-> xd, yd |-> yd] :
              xd \in UNION {InjSeqs(N0, len) : len \in 0..N0},
              yd \in UNION {InjSeqs(N0, len) : len \in 0..N0}}
TttOk(a) == Len(a.xd) = Len(a.yd) /\ Sub(ShapeC, a.xd) = Sub(ShapeC, a.yd)
            /\ (Rich \/ Len(a.xd) > 0 \/ NC <= 12)

TtsvArgs == {[vec |-> Vec(1, ShapeC[1]), skip |-> sk, version |-> ver] :
               sk \in (0 - 1)..(N0 - 2), ver \in 1..2}

Others == {OtherD, LabelK(ShapeC, 1), LabelK(ShapeC, 2), LabelT(ShapeC)} \cup SparseOf(Odd)
InnerArgs == {[other |-> x] : x \in Others}

ContractArgs == {[a |-> a, b |-> b] : a \in 0..(N0 - 1), b \in 0..(N0 - 1)}
CollapseArgs(reds) == {[dims |-> d, red |-> r] :
                         d \in (ModeSets(N0) \ {<<>>}) \cup {RevSeq(IdPerm0(N0))}, r \in reds}

FacF(sh, z) == [shape |-> sh, v |-> [k \in 1..Prod(sh) |-> IF z /\ k = 1 THEN 0 ELSE ((k * 2) % 5) - 1]]
ScaleArgs(fkinds) ==
  {[dims |-> d, fkind |-> fk,
    F |-> IF fk = "sparse" THEN SparseObj(ToSparse(FacF(Sub(ShapeC, d), TRUE)))
          ELSE DenseObj(FacF(Sub(ShapeC, d), fk = "dense"))] :
     d \in ModeSets(N0) \ {<<>>}, fk \in fkinds}

MaskArgs(wkinds) ==
  (IF "dense" \in wkinds THEN {[W |-> DenseObj([shape |-> ShapeC, v |-> [k \in 1..NC |-> IF k % 2 = 1 THEN 1 ELSE 0]])],
                               [W |-> DenseObj(ConstD(ShapeC, 1))]} ELSE {})
  \cup (IF "sparse" \in wkinds
        THEN {[W |-> [x EXCEPT !.vals = Ones(Len(x.vals))]] : x \in SparseOf(Odd) \cup SparseOf({2, NC})}
        ELSE {})

ReconArgs ==
  UNION {{[modes |-> <<m>>, samples |-> <<[kind |-> "rows", idx |-> <<ShapeC[m + 1] - 1, 0>>]>>],
          [modes |-> <<m>>, samples |-> <<[kind |-> "rows", idx |-> <<0>>]>>],
          [modes |-> <<m>>, samples |-> <<[kind |-> "matrix", m |-> MatA(1, 2, ShapeC[m + 1])]>>]} :
         m \in 0..(N0 - 1)}

St(op, S) == {[op |-> op, args |-> a] : a \in S}

Calls(o) ==
  LET k == o.kind
  IN  St("ttv", TtvArgs)
      \cup (IF k \in {"dense", "sparse", "ttensor"} THEN St("ttm", TtmArgs) ELSE {})
      \cup (IF N0 >= 2 THEN St("mttkrp", MttkrpArgs) ELSE {})
      \cup (IF k = "dense" /\ N0 >= 2 THEN St("mttkrps", MttkrpsArgs) ELSE {})
      \cup (IF k = "dense" THEN St("ttt", {a \in TttArgs : TttOk(a)}) ELSE {})
      \cup (IF k = "dense" /\ Cubical /\ N0 >= 2 THEN St("ttsv", TtsvArgs) ELSE {})
      \cup St("innerprod", InnerArgs)
      \cup (IF k # "sum" THEN St("normsq", {[x |-> 0]}) ELSE {})
      \cup (IF k \in {"dense", "sparse"}
            THEN St("contract", {a \in ContractArgs : a.a # a.b /\ ShapeC[a.a + 1] = ShapeC[a.b + 1]}) ELSE {})
      \cup (IF k = "dense" THEN St("collapse", CollapseArgs({"sum", "max", "min", "halfsum", "wsum"})) ELSE {})
      \* sparse collapse applies the reducer to the STORED values of a slice (by design); this coincides with the
      \* reducer over the whole slice for "sum" always, for "max" on non-negative and for "min" on non-positive data
      \cup (IF k = "sparse" THEN St("collapse", CollapseArgs({"sum"}
                 \cup (IF \A j \in 1..Len(o.vals) : o.vals[j] >= 0 THEN {"max"} ELSE {})
                 \cup (IF \A j \in 1..Len(o.vals) : o.vals[j] <= 0 THEN {"min"} ELSE {}))) ELSE {})
      \cup (IF k = "dense" THEN St("scale", ScaleArgs({"array", "dense"})) ELSE {})
      \cup (IF k = "sparse" THEN St("scale", {a \in ScaleArgs({"array", "dense", "sparse"}) :
                                               a.fkind # "array" \/ Len(a.dims) = 1}) ELSE {})
      \cup (IF k = "dense" THEN St("mask", MaskArgs({"dense"})) ELSE {})
      \cup (IF k = "sparse" THEN St("mask", MaskArgs({"sparse"})) ELSE {})
      \cup (IF k = "ktensor" THEN St("mask", MaskArgs({"dense", "sparse"})) ELSE {})
      \cup (IF k = "ttensor" THEN St("reconstruct", ReconArgs) ELSE {})

Init == /\ obj \in {r \in Receivers : Kinds = {} \/ r.kind \in Kinds}
        /\ stim \in {c \in Calls(obj) : Ops = {} \/ c.op \in Ops}
        /\ done = FALSE
        /\ pres \in [sparse_core : BOOLEAN]
        /\ (pres.sparse_core => obj.kind = "ttensor")

Canon(o, op, a) ==
  IF op = "mttkrps" THEN [kind |-> "matrices", ms |-> MttkrpsFn(o, a)]
  ELSE LET E == ProdFn(o, op, a)
       IN  IF E.shape = <<>> THEN ScalarObj(E.v[1]) ELSE DenseObj(E)

DoCall == /\ ~done
          /\ LET res == Canon(obj, stim.op, stim.args)
             IN  /\ Product(stim.op, stim.args, res)
                 /\ PrintT(ToJson([init |-> obj, pres |-> pres,
                                   ev |-> <<[op |-> stim.op, args |-> stim.args, ret |-> res]>>]))
          /\ done' = TRUE
          /\ UNCHANGED <<stim, pres>>

Next == DoCall
Spec == Init /\ [][Next]_vars

---------------------------------------------------------------------------
\* (M) laws: second, independent definitions of the same products (oracle cross-validation)

X0 == DenObj(obj)

\* every generated call satisfies its precondition and its canonical result is admissible
CanonicalOk == ProdWhy(obj, stim.op, stim.args, Canon(obj, stim.op, stim.args)) = "ok"

\* ttm through matricization:  mode-n unfolding of (X x_n A) = A * unfolding of X
TtmLaw == stim.op = "ttm" =>
  LET a  == stim.args
      sd == SelOf(N0, a)
  IN  Len(sd) = 1 =>
        LET n  == sd[1]
            A0 == a.mats[VidxOf(N0, Len(a.mats), a)[1] + 1]
            A  == IF a.transp THEN TransposeM(A0) ELSE A0
            rest == RestModes(N0, <<n>>)
        IN  Mat(ProdFn(obj, "ttm", a), <<n>>, rest) = MatMul(A, Mat(X0, <<n>>, rest))

\* mttkrp through repeated ttv with the columns of the factors
MttkrpLaw == stim.op = "mttkrp" =>
  LET a == stim.args
      n == a.n
      rest == RestModes(N0, <<n>>)
      M == Mttkrp(X0, a.U, a.w, n)
  IN  \A r \in 1..Len(a.w) :
        LET cols == [k \in 1..N0 |-> [i \in 1..ShapeC[k] |-> a.U[k][i][r]]]
            t == Ttv(X0, cols, rest, rest)
        IN  \A i \in 1..ShapeC[n + 1] : M[i][r] = a.w[r] * t.v[i]

\* mttkrp through the Khatri-Rao product of the other factors (reverse order) and the unfolding
KrLaw == (stim.op = "mttkrp" /\ N0 >= 2) =>
  LET a == stim.args
      n == a.n
      rest == RestModes(N0, <<n>>)
      others == [k \in 1..Len(rest) |-> a.U[rest[k] + 1]]
      KR == KhatriRao(RevSeq(others))
      Xn == Mat(X0, <<n>>, rest)
      P  == MatMul(Xn, KR)
  IN  \A i \in 1..ShapeC[n + 1], r \in 1..Len(a.w) :
        Mttkrp(X0, a.U, a.w, n)[i][r] = a.w[r] * P[i][r]

\* inner product through ttt on all modes; norm^2 = <X,X>; collapse(sum) through ttv with ones;
\* contract through ttt with an identity
InnerLaw == stim.op = "innerprod" =>
  LET Y == DenObj(stim.args.other)
  IN  /\ Ttt(X0, Y, IdPerm0(N0), IdPerm0(N0)).v[1] = InnerD(X0, Y)
      /\ NormSqD(X0) = InnerD(X0, X0)
CollapseLaw == (stim.op = "collapse" /\ stim.args.red = "sum") =>
  LET sd == SortSet(Range(stim.args.dims))
  IN  Collapse(X0, sd, "sum") = Ttv(X0, [k \in 1..N0 |-> Ones(ShapeC[k])], sd, sd)
ContractLaw == stim.op = "contract" =>
  LET a == stim.args.a   b == stim.args.b
      I == MD(IdentityM(ShapeC[a + 1]))
      lo == Min2(a, b)   hi == Max2(a, b)
  IN  Contract(X0, a, b) = Ttt(X0, I, <<lo, hi>>, <<0, 1>>)
\* ttv in all modes = inner product with the outer product of the vectors
TtvLaw == stim.op = "ttv" =>
  LET a == stim.args
      sd == SelOf(N0, a)
      vi == VidxOf(N0, Len(a.vecs), a)
  IN  Len(sd) = N0 =>
        Ttv(X0, a.vecs, sd, vi).v[1] =
          InnerD(X0, MkD(ShapeC, LAMBDA i : ProdTo(N0, LAMBDA k : a.vecs[vi[k] + 1][i[k] + 1])))

=============================================================================
