----------------------------- MODULE Nvecs_Trace ----------------------------
EXTENDS Nvecs, Json, IOUtils, TLCExt
VARIABLES tid, l
Traces == ndJsonDeserialize(IOEnv.TRACE_FILE)
ASSUME TLCSet(42, <<>>)
ASSUME TLCSet(43, 0)
Tr == Traces[tid].ev
E  == Tr[l]
EWhy == IF E.op = "nvecs_exact" THEN NvecsWhy(E.args, E.ret) ELSE NvecsObsWhy(E.args, E.ret)
TInit == tid \in 1..Len(Traces) /\ l = 1 /\ Y = {} /\ todo = <<>> /\ kept = <<>>
TAccept == l <= Len(Tr) /\ EWhy = "ok" /\ l' = l + 1 /\ UNCHANGED <<tid, Y, todo, kept>>
TReject == /\ l <= Len(Tr) /\ EWhy # "ok"
           /\ TLCSet(42, Append(TLCGet(42), <<tid, l, EWhy>>))
           /\ l' = l + 1 /\ UNCHANGED <<tid, Y, todo, kept>>
TNext == TAccept \/ TReject
TSpec == TInit /\ [][TNext]_<<Y, todo, kept, tid, l>>
Done == (l = Len(Tr) + 1) => TLCSet(43, TLCGet(43) + 1)
Accepted ==
  /\ \A k \in 1..Len(TLCGet(42)) : PrintT(<<"REJECTED", TLCGet(42)[k][1], TLCGet(42)[k][2], TLCGet(42)[k][3]>>)
  /\ PrintT(<<"CONSUMED", TLCGet(43), Len(Traces)>>)
  /\ Len(TLCGet(42)) = 0
=============================================================================
