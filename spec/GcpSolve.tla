------------------------------ MODULE GcpSolve ------------------------------
(***************************************************************************)
(* C13 (solvers): epoch loop of the stochastic GCP solvers (SGD, Adam,     *)
(* Adagrad) with a fixed function sample, failed-epoch detection, rollback *)
(* to the best model, termination, and the life cycle of one optimizer     *)
(* OBJECT over several solves.                                             *)
(*                                                                         *)
(* Objective estimates are abstracted to their order: every value logged   *)
(* in one solve is replaced by its rank among all values of that solve     *)
(* (ties kept), which preserves every comparison the algorithm makes.      *)
(*                                                                         *)
(*  Start(c, f0)        solve() entered; f0 = estimate of the guess        *)
(*  Grad                one gradient sample + update step                  *)
(*  Epoch(f, below)     end-of-epoch estimate f; below = (f < tolerance)   *)
(*  Return(o)           solve() returned; o = observations                 *)
(***************************************************************************)
EXTENDS Integers, Sequences, FiniteSets, SequencesExt, TLC

CONSTANT KeepState     \* FALSE: the specification.  TRUE: sanity mutant - optimizer state survives Start

VARIABLES pc,      \* "idle" | "running" | "stopped"   (stopped: a termination condition holds, Return is due)
          cfg,     \* [max_iters, max_fails, epoch_iters]
          epochs,  \* completed epochs
          giters,  \* update steps in the current epoch
          nfails,  \* failed epochs in this solve
          fbest,   \* best estimate so far (= estimate of best model)
          trace,   \* f0 followed by one estimate per completed epoch
          steps,   \* number of failures before each epoch (drives the step size rate * decay^nfails)
          ostate,  \* abstract optimizer-object state: update steps absorbed since it was last clean
          solves   \* solves completed on this object

vars == <<pc, cfg, epochs, giters, nfails, fbest, trace, steps, ostate, solves>>

SeqMin(s) == CHOOSE x \in {s[k] : k \in 1..Len(s)} : \A k \in 1..Len(s) : x <= s[k]

CfgOk(c) == c.max_iters >= 0 /\ c.max_fails >= 0 /\ c.epoch_iters >= 1

StartWhy(c, f0) == IF pc # "idle" THEN "start-inside-a-solve" ELSE IF ~CfgOk(c) THEN "precondition" ELSE "ok"

GradWhy == IF pc # "running" THEN "update-step-after-termination-or-outside-a-solve"
           ELSE IF giters >= cfg.epoch_iters THEN "more-update-steps-than-epoch-iters"
           ELSE "ok"

EpochWhy(f, below) ==
  IF pc # "running" THEN "epoch-after-termination-or-outside-a-solve"
  ELSE IF giters # cfg.epoch_iters THEN "epoch-closed-before-its-update-steps"
  ELSE "ok"

Stops(nf, below, ep) == nf > cfg.max_fails \/ below \/ ep >= cfg.max_iters

\* o: observations on the returned (model, info) and on the optimizer object
ReturnWhy(o) ==
  IF o.st # "ok" THEN o.st
  ELSE IF pc = "idle" THEN "return-outside-a-solve"
  ELSE IF pc = "running" THEN
       (IF giters # 0 THEN "returned-in-the-middle-of-an-epoch" ELSE "returned-before-a-termination-condition")
  ELSE IF o.trace # trace THEN
       (IF Len(trace) > 1 /\ o.trace = SubSeq(trace, 1, Len(trace) - 1) THEN "reported-trace-one-epoch-short"
        ELSE "reported-trace-differs-from-the-estimates-made")
  ELSE IF o.f_returned # fbest THEN "returned-model-is-not-the-best-seen"
  ELSE IF fbest # SeqMin(trace) THEN "best-is-not-the-minimum-of-the-trace"
  ELSE IF fbest > trace[1] THEN "worse-than-the-starting-guess"
  ELSE IF ~o.bounds_ok THEN "factor-entry-below-the-lower-bound"
  ELSE IF ~o.rank_and_shape_ok THEN "rank-or-shape"
  ELSE IF o.step_fails # steps THEN "step-size-does-not-follow-rate-times-decay-to-the-failures"
  ELSE IF ~o.data_untouched THEN "data-modified"
  ELSE IF ~o.init_untouched THEN "initial-guess-modified"
  ELSE IF ~o.same_as_fresh THEN "solve-depends-on-earlier-solves-of-the-object"
  ELSE "ok"

---------------------------------------------------------------------------
Init == /\ pc = "idle" /\ cfg = [max_iters |-> 0, max_fails |-> 0, epoch_iters |-> 1]
        /\ epochs = 0 /\ giters = 0 /\ nfails = 0 /\ fbest = 0 /\ trace = <<>> /\ steps = <<>> /\ ostate = 0 /\ solves = 0

Start(c, f0) ==
  /\ StartWhy(c, f0) = "ok"
  /\ pc' = (IF c.max_iters = 0 THEN "stopped" ELSE "running") /\ cfg' = c /\ epochs' = 0 /\ giters' = 0 /\ nfails' = 0 /\ fbest' = f0 /\ trace' = <<f0>> /\ steps' = <<>>
  /\ ostate' = IF KeepState THEN ostate ELSE 0
  /\ UNCHANGED solves

Grad == /\ GradWhy = "ok" /\ giters' = giters + 1 /\ ostate' = ostate + 1
        /\ UNCHANGED <<pc, cfg, epochs, nfails, fbest, trace, steps, solves>>

Epoch(f, below) ==
  /\ EpochWhy(f, below) = "ok"
  /\ LET failed == f > fbest
         nf == IF failed THEN nfails + 1 ELSE nfails IN
     /\ nfails' = nf
     /\ fbest' = IF failed THEN fbest ELSE f
     /\ trace' = Append(trace, f)
     /\ steps' = Append(steps, nfails)
     /\ epochs' = epochs + 1 /\ giters' = 0
     \* a failed epoch rolls the optimizer state back to the beginning of the epoch
     /\ ostate' = IF failed THEN ostate - cfg.epoch_iters ELSE ostate
     /\ pc' = IF Stops(nf, below, epochs + 1) THEN "stopped" ELSE "running"
  /\ UNCHANGED <<cfg, solves>>

Return(o) == /\ ReturnWhy(o) = "ok" /\ pc' = "idle" /\ solves' = solves + 1
             /\ UNCHANGED <<cfg, epochs, giters, nfails, fbest, trace, steps, ostate>>

---------------------------------------------------------------------------
(* contract of the deterministic solver (scipy L-BFGS-B wrapper): one observation per solve *)
Tol9 == 1000
LbfgsbWhy(o) ==
  IF o.st # "ok" THEN o.st
  ELSE IF ~o.rank_and_shape_ok THEN "rank-or-shape"
  ELSE IF o.final_dev9 > Tol9 THEN "reported-objective-differs-from-recomputed"
  ELSE IF o.worse9 > Tol9 THEN "higher-objective-than-the-start"
  ELSE IF ~o.bounds_ok THEN "factor-entry-below-the-lower-bound"
  ELSE IF o.nit > o.maxiter THEN "iteration-limit-exceeded"
  ELSE IF ~o.callback_restored THEN "user-callback-slot-not-restored"
  ELSE IF o.user_callback_calls # o.nit THEN "user-callback-not-called-once-per-iteration"
  ELSE IF ~o.data_untouched THEN "data-modified"
  ELSE IF ~o.init_untouched THEN "initial-guess-modified"
  ELSE IF ~o.same_as_fresh THEN "solve-depends-on-earlier-solves-of-the-object"
  ELSE "ok"

(* contract of a stochastic solve with the solver's OWN default sampler (nothing to record inside the run): one       *)
(* observation per solve of a history on ONE solver object over DIFFERENT data tensors                               *)
PlainWhy(o) ==
  IF o.st # "ok" THEN o.st
  ELSE IF ~o.rank_and_shape_ok THEN "rank-or-shape"
  ELSE IF ~o.bounds_ok THEN "factor-entry-below-the-lower-bound"
  ELSE IF o.trace_len > o.max_iters + 1 THEN "more-epochs-than-the-limit"
  ELSE IF ~o.data_untouched THEN "data-modified"
  ELSE IF ~o.init_untouched THEN "initial-guess-modified"
  ELSE IF ~o.same_as_fresh THEN "solve-depends-on-earlier-solves-of-the-object"
  ELSE "ok"
=============================================================================
