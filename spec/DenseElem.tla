------------------------------ MODULE DenseElem ------------------------------
(***************************************************************************)
(* X03 (extension): element-wise operations on DENSE tensors - arithmetic, *)
(* comparison, logic (with tensors of any kind and with scalars, both      *)
(* operand orders), integer powers, and tenfun in its binary and its       *)
(* column-wise n-ary form.  C03 uses these semantics as the reference for  *)
(* sparse tensors; here the dense implementation itself is bound to them.  *)
(***************************************************************************)
EXTENDS Elementwise

DBinaryOps == BinaryOps \cup {"radd", "rsub", "rmul", "rdiv"}
DUnaryOps  == {"not", "neg", "pos", "abs"}

RECURSIVE IPow(_, _)
IPow(x, k) == IF k = 0 THEN 1 ELSE x * IPow(x, k - 1)
Max2i(a, b) == IF a >= b THEN a ELSE b

\* operands of every kind denote an array; scalars broadcast
Flat(rhs, n) == RhsFlat(rhs, n)

DFn(o, op, a) ==
  LET X == DenObj(o)  n == Len(X.v) IN
  [shape |-> X.shape,
   v |-> [k \in 1..n |->
     CASE op \in BinaryOps -> Apply(op, X.v[k], Flat(a.rhs, n)[k])
       [] op = "radd" -> Apply("add", Flat(a.rhs, n)[k], X.v[k])
       [] op = "rsub" -> Apply("sub", Flat(a.rhs, n)[k], X.v[k])
       [] op = "rmul" -> Apply("mul", Flat(a.rhs, n)[k], X.v[k])
       [] op = "rdiv" -> Apply("div", Flat(a.rhs, n)[k], X.v[k])
       [] op \in {"not", "neg", "pos"} -> Apply1(op, X.v[k])
       [] op = "abs" -> Q(IF X.v[k] < 0 THEN 0 - X.v[k] ELSE X.v[k])
       [] op = "pow" -> Q(IPow(X.v[k], a.k))
       [] op = "tf_bin_max" -> Q(Max2i(X.v[k], Flat(a.rhs, n)[k]))
       [] op = "tf_bin_xm2y" -> Q(X.v[k] - 2 * Flat(a.rhs, n)[k])          \* not commutative: operand order matters
       [] op = "tf_un_neg" -> Q(0 - X.v[k])
       [] op = "tf_un_colmax" -> Q(Max2i(X.v[k], Max2i(Flat(a.rhs, n)[k], Flat(a.rhs2, n)[k])))
       [] op = "tf_un_first_minus_last" -> Q(X.v[k] - Flat(a.rhs2, n)[k])]]   \* row order of the stacked matrix matters

DWhy(o, op, a, res) ==
  IF o.kind # "dense" THEN "precondition"
  ELSE IF res.kind # "dense" THEN "result-kind"
  ELSE IF Len(res.v) # Prod(res.shape) THEN "dense-size"
  ELSE IF res.shape # o.shape THEN "shape"
  ELSE IF [shape |-> res.shape, v |-> res.v] # DFn(o, op, a) THEN "value-at-some-position"
  ELSE "ok"
=============================================================================
