------------------------------- MODULE Dense --------------------------------
(***************************************************************************)
(* The denotation of every pyttb object: an N-way array                    *)
(*     X = [shape |-> s, v |-> flat]                                       *)
(* with `flat` the entries in F order (first subscript fastest).           *)
(* Values are integers in this module (exact domain, DESIGN 2.2).          *)
(***************************************************************************)
EXTENDS Shapes

NDims(X)      == Len(X.shape)
Size(X)       == Prod(X.shape)
At(X, i)      == X.v[1 + Lin(X.shape, i)]

\* build a tensor of shape s from a function of the 0-based subscript
MkD(s, F(_))  == [shape |-> s, v |-> [k \in 1..Prod(s) |-> F(Unlin(s, k - 1))]]

IsDense(X)    == /\ DOMAIN X = {"shape", "v"}
                 /\ \A m \in 1..Len(X.shape) : X.shape[m] \in Nat
                 /\ Len(X.v) = Prod(X.shape)

ZerosD(s)     == MkD(s, LAMBDA i : 0)
ConstD(s, c)  == MkD(s, LAMBDA i : c)
\* the labelled tensor: entry = 1 + linear index (pairwise distinct, non-zero)
LabelD(s)     == [shape |-> s, v |-> [k \in 1..Prod(s) |-> k]]
\* labelled tensor restricted to a set of (1-based) cells, zero elsewhere
MaskedLabelD(s, cells) == [shape |-> s, v |-> [k \in 1..Prod(s) |-> IF k \in cells THEN k ELSE 0]]
UnitD(s, k)   == [shape |-> s, v |-> [j \in 1..Prod(s) |-> IF j = k THEN 1 ELSE 0]]

NnzD(X)       == Cardinality({k \in 1..Len(X.v) : X.v[k] # 0})

---------------------------------------------------------------------------
\* index maps (C07)

\* numpy / pyttb convention: shape'[k] = shape[p[k]], Y[i] = X[PermSrc(i,p)]
PermuteD(X, p) ==
  LET ns == PermShape(X.shape, p)
  IN  MkD(ns, LAMBDA i : At(X, PermSrc(i, p)))

\* reshape with first index fastest, by the index formula
ReshapeD(X, t) == MkD(t, LAMBDA j : At(X, Unlin(X.shape, Lin(t, j))))

NonSingleton(s) == SelectSeq(s, LAMBDA d : d # 1)
SqueezeD(X)     == [shape |-> NonSingleton(X.shape), v |-> X.v]

---------------------------------------------------------------------------
\* matricization (C01).  R, C: 0-based mode lists that partition the modes.
\* A matrix is a sequence of rows.

IsPartition(n, R, C) == /\ IsInj(R \o C)
                        /\ Range(R \o C) = 0..(n-1)

MatShape(s, R, C) == <<Prod(Sub(s, R)), Prod(Sub(s, C))>>

\* subscript with row-part r (linear in s[R]) and column part c (linear in s[C])
MatSub(s, R, C, r, c) ==
  LET ri == Unlin(Sub(s, R), r)
      ci == Unlin(Sub(s, C), c)
  IN  [m \in 1..Len(s) |->
         IF \E k \in 1..Len(R) : R[k] = m - 1
           THEN ri[CHOOSE k \in 1..Len(R) : R[k] = m - 1]
           ELSE ci[CHOOSE k \in 1..Len(C) : C[k] = m - 1]]

Mat(X, R, C) ==
  LET ms == MatShape(X.shape, R, C)
  IN  [r \in 1..ms[1] |-> [c \in 1..ms[2] |-> At(X, MatSub(X.shape, R, C, r - 1, c - 1))]]

\* inverse: matrix M (seq of rows) with tensor shape s and mode split (R,C)
Unmat(M, s, R, C) ==
  MkD(s, LAMBDA i : M[1 + Lin(Sub(s, R), Sub(i, R))][1 + Lin(Sub(s, C), Sub(i, C))])

\* the three single-mode conventions of to_tenmat(rdims=[n], cdims_cyclic=..)
\* fc: columns n+1..N-1, 0..n-1   bc: columns n-1..0, N-1..n+1
RECURSIVE UpTo(_, _), DownTo(_, _)
UpTo(a, b)   == IF a > b THEN <<>> ELSE <<a>> \o UpTo(a + 1, b)
DownTo(a, b) == IF a < b THEN <<>> ELSE <<a>> \o DownTo(a - 1, b)
CyclicCols(n, N, conv) ==
  IF conv = "fc" THEN UpTo(n + 1, N - 1) \o UpTo(0, n - 1)
  ELSE IF conv = "bc" THEN DownTo(n - 1, 0) \o DownTo(N - 1, n + 1)
  ELSE RestModes(N, <<n>>)

Transpose(M, nr, nc) == [c \in 1..nc |-> [r \in 1..nr |-> M[r][c]]]

---------------------------------------------------------------------------
\* element-wise and reductions on integers

SameShape(X, Y) == X.shape = Y.shape
MapD(X, F(_))        == [shape |-> X.shape, v |-> [k \in 1..Len(X.v) |-> F(X.v[k])]]
Map2D(X, Y, F(_, _)) == [shape |-> X.shape, v |-> [k \in 1..Len(X.v) |-> F(X.v[k], Y.v[k])]]

\* sum_{k=1..n} F(k) and prod_{k=1..n} F(k)  (recursive operators cannot take
\* operator arguments, so these go through an explicit sequence)
SumTo(n, F(_))  == SumSeq([k \in 1..n |-> F(k)])
ProdTo(n, F(_)) == Prod([k \in 1..n |-> F(k)])

SumD(X)      == SumSeq(X.v)
InnerD(X, Y) == SumSeq([k \in 1..Len(X.v) |-> X.v[k] * Y.v[k]])
NormSqD(X)   == InnerD(X, X)

=============================================================================
