------------------------ MODULE Elementwise_Big_Gen --------------------------
EXTENDS Elementwise_Big, Json
CONSTANTS NCells, OpsC
VARIABLES stim, done
bvars == <<obj, stim, done>>
\* two patterns with more than 2048 entries each, overlapping in most but not all positions
XV(k) == IF k % 13 = 0 THEN 0 ELSE IF k % 2 = 1 THEN (k % 5) + 1 ELSE 0 - ((k % 3) + 1)
YV(k) == IF k % 11 = 3 THEN 0 ELSE IF k % 3 = 0 THEN (k % 5) + 1 ELSE (k % 4) - 5
Stimuli == {[op |-> op, rk |-> rk, x |-> [k \in 1..NCells |-> XV(k)], y |-> [k \in 1..NCells |-> IF rk = "scalar" THEN 3 ELSE YV(k)]] :
              op \in OpsC, rk \in {"sparse", "dense", "scalar"}}
Init == obj = [kind |-> "none"] /\ stim \in Stimuli /\ done = FALSE
Emit == /\ ~done
        /\ LET res == [st |-> "ok", v |-> [k \in 1..NCells |-> Apply(stim.op, stim.x[k], stim.y[k])]]
           IN  BigCall(stim, res) /\ PrintT(ToJson([big |-> TRUE, a |-> stim, ret |-> res]))
        /\ done' = TRUE /\ UNCHANGED stim
Next == Emit
Spec == Init /\ [][Next]_bvars
=============================================================================
