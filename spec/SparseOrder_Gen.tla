--------------------------- MODULE SparseOrder_Gen --------------------------
(* (G) stimuli for SparseOrder: every sparsity pattern with <= MaxNnz       *)
(* nonzeros of one shape, every stored order of it (n! orders), every       *)
(* operation name of the shard; for binary operations a second operand      *)
(* with its own orders.  (M): the re-ordering itself preserves denotation   *)
(* and well-formedness.                                                     *)
EXTENDS SparseOrder, Json

CONSTANTS ShapeC, MaxNnz,
          UnaryOpsC,      \* names of operations on one sparse operand
          BinaryOpsC,     \* names of operations on two sparse operands
          AllPairs        \* TRUE: every pair of orders for binary operations

VARIABLES stim, done
vars == <<last, stim, done>>

NC == Prod(ShapeC)
Cells == {c \in SUBSET (1..NC) : Cardinality(c) <= MaxNnz}

SOf(cells, shift) == ToSparse([shape |-> ShapeC, v |-> [k \in 1..NC |-> IF k \in cells THEN k + shift ELSE 0]])
\* a deterministic enumeration of a set as a sequence
RECURSIVE SeqOfSet(_)
SeqOfSet(S) == IF S = {} THEN <<>> ELSE LET x == CHOOSE x \in S : TRUE IN <<x>> \o SeqOfSet(S \ {x})
PermsSeq(n) == SeqOfSet(OrdersAll(n))

UnaryStimuli ==
  {[op |-> op, S |-> SOf(c, 0), T |-> SOf({}, 0),
    orders |-> [k \in 1..Len(PermsSeq(Cardinality(c))) |-> <<PermsSeq(Cardinality(c))[k], <<>>>>]] :
     op \in UnaryOpsC, c \in Cells}

PairOrders(n, m) ==
  LET A == PermsSeq(n)  B == PermsSeq(m)
      idA == [j \in 1..n |-> j]   idB == [j \in 1..m |-> j]
  IN  IF AllPairs THEN SeqOfSet({<<a, b>> : a \in Range(A), b \in Range(B)})
      ELSE SeqOfSet({<<a, idB>> : a \in Range(A)} \cup {<<idA, b>> : b \in Range(B)}
                    \cup {<<[j \in 1..n |-> n + 1 - j], [j \in 1..m |-> m + 1 - j]>>})

\* second operand: same values on common cells (so that differences cancel) or shifted values
BinaryStimuli ==
  {[op |-> op, S |-> SOf(c, 0), T |-> SOf(d, sh),
    orders |-> PairOrders(Cardinality(c), Cardinality(d))] :
     op \in BinaryOpsC, c \in Cells, d \in Cells, sh \in {0, 1}}

Init == /\ stim \in UnaryStimuli \cup BinaryStimuli
        /\ last = [op |-> "none", n |-> 0]
        /\ done = FALSE

DoEmit == /\ ~done
          /\ PrintT(ToJson(stim))
          /\ done' = TRUE
          /\ UNCHANGED <<stim, last>>

Next == DoEmit
Spec == Init /\ [][Next]_vars

\* (M) re-ordering a well-formed sparse tensor keeps it well formed and keeps its denotation
ReorderLaw ==
  \A k \in 1..Len(stim.orders) :
     LET S2 == Reorder(stim.S, stim.orders[k][1])
     IN  /\ WFStrict(S2) /\ Den(S2) = Den(stim.S)
         /\ (stim.orders[k][2] # <<>> =>
               LET T2 == Reorder(stim.T, stim.orders[k][2])
               IN  WFStrict(T2) /\ Den(T2) = Den(stim.T))
OrdersDistinct == Cardinality(Range(stim.orders)) = Len(stim.orders)

=============================================================================
