------------------------------- MODULE Helpers ------------------------------
(***************************************************************************)
(* C17: index arithmetic (tt_sub2ind / tt_ind2sub), mode-selection          *)
(* preprocessing (tt_dimscheck), row-set helpers and the Khatri-Rao         *)
(* product.  The helpers are pure functions: the only state is the last     *)
(* observation `last`.  Each action takes the call's arguments and the      *)
(* result `res` and is enabled iff res is an admissible result.             *)
(***************************************************************************)
EXTENDS Multilinear, TLC

VARIABLE last

Rows(A) == Range(A)                       \* set of rows of a row matrix (sequence of rows)

---------------------------------------------------------------------------
\* canonical results

Sub2IndFn(s, subs) == [k \in 1..Len(subs) |-> Lin(s, subs[k])]
Ind2SubFn(s, idx)  == [k \in 1..Len(idx) |-> Unlin(s, idx[k])]

\* tt_dimscheck(N, M, dims | exclude_dims): sorted selected modes and, for each, the 0-based
\* position of its multiplicand.  hasM = FALSE: no multiplicands, vidx = <<>>.
\* One multiplicand per listed mode (in the order listed) takes precedence when M = |dims|;
\* otherwise M = N and multiplicand k belongs to mode k.
DimsCheckFn(N, hasM, M, dims, useExclude) ==
  LET sd == DimsSel(N, dims, useExclude)
  IN  [sdims |-> sd,
       vidx  |-> IF ~hasM THEN <<>>
                 ELSE IF M = Len(sd)
                   THEN (IF useExclude THEN [k \in 1..Len(sd) |-> k - 1]
                         ELSE [k \in 1..Len(sd) |-> (CHOOSE j \in 1..Len(dims) : dims[j] = sd[k]) - 1])
                 ELSE sd]
DimsCheckPre(N, hasM, M, dims, useExclude) ==
  /\ \A k \in 1..Len(dims) : dims[k] \in 0..(N - 1)
  /\ IsInj(dims)
  /\ hasM => (M = N \/ M = Len(DimsSel(N, dims, useExclude)))

FirstIdx(A, row) == (CHOOSE k \in 1..Len(A) : A[k] = row /\ \A j \in 1..(k - 1) : A[j] # row) - 1
IsMemberFn(search, source) ==
  [matched |-> [k \in 1..Len(search) |-> search[k] \in Rows(source)],
   loc     |-> [k \in 1..Len(search) |->
                  IF search[k] \in Rows(source) THEN FirstIdx(source, search[k]) ELSE 0 - 1]]

\* first occurrences in A of the distinct rows of A satisfying P
RECURSIVE FirstOcc(_, _, _)
FirstOcc(A, k, seen) ==
  IF k > Len(A) THEN <<>>
  ELSE IF A[k] \in seen THEN FirstOcc(A, k + 1, seen)
  ELSE <<k - 1>> \o FirstOcc(A, k + 1, seen \cup {A[k]})
IntersectFn(A, B) == SelectSeq(FirstOcc(A, 1, {}), LAMBDA i : A[i + 1] \in Rows(B))
SetDiffFn(A, B)   == SelectSeq(FirstOcc(A, 1, {}), LAMBDA i : A[i + 1] \notin Rows(B))
UnionFn(A, B)     == LET AB == A \o B
                     IN  [k \in 1..Len(FirstOcc(AB, 1, {})) |-> AB[FirstOcc(AB, 1, {})[k] + 1]]

KhatriRaoFn(mats, reverse) == KhatriRao(IF reverse THEN RevSeq(mats) ELSE mats)

---------------------------------------------------------------------------
\* admissible results (first failing clause or "ok")

Status(res) == IF res.st # "ok" THEN res.st ELSE "ok"

Sub2IndWhy(s, subs, res) ==
  IF Status(res) # "ok" THEN Status(res)
  ELSE IF Len(res.idx) # Len(subs) THEN "length"
  ELSE IF \E k \in 1..Len(subs) : res.idx[k] # Lin(s, subs[k]) THEN "not-first-index-fastest"
  ELSE "ok"

Ind2SubWhy(s, idx, res) ==
  IF Status(res) # "ok" THEN Status(res)
  ELSE IF Len(res.subs) # Len(idx) THEN "length"
  ELSE IF \E k \in 1..Len(idx) : ~InShape(s, res.subs[k]) THEN "subscript-out-of-shape"
  ELSE IF \E k \in 1..Len(idx) : Lin(s, res.subs[k]) # idx[k] THEN "not-inverse-of-sub2ind"
  ELSE "ok"

DimsCheckWhy(N, hasM, M, dims, useExclude, res) ==
  IF ~DimsCheckPre(N, hasM, M, dims, useExclude) THEN "precondition"
  ELSE IF Status(res) # "ok" THEN Status(res)
  ELSE LET e == DimsCheckFn(N, hasM, M, dims, useExclude)
       IN  IF res.sdims # e.sdims THEN "selected-modes"
           ELSE IF res.vidx # e.vidx THEN "multiplicand-position"
           ELSE "ok"

IsMemberWhy(search, source, res) ==
  IF Status(res) # "ok" THEN Status(res)
  ELSE IF Len(res.matched) # Len(search) \/ Len(res.loc) # Len(search) THEN "length"
  ELSE IF \E k \in 1..Len(search) : res.matched[k] # (search[k] \in Rows(source)) THEN "membership"
  ELSE IF \E k \in 1..Len(search) :
            IF res.matched[k]
              THEN ~(res.loc[k] \in 0..(Len(source) - 1)) \/ source[res.loc[k] + 1] # search[k]
              ELSE res.loc[k] # 0 - 1
         THEN "location"
  ELSE "ok"

\* res.idx: 0-based indices into A, one per distinct row of the target set
RowIdxWhy(A, target, res) ==
  IF Status(res) # "ok" THEN Status(res)
  ELSE IF \E k \in 1..Len(res.idx) : ~(res.idx[k] \in 0..(Len(A) - 1)) THEN "index-out-of-range"
  ELSE IF {A[res.idx[k] + 1] : k \in 1..Len(res.idx)} # target THEN "wrong-row-set"
  ELSE IF Len(res.idx) # Cardinality(target) THEN "repeated-row"
  ELSE "ok"
IntersectWhy(A, B, res) == RowIdxWhy(A, Rows(A) \cap Rows(B), res)
SetDiffWhy(A, B, res)   == RowIdxWhy(A, Rows(A) \ Rows(B), res)

UnionWhy(A, B, res) ==
  IF Status(res) # "ok" THEN Status(res)
  ELSE IF Rows(res.rows) # Rows(A) \cup Rows(B) THEN "wrong-row-set"
  ELSE IF Len(res.rows) # Cardinality(Rows(A) \cup Rows(B)) THEN "repeated-row"
  ELSE "ok"

KhatriRaoWhy(mats, reverse, res) ==
  IF \E k \in 1..Len(mats) : NCols(mats[k]) # NCols(mats[1]) THEN "precondition"
  ELSE IF Status(res) # "ok" THEN Status(res)
  ELSE IF res.m # KhatriRaoFn(mats, reverse) THEN "not-columnwise-kronecker"
  ELSE "ok"

EventWhy(ev) ==
  LET a == ev.args   r == ev.ret
  IN  \* helpers are pure functions: the harness reports argument arrays that differ after the call
      IF r.st = "operand-changed" THEN "operand-changed-by-the-call" ELSE
      CASE ev.op = "sub2ind"   -> Sub2IndWhy(a.shape, a.subs, r)
        [] ev.op = "ind2sub"   -> Ind2SubWhy(a.shape, a.idx, r)
        [] ev.op = "dimscheck" -> DimsCheckWhy(a.N, a.hasM, a.M, a.dims, a.excl, r)
        [] ev.op = "ismember"  -> IsMemberWhy(a.A, a.B, r)
        [] ev.op = "intersect" -> IntersectWhy(a.A, a.B, r)
        [] ev.op = "setdiff"   -> SetDiffWhy(a.A, a.B, r)
        [] ev.op = "union"     -> UnionWhy(a.A, a.B, r)
        [] ev.op = "khatrirao" -> KhatriRaoWhy(a.mats, a.reverse, r)
        [] OTHER -> "unknown-op"

\* canonical result of an event's call
EventFn(op, a) ==
  CASE op = "sub2ind"   -> [st |-> "ok", idx |-> Sub2IndFn(a.shape, a.subs)]
    [] op = "ind2sub"   -> [st |-> "ok", subs |-> Ind2SubFn(a.shape, a.idx)]
    [] op = "dimscheck" -> [st |-> "ok"] @@ DimsCheckFn(a.N, a.hasM, a.M, a.dims, a.excl)
    [] op = "ismember"  -> [st |-> "ok"] @@ IsMemberFn(a.A, a.B)
    [] op = "intersect" -> [st |-> "ok", idx |-> IntersectFn(a.A, a.B)]
    [] op = "setdiff"   -> [st |-> "ok", idx |-> SetDiffFn(a.A, a.B)]
    [] op = "union"     -> [st |-> "ok", rows |-> UnionFn(a.A, a.B)]
    [] op = "khatrirao" -> [st |-> "ok", m |-> KhatriRaoFn(a.mats, a.reverse)]

---------------------------------------------------------------------------
\* actions: one per helper

Sub2Ind(s, subs, res)   == Sub2IndWhy(s, subs, res) = "ok" /\ last' = res
Ind2Sub(s, idx, res)    == Ind2SubWhy(s, idx, res) = "ok" /\ last' = res
DimsCheck(N, hasM, M, dims, ex, res) == DimsCheckWhy(N, hasM, M, dims, ex, res) = "ok" /\ last' = res
IsMember(A, B, res)     == IsMemberWhy(A, B, res) = "ok" /\ last' = res
Intersect(A, B, res)    == IntersectWhy(A, B, res) = "ok" /\ last' = res
SetDiff(A, B, res)      == SetDiffWhy(A, B, res) = "ok" /\ last' = res
Union(A, B, res)        == UnionWhy(A, B, res) = "ok" /\ last' = res
KhatriRaoAct(mats, rev, res) == KhatriRaoWhy(mats, rev, res) = "ok" /\ last' = res

Call(ev) ==
  CASE ev.op = "sub2ind"   -> Sub2Ind(ev.args.shape, ev.args.subs, ev.ret)
    [] ev.op = "ind2sub"   -> Ind2Sub(ev.args.shape, ev.args.idx, ev.ret)
    [] ev.op = "dimscheck" -> DimsCheck(ev.args.N, ev.args.hasM, ev.args.M, ev.args.dims, ev.args.excl, ev.ret)
    [] ev.op = "ismember"  -> IsMember(ev.args.A, ev.args.B, ev.ret)
    [] ev.op = "intersect" -> Intersect(ev.args.A, ev.args.B, ev.ret)
    [] ev.op = "setdiff"   -> SetDiff(ev.args.A, ev.args.B, ev.ret)
    [] ev.op = "union"     -> Union(ev.args.A, ev.args.B, ev.ret)
    [] ev.op = "khatrirao" -> KhatriRaoAct(ev.args.mats, ev.args.reverse, ev.ret)
    [] OTHER -> FALSE

=============================================================================
