------------------------------ MODULE MatAlgebra -----------------------------
(***************************************************************************)
(* X02 (extension): algebra of the matrix-like and composite classes that  *)
(* no listed property covers - tenmat (a matrix that remembers which modes *)
(* of which tensor its rows and columns are), sptenmat, sumtensor and      *)
(* ttensor scalar algebra.                                                 *)
(*                                                                         *)
(*   Fn(op, o, a)   the specified result of  o.<op>(a)                     *)
(*   Why(op, o, a, res)   first clause in which a logged result differs    *)
(***************************************************************************)
EXTENDS Objects, TLC

MapM(A, F(_))        == MkM(NRows(A), NCols(A), LAMBDA r, c : F(A[r][c]))
Map2M(A, B, F(_, _)) == MkM(NRows(A), NCols(A), LAMBDA r, c : F(A[r][c], B[r][c]))
SumSq(A)             == SumSeq([r \in 1..NRows(A) |-> SumSeq([c \in 1..NCols(A) |-> A[r][c] * A[r][c]])])
TM(o, m)             == [kind |-> "tenmat", tshape |-> o.tshape, rdims |-> o.rdims, cdims |-> o.cdims, m |-> m]
MShape(o)            == MatShape(o.tshape, o.rdims, o.cdims)

Raise == [kind |-> "raise"]

\* ---------------------------------------------------------------- tenmat
TenmatFn(op, o, a) ==
  CASE op = "ctranspose" -> [kind |-> "tenmat", tshape |-> o.tshape, rdims |-> o.cdims, cdims |-> o.rdims, m |-> TransposeM(o.m)]
    [] op = "normsq"     -> ScalarObj(SumSq(o.m))
    [] op = "pos"        -> o
    [] op = "neg"        -> TM(o, MapM(o.m, LAMBDA x : 0 - x))
    [] op \in {"add_scalar", "radd_scalar"} -> TM(o, MapM(o.m, LAMBDA x : x + a.c))
    [] op = "sub_scalar" -> TM(o, MapM(o.m, LAMBDA x : x - a.c))
    [] op = "rsub_scalar" -> TM(o, MapM(o.m, LAMBDA x : a.c - x))
    [] op \in {"mul_scalar", "rmul_scalar"} -> TM(o, MapM(o.m, LAMBDA x : a.c * x))
    [] op = "add"        -> IF MShape(o) = MShape(a.other) THEN TM(o, Map2M(o.m, a.other.m, LAMBDA x, y : x + y)) ELSE Raise
    [] op = "sub"        -> IF MShape(o) = MShape(a.other) THEN TM(o, Map2M(o.m, a.other.m, LAMBDA x, y : x - y)) ELSE Raise
    [] op = "isequal"    -> [kind |-> "bool", val |-> (a.other.kind = "tenmat" /\ a.other.tshape = o.tshape /\ a.other.rdims = o.rdims
                                                      /\ a.other.cdims = o.cdims /\ a.other.m = o.m)]
    [] op = "getitem"    -> ScalarObj(o.m[a.r + 1][a.c + 1])
    [] op = "setitem"    -> TM(o, [o.m EXCEPT ![a.r + 1][a.c + 1] = a.v])
    [] op = "mul"        ->
         \* matrix product: rows keep the row modes of the left factor, columns the column modes of the right factor
         LET b == a.other
             ts == Sub(o.tshape, o.rdims) \o Sub(b.tshape, b.cdims) IN
         IF MShape(o)[2] # MShape(b)[1] THEN Raise
         ELSE IF ts = <<>> THEN ScalarObj(MatMul(o.m, b.m)[1][1])
         ELSE [kind |-> "tenmat", tshape |-> ts, rdims |-> [k \in 1..Len(o.rdims) |-> k - 1],
               cdims |-> [k \in 1..Len(b.cdims) |-> Len(o.rdims) + k - 1], m |-> MatMul(o.m, b.m)]

\* ---------------------------------------------------------------- sptenmat
SptFn(op, o, a) ==
  CASE op = "normsq" -> ScalarObj(SumSeq([j \in 1..Len(o.vals) |-> o.vals[j] * o.vals[j]]))
    [] op = "pos"    -> o
    [] op = "neg"    -> [o EXCEPT !.vals = [j \in 1..Len(o.vals) |-> 0 - o.vals[j]]]
    [] op = "full"   -> LET M == Den(SptenmatAsS(o)) IN
                        [kind |-> "tenmat", tshape |-> o.tshape, rdims |-> o.rdims, cdims |-> o.cdims,
                         m |-> [r \in 1..M.shape[1] |-> [c \in 1..M.shape[2] |-> At(M, <<r - 1, c - 1>>)]]]
    [] op = "isequal" -> [kind |-> "bool", val |-> (a.other.kind = "sptenmat" /\ a.other.tshape = o.tshape /\ a.other.rdims = o.rdims
                                                   /\ a.other.cdims = o.cdims /\ Den(SptenmatAsS(a.other)) = Den(SptenmatAsS(o)))]

\* ---------------------------------------------------------------- sumtensor / ttensor (results given by their denotation)
ScaleDen(X, c) == [shape |-> X.shape, v |-> [k \in 1..Len(X.v) |-> c * X.v[k]]]
PlusDen(X, Y)  == [shape |-> X.shape, v |-> [k \in 1..Len(X.v) |-> X.v[k] + Y.v[k]]]
DenFn(op, o, a) ==
  CASE op = "pos" -> DenObj(o)
    [] op = "neg" -> ScaleDen(DenObj(o), 0 - 1)
    [] op \in {"mul_scalar", "rmul_scalar"} -> ScaleDen(DenObj(o), a.c)
    [] op \in {"add", "radd"} -> PlusDen(DenObj(o), DenObj(a.other))

\* ---------------------------------------------------------------- verdict
\* res: projected result; for sumtensor / ttensor: [kind, den |-> dense denotation, parts |-> number of parts]
Why(op, o, a, res) ==
  IF o.kind = "tenmat" THEN
     LET e == TenmatFn(op, o, a) IN
     IF e.kind = "raise" THEN (IF res.kind = "raised" THEN "ok" ELSE "ill-formed-request-answered")
     ELSE IF res.kind # e.kind THEN "result-kind"
     ELSE IF e.kind \in {"scalar", "bool"} THEN (IF res.val = e.val THEN "ok" ELSE "value")
     ELSE IF res.tshape # e.tshape THEN "tensor-shape-bookkeeping"
     ELSE IF res.rdims # e.rdims \/ res.cdims # e.cdims THEN "row-or-column-modes"
     ELSE IF res.m # e.m THEN "matrix-values"
     ELSE "ok"
  ELSE IF o.kind = "sptenmat" THEN
     LET e == SptFn(op, o, a) IN
     IF res.kind # e.kind THEN "result-kind"
     ELSE IF e.kind \in {"scalar", "bool"} THEN (IF res.val = e.val THEN "ok" ELSE "value")
     ELSE IF e.kind = "tenmat" THEN (IF res.tshape = e.tshape /\ res.rdims = e.rdims /\ res.cdims = e.cdims /\ res.m = e.m THEN "ok" ELSE "full-matrix")
     ELSE IF res.tshape # e.tshape \/ res.rdims # e.rdims \/ res.cdims # e.cdims THEN "bookkeeping"
     ELSE IF WFWhyNZ(SptenmatAsS(res)) # "ok" THEN WFWhyNZ(SptenmatAsS(res))
     ELSE IF Den(SptenmatAsS(res)) # Den(SptenmatAsS(e)) THEN "entries"
     ELSE "ok"
  ELSE \* sumtensor, ttensor
     IF res.kind # o.kind THEN "result-kind"
     ELSE IF res.den # DenFn(op, o, a) THEN "denotation"
     ELSE IF o.kind = "sum" /\ op \in {"add", "radd"} /\ res.parts # Len(o.parts) + (IF a.other.kind = "sum" THEN Len(a.other.parts) ELSE 1)
          THEN "number-of-parts"
     ELSE "ok"

\* laws (model-checked in MatAlgebra_Gen)
TransposeLaw(o) == o.kind = "tenmat" => DenObj(TenmatFn("ctranspose", o, [c |-> 0])) = DenObj(o)
NormLaw(o)      == o.kind = "tenmat" => TenmatFn("normsq", o, [c |-> 0]).val = InnerD(DenObj(o), DenObj(o))
GramLaw(o)      == o.kind = "tenmat" /\ o.rdims # <<>> =>
                     LET g == TenmatFn("mul", o, [other |-> TenmatFn("ctranspose", o, [c |-> 0])])
                     IN  g.kind = "tenmat" /\ g.m = TransposeM(g.m) /\ g.tshape = Sub(o.tshape, o.rdims) \o Sub(o.tshape, o.rdims)
=============================================================================
