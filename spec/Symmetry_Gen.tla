---------------------------- MODULE Symmetry_Gen ----------------------------
(* (M)+(G) for Symmetry: shapes cubical per group, every admissible choice  *)
(* of one or two disjoint groups, basis / labelled / already symmetric      *)
(* tensors, both versions, with and without details.                        *)
EXTENDS Symmetry, Json

VARIABLES stim, done
vars == <<last, stim, done>>

\* (shape, groups) configurations
Configs ==
  {<<<<2, 2>>, <<<<0, 1>>>>>>, <<<<3, 3>>, <<<<0, 1>>>>>>, <<<<3, 3>>, <<<<1, 0>>>>>>,
   <<<<2, 2, 2>>, <<<<0, 1, 2>>>>>>, <<<<2, 2, 2>>, <<<<0, 1>>>>>>, <<<<2, 2, 2>>, <<<<0, 2>>>>>>, <<<<2, 2, 2>>, <<<<1, 2>>>>>>,
   <<<<2, 2, 3>>, <<<<0, 1>>>>>>, <<<<2, 3, 2>>, <<<<0, 2>>>>>>, <<<<3, 2, 2>>, <<<<1, 2>>>>>>, <<<<3, 3, 2>>, <<<<0, 1>>>>>>,
   <<<<2, 2, 2, 2>>, <<<<0, 1>>, <<2, 3>>>>>>, <<<<2, 2, 2, 2>>, <<<<0, 2>>, <<1, 3>>>>>>, <<<<2, 2, 2, 2>>, <<<<0, 3>>>>>>,
   <<<<2, 2, 2, 2>>, <<<<0, 1, 2>>>>>>, <<<<2, 2, 2, 2>>, <<<<0, 1, 2, 3>>>>>>, <<<<2, 2, 3, 3>>, <<<<0, 1>>, <<2, 3>>>>>>}

Tensors(s, grps) ==
  LET L == LabelD(s)
      Sy == SymScaled(L, grps)                                   \* already symmetric
  IN  {L, Sy, ZerosD(s), [shape |-> s, v |-> [k \in 1..Prod(s) |-> ((k * 5) % 7) - 3]]}
      \cup {UnitD(s, k) : k \in 1..Prod(s)}

Stimuli ==
  UNION {UNION {{[op |-> "symmetrize", a |-> [X |-> X, grps |-> c[2], version |-> ver]] : ver \in 0..1}
                \cup {[op |-> "issymmetric", a |-> [X |-> X, grps |-> c[2], version |-> ver, details |-> dt]] :
                        ver \in 0..1, dt \in BOOLEAN}
                : X \in Tensors(c[1], c[2])} : c \in Configs}

Init == stim \in Stimuli /\ last = "none" /\ done = FALSE
DoEmit == ~done /\ PrintT(ToJson(stim)) /\ done' = TRUE /\ UNCHANGED <<stim, last>>
Next == DoEmit
Spec == Init /\ [][Next]_vars

\* (M) laws: the (scaled) symmetrisation is symmetric, idempotent up to the scale, linear in the
\* basis, fixes symmetric tensors; the number of group permutations is the scale
SymLaws ==
  LET X == stim.a.X
      g == stim.a.grps
      K == ScaleK(g)
      S == SymScaled(X, g)
  IN  /\ GroupsOk(X, g)
      /\ Cardinality(GroupPerms(Len(X.shape), g)) = K
      /\ IsSymmetric(S, g)
      /\ SymScaled(S, g).v = [k \in 1..Len(S.v) |-> K * S.v[k]]
      /\ (IsSymmetric(X, g) => S.v = [k \in 1..Len(X.v) |-> K * X.v[k]])
      /\ SumSeq(S.v) = K * SumSeq(X.v)

=============================================================================
