-------------------------------- MODULE Hosvd -------------------------------
(***************************************************************************)
(* C10: truncated higher-order SVD and Tucker-ALS.                         *)
(*                                                                         *)
(* Exact core.  For tensors whose nonzeros pairwise differ in at least two *)
(* coordinates, every mode-k Gram matrix is diagonal with the integer      *)
(* eigenvalue  e_k(i) = sum of w^2 over the entries with k-th subscript i. *)
(* On this class HOSVD is a discrete algorithm, specified here as a state  *)
(* machine: modes are processed in `dimorder`; in each mode the rank is    *)
(* the requested one, or the smallest r whose discarded eigenvalue sum is  *)
(* at most tol^2 ||X||^2 / d; sequential truncation then drops the slices  *)
(* that were cut off.  tol = tn / td is rational, all comparisons are      *)
(* integer comparisons.                                                    *)
(*                                                                         *)
(* General inputs and Tucker-ALS are specified by contract on observations *)
(* (orthonormal factors, core relation, error bound / exact ranks,         *)
(* truthful fit, monotone fits of truncated runs, iteration bound).        *)
(***************************************************************************)
EXTENDS Integers, Sequences, FiniteSets, TLC

VARIABLES Y,        \* current entries: set of [sub |-> <<i1..iN>>, w |-> weight]
          todo,     \* modes still to process (sequence)
          kept      \* per processed mode: sequence of kept indices, in decreasing eigenvalue order

vars == <<Y, todo, kept>>

SumW2(S) == LET RECURSIVE Go(_)
                Go(T) == IF T = {} THEN 0 ELSE LET e == CHOOSE e \in T : TRUE IN e.w * e.w + Go(T \ {e})
            IN  Go(S)

Eig(S, k, i) == SumW2({e \in S : e.sub[k + 1] = i})
\* indices of mode k (size n) in decreasing eigenvalue order (ties: smaller index first)
RECURSIVE OrderDesc(_, _, _)
OrderDesc(S, k, I) ==
  IF I = {} THEN <<>>
  ELSE LET best == CHOOSE i \in I : \A j \in I : Eig(S, k, i) > Eig(S, k, j) \/ (Eig(S, k, i) = Eig(S, k, j) /\ i <= j)
       IN  <<best>> \o OrderDesc(S, k, I \ {best})
TailSum(S, k, ord, r) == LET RECURSIVE Go(_)
                             Go(j) == IF j > Len(ord) THEN 0 ELSE Eig(S, k, ord[j]) + Go(j + 1)
                         IN  Go(r + 1)
\* smallest r >= 1 with   tail(r) * td^2 * d  <=  tn^2 * ||X||^2
RankRule(S, k, ord, tn, td, d, normsq) ==
  CHOOSE r \in 1..Len(ord) :
    /\ TailSum(S, k, ord, r) * td * td * d <= tn * tn * normsq
    /\ \A q \in 1..(r - 1) : TailSum(S, k, ord, q) * td * td * d > tn * tn * normsq

\* one mode of the algorithm on the exact class
\*   src = entries whose spectrum is used (Y when sequential, the original X otherwise)
ModeResult(src, k, n, reqrank, tn, td, d, normsq) ==
  LET ord == OrderDesc(src, k, 0..(n - 1))
      r == IF reqrank > 0 THEN reqrank ELSE RankRule(src, k, ord, tn, td, d, normsq)
  IN  SubSeq(ord, 1, r)

\* distinct eigenvalues among the kept / first discarded ones: the result is then unique
NoTies(src, k, n) == \A i, j \in 0..(n - 1) : i # j => Eig(src, k, i) # Eig(src, k, j)

\* the whole algorithm on the exact class: kept indices per mode
RECURSIVE RunKept(_, _, _, _, _, _, _, _, _)
RunKept(X, Ycur, rest, shape, reqranks, tn, td, sq, acc) ==
  IF rest = <<>> THEN acc
  ELSE LET k == Head(rest)
           src == IF sq THEN Ycur ELSE X
           keep == ModeResult(src, k, shape[k + 1], reqranks[k + 1], tn, td, Len(shape), SumW2(X))
           Ynew == {e \in Ycur : \E j \in 1..Len(keep) : keep[j] = e.sub[k + 1]}
       IN  RunKept(X, Ynew, Tail(rest), shape, reqranks, tn, td, sq, [acc EXCEPT ![k + 1] = keep])

ExactWhy(a, o) ==
  LET X == {a.entries[i] : i \in 1..Len(a.entries)}
      exp == RunKept(X, X, a.order, a.shape, a.ranks, a.tn, a.td, a.seq, [k \in 1..Len(a.shape) |-> <<>>])
  IN  IF o.st # "ok" THEN o.st
      ELSE IF ~o.unit_vectors THEN "factors-are-not-signed-unit-vectors"
      ELSE IF [k \in 1..Len(a.shape) |-> Len(o.kept[k])] # [k \in 1..Len(a.shape) |-> Len(exp[k])] THEN "wrong-ranks"
      ELSE IF o.kept # exp THEN "wrong-leading-vectors"
      ELSE IF ~o.core_ok THEN "core-is-not-data-times-transposed-factors"
      ELSE IF ~o.request_untouched THEN "rank-request-modified"
      ELSE "ok"

---------------------------------------------------------------------------
\* contract on observations (general inputs)
Tol9 == 1000        \* 1e-6 in units of 1e-9
HosvdObsWhy(a, o) ==
  IF ~o.orthonormal THEN "factors-not-orthonormal"
  ELSE IF o.core_relation_dev > Tol9 THEN "core-is-not-data-times-transposed-factors"
  ELSE IF a.auto /\ o.relerr9 > o.tol9 + Tol9 THEN "error-bound-exceeded"
  ELSE IF ~a.auto /\ o.ranks # a.ranks THEN "ranks-not-the-requested-ones"
  ELSE IF o.ranks_out_of_range THEN "rank-out-of-range"
  \* the rank request is an argument: the chosen ranks are reported through the result, not written into it
  ELSE IF ~o.request_untouched THEN "rank-request-modified"
  ELSE "ok"

TuckerObsWhy(a, o) ==
  IF ~o.orthonormal THEN "factors-not-orthonormal"
  ELSE IF o.ranks # a.ranks THEN "ranks-not-the-requested-ones"
  ELSE IF o.core_relation_dev > Tol9 THEN "core-is-not-data-times-transposed-factors"
  ELSE IF o.fit_dev > Tol9 THEN "reported-fit-differs-from-recomputed"
  ELSE IF o.iters_reported + 1 > a.maxiters THEN "iteration-limit-exceeded"
  ELSE IF \E k \in 1..(Len(o.trunc_fits) - 1) : o.trunc_fits[k + 1] < o.trunc_fits[k] - Tol9 THEN "fit-decreased"
  ELSE IF ~o.data_untouched THEN "data-modified"
  \* history: a second run from the same starting list may change neither the caller's list nor the first result
  ELSE IF ~o.start_untouched THEN "starting-guess-modified"
  ELSE IF ~o.earlier_result_untouched THEN "later-run-changed-an-earlier-result"
  ELSE "ok"

=============================================================================
