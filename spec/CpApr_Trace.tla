----------------------------- MODULE CpApr_Trace ----------------------------
EXTENDS CpApr, Json, IOUtils, TLCExt
VARIABLES tid, l
Traces == ndJsonDeserialize(IOEnv.TRACE_FILE)
ASSUME TLCSet(42, <<>>)
ASSUME TLCSet(43, 0)
Tr == Traces[tid].ev
E  == Tr[l]
EWhy == IF E.op = "return" THEN ReturnWhy(E.args, E.ret) ELSE TruncWhy(E.args.k, E.args.kkt)
TInit == tid \in 1..Len(Traces) /\ l = 1 /\ Init
TAccept == /\ l <= Len(Tr)
           /\ \/ E.op = "return" /\ ObserveReturn(E.args, E.ret)
              \/ E.op = "truncated" /\ ObserveTrunc(E.args.k, E.args.kkt)
           /\ l' = l + 1 /\ UNCHANGED tid
TReject == /\ l <= Len(Tr) /\ EWhy # "ok"
           /\ TLCSet(42, Append(TLCGet(42), <<tid, l, EWhy>>))
           /\ l' = l + 1 /\ UNCHANGED <<tid, pc, outer, mode, inner, mass, kkt, prev>>
TNext == TAccept \/ TReject
TSpec == TInit /\ [][TNext]_<<pc, outer, mode, inner, mass, kkt, prev, tid, l>>
Done == (l = Len(Tr) + 1) => TLCSet(43, TLCGet(43) + 1)
Accepted ==
  /\ \A k \in 1..Len(TLCGet(42)) : PrintT(<<"REJECTED", TLCGet(42)[k][1], TLCGet(42)[k][2], TLCGet(42)[k][3]>>)
  /\ PrintT(<<"CONSUMED", TLCGet(43), Len(Traces)>>)
  /\ Len(TLCGet(42)) = 0
=============================================================================
