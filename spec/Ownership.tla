------------------------------ MODULE Ownership -----------------------------
(***************************************************************************)
(* C05: operations never modify their operands and never alias them.       *)
(*                                                                         *)
(* Objects are handles; every object owns a set of buffers (the numpy      *)
(* arrays reachable from it); a buffer has a version that is bumped by     *)
(* every in-place write.  Two objects "share" when their buffer sets       *)
(* intersect.  Actions:                                                    *)
(*   Call(op, operands, new)      a public operation returning a new object*)
(*   InPlace(op, recv, operands)  an operation documented as in-place      *)
(*   NoCopyCtor(src, new)         construction with copy=False             *)
(*   Poke(h)                      the user writes into a buffer of h       *)
(* The trace form of Call / InPlace takes what was observed: the set of    *)
(* operands whose bytes changed and the set of live objects with which the *)
(* result shares memory.                                                   *)
(***************************************************************************)
EXTENDS Naturals, FiniteSets, Sequences, TLC

CONSTANTS InPlaceOps,        \* names of the operations documented as modifying their receiver
          SharingOps         \* names of the operations documented as possibly sharing (copy=False)

VARIABLES live,              \* set of live handles
          shares             \* set of two-element sets {a, b} of live handles that share a buffer

vars == <<live, shares>>

Pair(a, b) == {a, b}

\* first failing clause of an observed call, or "ok"
\*   changed  : handles (operands or other live objects) whose bytes differ after the call
\*   aliased  : live handles with which the new object (or, in place, the receiver) shares memory
CallWhy(op, recv, new, changed, aliased) ==
  IF op \in InPlaceOps
    \* an in-place write is also visible in every object already known to share with the receiver
    THEN (IF ~(changed \subseteq ({recv} \cup {g \in live : Pair(recv, g) \in shares}))
            THEN "in-place-operation-changed-another-object"
          \* ... and it may not make the receiver share storage with an operand or another live object
          ELSE IF ~(aliased \subseteq ({recv} \cup {g \in live : Pair(recv, g) \in shares}))
            THEN "in-place-operation-made-the-receiver-share-an-operand"
          ELSE "ok")
  ELSE IF changed # {} THEN "operand-modified"
  ELSE IF op \in SharingOps THEN "ok"
  ELSE IF aliased # {} THEN "result-aliases-live-object"
  ELSE "ok"

Call(op, recv, new, changed, aliased) ==
  /\ CallWhy(op, recv, new, changed, aliased) = "ok"
  /\ live' = live \cup {new}
  /\ shares' = shares \cup {Pair(new, h) : h \in aliased}

\* a poke through object h is visible exactly in the objects sharing with h
PokeVisibleIn(h) == {g \in live : Pair(h, g) \in shares}
Poke(h, seenIn) == /\ h \in live
                   /\ seenIn = PokeVisibleIn(h)
                   /\ UNCHANGED vars

Init == live = {} /\ shares = {}

\* (M) the design property: if no operation other than an explicit no-copy constructor ever
\* produced sharing, then every poke is local
NoSharing == \A p \in shares : \E h \in p : FALSE     \* i.e. shares = {}   (used with SharingOps = {})

=============================================================================
