------------------------------ MODULE Arguments ------------------------------
(***************************************************************************)
(* X04 (extension): the argument helpers every class is built on - the     *)
(* validators tt_sizecheck / tt_subscheck / tt_valscheck, isrow / isvector,*)
(* the classification of an index key (get_index_variant, the dispatch of  *)
(* C04's reads and writes) and the normalisers parse_shape / parse_one_d.  *)
(* Each is a pure function with a case analysis over the FORM of its       *)
(* argument; the forms are the state here.                                  *)
(*                                                                         *)
(* An argument is a record                                                 *)
(*   [form |-> "int" | "npint", v2]          an integer (v2 = 2 * value)    *)
(*   [form |-> "float", v2]                  a Python float, value v2 / 2   *)
(*   [form |-> "slice"]                                                    *)
(*   [form |-> "array", dims, et, v2, special]                              *)
(*        an ndarray of shape dims, element type et ("int" | "float" |      *)
(*        "bool"), entries v2[k] / 2 in storage order of a C-ordered array, *)
(*        special = "inf" | "nan": the last entry is that value ("none")    *)
(*   [form |-> "list" | "tuple", items]      items: int / npint / float     *)
(*   [form |-> "nested", rows]               a list of lists of ints        *)
(***************************************************************************)
EXTENDS Naturals, Integers, Sequences, FiniteSets, TLC

VARIABLE last

Prod(s) == LET RECURSIVE P(_) P(k) == IF k > Len(s) THEN 1 ELSE s[k] * P(k + 1) IN P(1)
IsIntItem(it)   == it.form \in {"int", "npint"}
Scalar(a)       == a.form \in {"int", "npint", "float"}
Seqish(a)       == a.form \in {"list", "tuple"}

\* what numpy makes of the argument when it is turned into an array: number of dimensions, number of entries, element
\* type (a sequence with one float in it is a float array), entries
NDim(a)  == CASE a.form = "array" -> Len(a.dims) [] Seqish(a) -> 1 [] a.form = "nested" -> 2 [] OTHER -> 0
Size(a)  == CASE a.form = "array" -> Prod(a.dims) [] Seqish(a) -> Len(a.items)
              [] a.form = "nested" -> Len(a.rows) * Len(a.rows[1]) [] OTHER -> 1
IntTyped(a) == CASE a.form = "array" -> a.et = "int"
                 [] Seqish(a) -> \A k \in 1..Len(a.items) : IsIntItem(a.items[k])
                 [] a.form = "nested" -> TRUE
                 [] OTHER -> IsIntItem(a)
Vals2(a) == CASE a.form = "array" -> a.v2
              [] Seqish(a) -> [k \in 1..Len(a.items) |-> a.items[k].v2]
              [] OTHER -> <<a.v2>>
Finite(a) == a.form = "array" => a.special = "none"

\* ---- validators
SizeOk(a) == Size(a) = 0 \/ (NDim(a) = 1 /\ IntTyped(a) /\ Finite(a) /\ \A k \in 1..Size(a) : Vals2(a)[k] > 0)
SubsOk(a) == Size(a) = 0 \/ (NDim(a) = 2 /\ IntTyped(a) /\ Finite(a) /\ \A k \in 1..Size(a) : Vals2(a)[k] >= 0)
ValsOk(a) == Size(a) = 0 \/ (NDim(a) = 2 /\ a.dims[2] = 1)
IsRow(a)    == NDim(a) = 2 /\ a.dims[1] = 1 /\ a.dims[2] >= 1
IsVector(a) == NDim(a) = 1 \/ (NDim(a) = 2 /\ (a.dims[1] = 1 \/ a.dims[2] = 1))

\* ---- what kind of access a key asks for: one linear index or a list of them, a region (one entry per mode), or a
\* matrix of subscripts (one row per element)
Variant(a) ==
  CASE a.form \in {"int", "npint", "slice"} -> "LINEAR"
    [] a.form = "array"  -> IF Len(a.dims) = 1 THEN "LINEAR" ELSE "SUBSCRIPTS"
    [] a.form = "tuple"  -> "SUBTENSOR"
    \* (the intent is read off the first entry - "no correctness checks": a later entry that is no integer is refused
    \* by the access itself)
    [] a.form = "list"   -> IF IsIntItem(a.items[1]) THEN "LINEAR" ELSE "UNKNOWN"
    [] OTHER -> "UNKNOWN"

\* ---- normalisers.  A shape is a tuple of integers: an integer, an integer-typed array with at most one dimension
\* longer than one, or a sequence of integers; everything else is refused
NonTrivial(dims) == Cardinality({k \in 1..Len(dims) : dims[k] # 1})
ShapeOf(a) ==
  CASE IsIntItem(a) -> [st |-> "ok", shape |-> <<a.v2 \div 2>>]
    [] a.form = "array" ->
         IF a.et # "int" \/ NonTrivial(a.dims) > 1 THEN [st |-> "rejected"]
         ELSE [st |-> "ok", shape |-> [k \in 1..Size(a) |-> a.v2[k] \div 2]]
    [] Seqish(a) -> IF IntTyped(a) THEN [st |-> "ok", shape |-> [k \in 1..Len(a.items) |-> a.items[k].v2 \div 2]]
                    ELSE [st |-> "rejected"]
    [] OTHER -> [st |-> "rejected"]
\* a vector: a number, an array with at most one dimension longer than one, or a sequence of numbers
VectorOf(a) ==
  CASE Scalar(a) -> [st |-> "ok", v2 |-> <<a.v2>>]
    [] a.form = "array" -> IF NonTrivial(a.dims) > 1 THEN [st |-> "rejected"] ELSE [st |-> "ok", v2 |-> a.v2]
    [] Seqish(a) -> [st |-> "ok", v2 |-> Vals2(a)]
    [] OTHER -> [st |-> "rejected"]

Expected(op, a) ==
  CASE op = "sizecheck" -> [st |-> "ok", ok |-> SizeOk(a)]
    [] op = "subscheck" -> [st |-> "ok", ok |-> SubsOk(a)]
    [] op = "valscheck" -> [st |-> "ok", ok |-> ValsOk(a)]
    [] op = "isrow"     -> [st |-> "ok", ok |-> IsRow(a)]
    [] op = "isvector"  -> [st |-> "ok", ok |-> IsVector(a)]
    [] op = "variant"   -> [st |-> "ok", variant |-> Variant(a)]
    [] op = "parse_shape" -> ShapeOf(a)
    [] op = "parse_one_d" -> VectorOf(a)

\* first failing clause of an observed call, or "ok".  The asserting form of a validator (nargout = False) must raise
\* exactly when the predicate is false: res.asserted
ArgWhy(op, a, res) ==
  LET e == Expected(op, a) IN
  IF res.st \notin {"ok", "rejected"} THEN res.st
  ELSE IF res.st # e.st THEN (IF e.st = "ok" THEN "well-formed-argument-refused" ELSE "ill-formed-argument-accepted")
  ELSE IF e.st = "rejected" THEN "ok"
  ELSE CASE op \in {"sizecheck", "subscheck", "valscheck"} ->
              IF res.ok # e.ok THEN "predicate" ELSE IF res.asserted # (~e.ok) THEN "asserting-form-disagrees" ELSE "ok"
         [] op \in {"isrow", "isvector"} -> IF res.ok # e.ok THEN "predicate" ELSE "ok"
         [] op = "variant" -> IF res.variant # e.variant THEN "variant" ELSE "ok"
         [] op = "parse_shape" -> IF res.shape # e.shape THEN "shape" ELSE IF ~res.python_ints THEN "entries-not-plain-integers" ELSE "ok"
         [] op = "parse_one_d" -> IF res.ndim # 1 THEN "not-one-dimensional" ELSE IF res.v2 # e.v2 THEN "entries" ELSE "ok"

Call(op, a, res) == ArgWhy(op, a, res) = "ok" /\ last' = op
=============================================================================
