---------------------------- MODULE Kruskal_Gen -----------------------------
(* (M)+(G) for Kruskal: instances over a column catalogue (zero columns,    *)
(* sign patterns, ties in the weights), every option of every operation.    *)
EXTENDS Kruskal, Json

CONSTANT ShapeC

VARIABLES stim, done
vars == <<last, stim, done>>

N0 == Len(ShapeC)
\* column catalogue per size (includes the zero column and columns with rational 1- and 2-norms)
Col(n, j) ==
  CASE n = 1 -> <<<<2>>, <<0 - 1>>, <<0>>, <<3>>>>[((j - 1) % 4) + 1]
    [] n = 2 -> <<<<3, 4>>, <<1, 0 - 2>>, <<0, 0>>, <<0 - 1, 0>>, <<2, 2>>>>[((j - 1) % 5) + 1]
    [] n = 3 -> <<<<1, 2, 2>>, <<0 - 2, 3, 6>>, <<0, 0, 0>>, <<0, 1, 0>>, <<1, 0 - 1, 1>>>>[((j - 1) % 5) + 1]
MkK(ws, sel) ==      \* sel: offset choosing the columns
  KRec(ws, [m \in 1..N0 |-> [i \in 1..ShapeC[m] |-> [r \in 1..Len(ws) |-> Col(ShapeC[m], sel + m + 2 * r)[i]]]])

Weights == {<<1>>, <<0 - 2>>, <<0>>, <<0 - 1>>, <<1, 0 - 1>>, <<0 - 1, 0 - 1, 1>>, <<1, 3>>, <<3, 1>>, <<0 - 2, 1>>, <<1, 1>>, <<0, 3>>, <<1, 0 - 2, 3>>, <<3, 3, 1>>, <<0 - 2, 0, 1>>}
Ks == {MkK(w, sel) : w \in Weights, sel \in 0..2}

St(op, a) == [op |-> op, a |-> a]
RECURSIVE SetToSeq(_)
SetToSeq(S) == IF S = {} THEN <<>> ELSE LET x == CHOOSE x \in S : TRUE IN <<x>> \o SetToSeq(S \ {x})
Wfs == {[wf |-> "none", wfmode |-> 0 - 1], [wf |-> "all", wfmode |-> 0 - 1]} \cup {[wf |-> "mode", wfmode |-> m] : m \in 0..(N0 - 1)}
PermsR(R) == Perms0(R)
SubLists(R) == UNION {InjSeqs(R, len) : len \in 1..R}

Calls(K) ==
  LET R == Len(K.w) IN
  {St("normalize", [K |-> K, wf |-> f.wf, wfmode |-> f.wfmode, sort |-> so, normtype |-> nt, mode |-> 0 - 1]) :
     f \in Wfs, so \in BOOLEAN, nt \in {1, 2}}
  \cup {St("normalize", [K |-> K, wf |-> "none", wfmode |-> 0 - 1, sort |-> FALSE, normtype |-> nt, mode |-> m]) : nt \in {1, 2}, m \in 0..(N0 - 1)}
  \cup {St("arrange", [K |-> K, wfmode |-> m]) : m \in (0 - 1)..(N0 - 1)}
  \cup {St("arrange_perm", [K |-> K, perm |-> p]) : p \in PermsR(R)}
  \cup {St("fixsigns", [K |-> K])}
  \cup {St("fixsigns_ref", [K |-> K, flips |-> SetToSeq(fl)]) :
          fl \in {f \in SUBSET {<<m, r>> : m \in 1..N0, r \in 1..R} : N0 * R <= 6 \/ Cardinality(f) <= 3 \/ Cardinality(f) = N0 * R}}
  \cup {St("redistribute", [K |-> K, mode |-> m]) : m \in 0..(N0 - 1)}
  \cup {St("extract", [K |-> K, idx |-> ix]) : ix \in SubLists(R)}
  \cup {St("permute", [K |-> K, order |-> o]) : o \in Perms0(N0)}
  \cup {St("tovec", [K |-> K, withW |-> b]) : b \in BOOLEAN}
  \cup {St("vec_roundtrip", [K |-> K, withW |-> TRUE]), St("copy", [K |-> K]), St("tolist", [K |-> K]), St("score_self", [K |-> K])}
  \cup {St(op, [K |-> K, other |-> MkK(<<2, 0 - 1>>, 1)]) : op \in {"add", "sub"}}
  \cup {St("neg", [K |-> K])} \cup {St(op, [K |-> K, c |-> c]) : op \in {"scalar", "rscalar"}, c \in {0 - 2, 0, 3}}
  \cup {St("update_weights", [K |-> K, data |-> [r \in 1..R |-> 4 - r]])}
  \cup {St("update_mode", [K |-> K, mode |-> m, data |-> [k \in 1..(ShapeC[m + 1] * R) |-> k - 2]]) : m \in 0..(N0 - 1)}

Init == /\ stim \in UNION {Calls(K) : K \in Ks} /\ last = "none" /\ done = FALSE
DoEmit == ~done /\ PrintT(ToJson(stim)) /\ done' = TRUE /\ UNCHANGED <<stim, last>>
Next == DoEmit
Spec == Init /\ [][Next]_vars

\* (M) laws at parameter level: every exact re-parameterisation has the denotation DenExpect says
ParamLaw == stim.op \in ExactOps \ {"tovec"} => FullK(ParamExpect(stim.op, stim.a)) = DenExpect(stim.op, stim.a)
VecLaw == stim.op = "tovec" => Len(ToVec(stim.a.K, stim.a.withW)) =
                                 Len(stim.a.K.w) * (SumSeq(ShapeC) + (IF stim.a.withW THEN 1 ELSE 0))

=============================================================================
