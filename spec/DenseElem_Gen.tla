---------------------------- MODULE DenseElem_Gen ---------------------------
EXTENDS DenseElem, Json
CONSTANTS ShapeC
VARIABLES stim, done
NC == Prod(ShapeC)
Lab(off, z) == [shape |-> ShapeC, v |-> [k \in 1..NC |-> IF z /\ k % 3 = 0 THEN 0 ELSE ((k * 3 + off) % 7) - 3]]
A0 == DenseObj(Lab(0, TRUE))
LabelK(s, R) == KObj([r \in 1..R |-> IF r = 1 THEN 2 ELSE 0 - 1],
                     [k \in 1..Len(s) |-> MkM(s[k], R, LAMBDA i, r : ((i + 2 * r + k) % 4) - 1)])
LabelT(s)    == LET cs == [k \in 1..Len(s) |-> Min2(s[k], 2)]
                IN  TObj([shape |-> cs, v |-> [k \in 1..Prod(cs) |-> (k % 3) - 1]],
                         [k \in 1..Len(s) |-> MkM(s[k], cs[k], LAMBDA i, j : ((i + 2 * j + k) % 3) - 1)])
Scalars == {[kind |-> "scalar", val |-> c] : c \in {0, 2, 0 - 1}}
DenseR  == {DenseObj(Lab(4, TRUE)), DenseObj(Lab(2, FALSE)), A0}
AnyR    == DenseR \cup {SparseObj(ToSparse(Lab(5, TRUE))), LabelK(ShapeC, 2), LabelT(ShapeC)}
Stimuli ==
  {[op |-> op, obj |-> A0, args |-> [rhs |-> r]] : op \in BinaryOps, r \in DenseR \cup Scalars}
  \cup {[op |-> op, obj |-> A0, args |-> [rhs |-> r]] : op \in {"radd", "rsub", "rmul", "rdiv"}, r \in Scalars}
  \cup {[op |-> op, obj |-> o, args |-> [k |-> 0]] : op \in DUnaryOps, o \in DenseR}
  \cup {[op |-> "pow", obj |-> A0, args |-> [k |-> k]] : k \in 0..3}
  \cup {[op |-> op, obj |-> A0, args |-> [rhs |-> r]] : op \in {"tf_bin_max", "tf_bin_xm2y"}, r \in AnyR \cup Scalars}
  \cup {[op |-> "tf_un_neg", obj |-> A0, args |-> [k |-> 0]]}
  \cup {[op |-> op, obj |-> A0, args |-> [rhs |-> r, rhs2 |-> r2]] : op \in {"tf_un_colmax", "tf_un_first_minus_last"},
          r \in AnyR, r2 \in {DenseObj(Lab(2, FALSE)), LabelK(ShapeC, 2)}}
GInit == stim \in Stimuli /\ done = FALSE /\ obj = stim.obj
GNext == ~done /\ done' = TRUE /\ UNCHANGED <<stim, obj>> /\ PrintT(ToJson(stim))
GSpec == GInit /\ [][GNext]_<<stim, done, obj>>
\* laws: the reflected forms agree with the direct ones where the operation commutes; x - y = -(y - x)
CommLaw == (stim.op \in {"radd", "rmul"}) =>
             DFn(stim.obj, stim.op, stim.args) = DFn(stim.obj, IF stim.op = "radd" THEN "add" ELSE "mul", stim.args)
=============================================================================
