--------------------------- MODULE IndexMaps_Gen ----------------------------
(***************************************************************************)
(* (M)+(G) configuration of IndexMaps for one shape: model-checks the laws *)
(* and emits every behaviour of depth D as one JSON line.                  *)
(***************************************************************************)
EXTENDS IndexMaps, Json, TLC

CONSTANTS ShapeC,      \* the shape of the initial tensors, e.g. <<2,3,2>>
          D,           \* history depth
          MaxFac,      \* maximal number of modes of a reshape target
          AllOrders,   \* TRUE: every stored order of sparse entries (n<=4); FALSE: a few
          Rich         \* TRUE: every list of old modes for sparse reshape; FALSE: lists of length <= 2

VARIABLES hist, init0
vars == <<obj, hist, init0>>

N0 == Len(ShapeC)
NC == Prod(ShapeC)

\* sparsity patterns (sets of 1-based cells of the labelled tensor)
Patterns ==
  {{}} \cup {{k} : k \in 1..NC} \cup {1..NC}
  \cup (IF NC <= 6 THEN {S \in SUBSET (1..NC) : Cardinality(S) = 2}
        ELSE {{1, NC}, {2, 3, NC - 1}, {k \in 1..NC : k % 2 = 1}, {k \in 1..NC : k % 3 = 0}})

SparseInits ==
  UNION {LET S == ToSparse(MaskedLabelD(ShapeC, cells))
             n == Len(S.subs)
             ords == IF n <= 3 \/ (AllOrders /\ n <= 4) THEN OrdersAll(n) ELSE OrdersFew(n)
         IN  {SparseObj(Reorder(S, pi)) : pi \in ords} : cells \in Patterns}

\* Kruskal / Tucker holders with small, mode-distinguishing integer parameters
LabelK(s, R) == KObj([r \in 1..R |-> IF r = 1 THEN 2 ELSE 0 - 1],
                     [k \in 1..Len(s) |-> MkM(s[k], R, LAMBDA i, r : ((i + 2 * r + k) % 4) - 1)])
LabelT(s)    == LET cs == [k \in 1..Len(s) |-> Min2(s[k], 2)]
                IN  TObj(LabelD(cs),
                         [k \in 1..Len(s) |-> MkM(s[k], cs[k], LAMBDA i, j : ((i + 2 * j + k) % 3) - 1)])

InitObjs == {DenseObj(LabelD(ShapeC))} \cup SparseInits
            \cup {LabelK(ShapeC, R) : R \in 1..2} \cup {LabelT(ShapeC)}

\* reshape targets: every ordered factorization of n into 1..MaxFac factors
Targets(n) == UNION {Factorizations(n, k) : k \in 1..MaxFac}

Ev(op, args, res) == [op |-> op, args |-> args, ret |-> res]

Init == /\ obj \in InitObjs
        /\ init0 = obj
        /\ hist = <<>>

GPermute == \E p \in Perms0(NDimsObj(obj)) :
              LET res == PermuteFn(obj, p)
              IN  Permute(p, res) /\ hist' = Append(hist, Ev("permute", [order |-> p], res))

GReshapeAll == /\ obj.kind \in {"dense", "sparse"}
               /\ \E t \in Targets(Prod(obj.shape)) :
                    LET old == AllModes(obj)
                        res == ReshapeFn(obj, t, old)
                    IN  Reshape(t, old, res)
                        /\ hist' = Append(hist, Ev("reshape", [shape |-> t, old |-> old, all |-> TRUE], res))

\* sparse only: reshape a non-empty list of distinct modes given in any order
\* (the docstring's own example passes old_modes = (1, 0))
OldLists(n) == UNION {InjSeqs(n, len) : len \in 1..(IF Rich THEN n ELSE Min2(n, 2))} \ {IdPerm0(n)}
GReshapeSome == /\ obj.kind = "sparse"
                /\ \E old \in OldLists(Len(obj.shape)) :
                   \E t \in Targets(Prod(Sub(obj.shape, old))) :
                     LET res == ReshapeFn(obj, t, old)
                     IN  Reshape(t, old, res)
                         /\ hist' = Append(hist, Ev("reshape", [shape |-> t, old |-> old, all |-> FALSE], res))

GSqueeze == /\ obj.kind \in {"dense", "sparse"}
            /\ LET res == SqueezeFn(obj)
               IN  Squeeze(res) /\ hist' = Append(hist, Ev("squeeze", [x |-> 0], res))

Live == obj.kind \notin {"scalar", "done"}

\* emission of a maximal behaviour as one JSON line: a terminal action, so that it is printed
\* once per behaviour both in breadth-first and in simulation mode
Finish == /\ obj.kind # "done"
          /\ (Len(hist) = D \/ obj.kind = "scalar")
          /\ PrintT(ToJson([init |-> init0, ev |-> hist]))
          /\ obj' = [kind |-> "done"]
          /\ UNCHANGED hist

Next == /\ \/ /\ Len(hist) < D
              /\ Live
              /\ (GPermute \/ GReshapeAll \/ GReshapeSome \/ GSqueeze)
           \/ Finish
        /\ UNCHANGED init0

Spec == Init /\ [][Next]_vars

---------------------------------------------------------------------------
\* (M) laws, checked on every reachable state

\* the canonical result of every step is well formed and denotes what the index formula says
\* (this is the enabling condition of the actions: a disabled action would show up as a
\* missing behaviour, so it is also stated as an invariant over the last event)
LastOk == hist = <<>> \/ ~Live \/ WhyWF(obj, TRUE) = "ok"

\* permute by p then by its inverse is the identity; reshape there and back is the identity
RoundTrip ==
  ~Live \/
  /\ \A p \in Perms0(NDimsObj(obj)) :
        DenObj(PermuteFn(PermuteFn(obj, p), Inv0(p))) = DenObj(obj)
  /\ obj.kind \in {"dense", "sparse"} =>
        \A t \in Targets(Prod(obj.shape)) :
          DenObj(ReshapeFn(ReshapeFn(obj, t, AllModes(obj)), obj.shape, IdPerm0(Len(t)))) = DenObj(obj)

\* F-order reshape keeps the flat vector; squeeze keeps the flat vector
FlatLaw ==
  (Live /\ obj.kind \in {"dense", "sparse"}) =>
    /\ \A t \in Targets(Prod(obj.shape)) : DenObj(ReshapeFn(obj, t, AllModes(obj))).v = DenObj(obj).v
    /\ (SqueezeFn(obj).kind # "scalar" => DenObj(SqueezeFn(obj)).v = DenObj(obj).v)

\* every holder of the same data gives the same answer: the index map commutes with Den
HolderLaw ==
  ~Live \/
  \A p \in Perms0(NDimsObj(obj)) : DenObj(PermuteFn(obj, p)) = PermuteD(DenObj(obj), p)

\* denotation never changes its multiset of values (entries are only moved)
ValuesKept ==
  (hist = <<>> \/ ~Live \/ ~(obj.kind \in {"dense", "sparse"})) \/
  LET a == DenObj(init0).v   b == DenObj(obj).v
  IN  \A x \in Range(a) \cup Range(b) :
        Cardinality({k \in 1..Len(a) : a[k] = x}) = Cardinality({k \in 1..Len(b) : b[k] = x})

=============================================================================
