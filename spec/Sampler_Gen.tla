----------------------------- MODULE Sampler_Gen ----------------------------
(* (G)/(M): enumerate sampling requests; check that the canonical sample of every serviceable *)
(* request satisfies the contract (the contract is satisfiable, i.e. not vacuous).            *)
EXTENDS Sampler, Json
CONSTANTS ShapeSet, MaxReq
VARIABLES req, done
Patterns(s) == [1..Prod(s) -> {0, 1}]
Requests ==
  UNION {{[kind |-> k, shape |-> s, data |-> [i \in 1..Prod(s) |-> p[i] * (i + 1)], nz_req |-> a, z_req |-> (IF k = "uniform" THEN 0 ELSE b)]
          : p \in Patterns(s), k \in {"uniform", "stratified", "semistrat"}, a \in 0..MaxReq, b \in 0..MaxReq} : s \in ShapeSet}
Serviceable(a) == a.kind = "uniform" \/ ((a.nz_req > 0 => NNZ(a.data) > 0))
GInit == req \in Requests /\ done = FALSE
GNext == ~done /\ done' = TRUE /\ UNCHANGED req /\ PrintT(ToJson(req))
GSpec == GInit /\ [][GNext]_<<req, done>>
CanonValid == Serviceable(req) => SampleWhy(req, Canon(req)) = "ok"
=============================================================================
