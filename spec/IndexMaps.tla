----------------------------- MODULE IndexMaps ------------------------------
(***************************************************************************)
(* C07: permute, reshape, squeeze as exact index maps, on every holder.    *)
(* One object `obj` is driven through a history of index-map operations.   *)
(* Every action takes the arguments of the public call and the result      *)
(* `res`; it is enabled iff `res` is an admissible result of that call on  *)
(* the current object (well-formed, same denotation as the index formula). *)
(* The generator chooses res = the canonical result (…Fn); the trace       *)
(* specification binds res to what the implementation returned.            *)
(***************************************************************************)
EXTENDS Objects

VARIABLE obj

---------------------------------------------------------------------------
\* canonical results (functional definitions at representation level)

PermuteFn(o, p) ==
  CASE o.kind = "dense"   -> DenseObj(PermuteD(AsD(o), p))
    [] o.kind = "sparse"  -> [o EXCEPT !.shape = PermShape(o.shape, p),
                                        !.subs = [k \in 1..Len(o.subs) |->
                                                   [m \in 1..Len(p) |-> o.subs[k][p[m] + 1]]]]
    [] o.kind = "ktensor" -> [o EXCEPT !.U = [m \in 1..Len(p) |-> o.U[p[m] + 1]]]
    [] o.kind = "ttensor" -> [o EXCEPT !.core = PermuteD(o.core, p),
                                        !.U = [m \in 1..Len(p) |-> o.U[p[m] + 1]]]

\* sparse reshape of the 0-based modes `old` (in the given order) into shape t:
\* kept modes first (increasing), new modes appended
SpReshapeShape(s, old, t) == Sub(s, RestModes(Len(s), old)) \o t
SpReshapeSub(s, old, t, i) ==
  LET keep == RestModes(Len(s), old)
  IN  Sub(i, keep) \o Unlin(t, Lin(Sub(s, old), Sub(i, old)))
\* the same map on the denotation: Y[j] = X[i] with j = SpReshapeSub(i)
SpReshapeD(X, old, t) ==
  LET s    == X.shape
      keep == RestModes(Len(s), old)
      ns   == SpReshapeShape(s, old, t)
      nk   == Len(keep)
  IN  MkD(ns, LAMBDA j :
        LET oldsub == Unlin(Sub(s, old), Lin(t, SubSeq(j, nk + 1, Len(j))))
        IN  At(X, [m \in 1..Len(s) |->
                    IF \E q \in 1..nk : keep[q] = m - 1
                      THEN j[CHOOSE q \in 1..nk : keep[q] = m - 1]
                      ELSE oldsub[CHOOSE q \in 1..Len(old) : old[q] = m - 1]]))

ReshapeFn(o, t, old) ==
  CASE o.kind = "dense"  -> DenseObj(ReshapeD(AsD(o), t))
    [] o.kind = "sparse" -> [o EXCEPT !.shape = SpReshapeShape(o.shape, old, t),
                                       !.subs = [k \in 1..Len(o.subs) |->
                                                  SpReshapeSub(o.shape, old, t, o.subs[k])]]

SqueezeFn(o) ==
  IF NonSingleton(o.shape) = <<>>
    THEN ScalarObj(DenObj(o).v[1])
  ELSE CASE o.kind = "dense"  -> DenseObj(SqueezeD(AsD(o)))
         [] o.kind = "sparse" ->
              LET keep == {m \in 1..Len(o.shape) : o.shape[m] # 1}
                  ks   == SortSet(keep)
              IN  [o EXCEPT !.shape = NonSingleton(o.shape),
                            !.subs = [k \in 1..Len(o.subs) |-> SelectIdx(o.subs[k], ks)]]

---------------------------------------------------------------------------
\* admissible results: first failing clause, or "ok"

SameKindWF(o, res) ==
  IF res.kind # o.kind THEN "result-kind"
  ELSE WhyWF(res, FALSE)

PermuteWhy(o, p, res) ==
  IF ~IsPerm0(p, NDimsObj(o)) THEN "precondition"
  ELSE IF SameKindWF(o, res) # "ok" THEN SameKindWF(o, res)
  ELSE IF ShapeObj(res) # PermShape(ShapeObj(o), p) THEN "shape"
  ELSE IF DenObj(res) # PermuteD(DenObj(o), p) THEN "entries-moved-wrongly"
  ELSE IF o.kind = "ktensor" /\ res # PermuteFn(o, p) THEN "ktensor-parameters"
  ELSE IF o.kind = "ttensor" /\ res # PermuteFn(o, p) THEN "ttensor-parameters"
  ELSE "ok"

ReshapeWhy(o, t, old, res) ==
  IF ~(o.kind \in {"dense", "sparse"}) THEN "precondition"
  ELSE IF Prod(t) # Prod(Sub(o.shape, old)) THEN "precondition"
  ELSE IF SameKindWF(o, res) # "ok" THEN SameKindWF(o, res)
  ELSE IF res.shape # SpReshapeShape(o.shape, old, t) THEN "shape"
  ELSE IF DenObj(res) # SpReshapeD(DenObj(o), old, t) THEN "entries-moved-wrongly"
  ELSE "ok"

SqueezeWhy(o, res) ==
  IF ~(o.kind \in {"dense", "sparse"}) THEN "precondition"
  ELSE IF NonSingleton(o.shape) = <<>>
    THEN (IF res.kind # "scalar" THEN "result-kind"
          ELSE IF res.val # DenObj(o).v[1] THEN "scalar-value" ELSE "ok")
  ELSE IF SameKindWF(o, res) # "ok" THEN SameKindWF(o, res)
  ELSE IF res.shape # NonSingleton(o.shape) THEN "shape"
  ELSE IF DenObj(res).v # DenObj(o).v THEN "entries-moved-wrongly"
  ELSE "ok"

\* dispatch on a logged / generated event  [op, args, ret]
EventWhy(o, ev) ==
  \* the three maps return new objects: the harness reports an operand whose arrays differ after the call
  IF ev.ret.kind = "operand-changed" THEN "operand-changed-by-the-call" ELSE
  IF ev.ret.kind = "result-shares-storage" THEN "result-shares-storage-with-the-operand" ELSE
  CASE ev.op = "permute" -> PermuteWhy(o, ev.args.order, ev.ret)
    [] ev.op = "reshape" -> ReshapeWhy(o, ev.args.shape, ev.args.old, ev.ret)
    [] ev.op = "squeeze" -> SqueezeWhy(o, ev.ret)
    [] OTHER -> "unknown-op"

---------------------------------------------------------------------------
\* actions

Permute(p, res)      == PermuteWhy(obj, p, res) = "ok" /\ obj' = res
Reshape(t, old, res) == ReshapeWhy(obj, t, old, res) = "ok" /\ obj' = res
Squeeze(res)         == SqueezeWhy(obj, res) = "ok" /\ obj' = res

AllModes(o) == IdPerm0(NDimsObj(o))

=============================================================================
