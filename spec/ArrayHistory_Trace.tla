-------------------------- MODULE ArrayHistory_Trace ------------------------
(* (V) trace validation for ArrayHistory (batched).  After a rejected write *)
(* the trace stops (the driver starts a new trace from the expected state). *)
EXTENDS ArrayHistory, Json, IOUtils, TLCExt

VARIABLES tid, l

Traces == ndJsonDeserialize(IOEnv.TRACE_FILE)
ASSUME TLCSet(42, <<>>)
ASSUME TLCSet(43, 0)

Tr == Traces[tid].ev
E  == Tr[l]

TInit == tid \in 1..Len(Traces) /\ l = 1 /\ A = Traces[tid].init

TAccept == /\ l <= Len(Tr)
           /\ (Write(E.op, E.args, E.ret) \/ Read(E.op, E.args, E.ret))
           /\ l' = l + 1 /\ UNCHANGED tid

TReject == /\ l <= Len(Tr)
           /\ EventWhy(A, E) # "ok"
           /\ TLCSet(42, Append(TLCGet(42), <<tid, l, EventWhy(A, E)>>))
           /\ (IF IsWrite(E.op) THEN l' = Len(Tr) + 2 ELSE l' = l + 1)
           /\ UNCHANGED <<tid, A>>

TNext == TAccept \/ TReject
TSpec == TInit /\ [][TNext]_<<A, tid, l>>

Done == (l = Len(Tr) + 1) => TLCSet(43, TLCGet(43) + 1)

Accepted ==
  /\ \A k \in 1..Len(TLCGet(42)) :
        PrintT(<<"REJECTED", TLCGet(42)[k][1], TLCGet(42)[k][2], TLCGet(42)[k][3]>>)
  /\ PrintT(<<"CONSUMED", TLCGet(43), Len(Traces)>>)
  /\ Len(TLCGet(42)) = 0

=============================================================================
