------------------------------- MODULE Printing ------------------------------
(***************************************************************************)
(* X01 (extension, beyond the listed properties): what the printed form    *)
(* (__repr__ / __str__) of every pyttb object shows.                       *)
(*                                                                         *)
(* The text is abstracted to a DOCUMENT: header facts (class word, shape,  *)
(* number of nonzeros, row / column modes) followed by items (slices with  *)
(* their trailing subscripts and rows; stored entries; weights and factor  *)
(* matrices; parts).  Shown(o) is the document the object must print;      *)
(* PrintWhy(o, d) names the first place where a parsed document d differs. *)
(* Number formatting is numpy's and is not modelled: values are compared   *)
(* after parsing.                                                          *)
(***************************************************************************)
EXTENDS Objects, TLC

\* trailing subscripts of the 2-D slices of an N-way array (N >= 3), first trailing index fastest
TrailShape(s) == SubSeq(s, 3, Len(s))
Trails(s)     == [k \in 1..Prod(TrailShape(s)) |-> Unlin(TrailShape(s), k - 1)]

ShownDense(X) ==
  LET s == X.shape  N == Len(s) IN
  [kind |-> "dense", shape |-> s,
   slices |->
     IF N = 1 THEN << [idx |-> <<>>, rows |-> << X.v >>] >>
     ELSE IF N = 2 THEN << [idx |-> <<>>, rows |-> [r \in 1..s[1] |-> [c \in 1..s[2] |-> At(X, <<r - 1, c - 1>>)]]] >>
     ELSE [k \in 1..Len(Trails(s)) |->
             [idx |-> Trails(s)[k],
              rows |-> [r \in 1..s[1] |-> [c \in 1..s[2] |-> At(X, <<r - 1, c - 1>> \o Trails(s)[k])]]]]]

RECURSIVE Shown(_)
Shown(o) ==
  CASE o.kind = "dense"  -> ShownDense(AsD(o))
    [] o.kind = "sparse" -> [kind |-> "sparse", shape |-> o.shape, nnz |-> Len(o.subs),
                             entries |-> [j \in 1..Len(o.subs) |-> [sub |-> o.subs[j], val |-> o.vals[j]]]]
    [] o.kind = "ktensor" -> [kind |-> "ktensor", shape |-> KShape(o), w |-> o.w, U |-> o.U]
    [] o.kind = "ttensor" -> [kind |-> "ttensor", shape |-> TShape(o), core |-> ShownDense(o.core), U |-> o.U]
    [] o.kind = "tenmat"  -> [kind |-> "tenmat", tshape |-> o.tshape, rdims |-> o.rdims, cdims |-> o.cdims, m |-> o.m]
    [] o.kind = "sptenmat" -> [kind |-> "sptenmat", tshape |-> o.tshape, nnz |-> Len(o.subs), rdims |-> o.rdims, cdims |-> o.cdims,
                               entries |-> [j \in 1..Len(o.subs) |-> [sub |-> o.subs[j], val |-> o.vals[j]]]]
    [] o.kind = "sum" -> [kind |-> "sum", shape |-> ShapeObj(o), parts |-> [k \in 1..Len(o.parts) |-> Shown(o.parts[k])]]

\* first difference between the parsed document d and the document e the object must print
RECURSIVE DocWhy(_, _)
DenseWhy(d, e) ==
  IF d.shape # e.shape THEN "header-shape"
  ELSE IF Len(d.slices) # Len(e.slices) THEN "number-of-slices"
  ELSE IF \E k \in 1..Len(e.slices) : d.slices[k].idx # e.slices[k].idx THEN "slice-subscripts-or-order"
  ELSE IF \E k \in 1..Len(e.slices) : d.slices[k].rows # e.slices[k].rows THEN "slice-values"
  ELSE "ok"
DocWhy(d, e) ==
  IF d.kind # e.kind THEN "class-word"
  ELSE CASE e.kind = "dense" -> DenseWhy(d, e)
    [] e.kind \in {"sparse", "sptenmat"} ->
         IF (e.kind = "sparse" /\ d.shape # e.shape) \/ (e.kind = "sptenmat" /\ d.tshape # e.tshape) THEN "header-shape"
         ELSE IF d.nnz # e.nnz THEN "header-nonzero-count"
         ELSE IF e.kind = "sptenmat" /\ (d.rdims # e.rdims \/ d.cdims # e.cdims) THEN "row-or-column-modes"
         ELSE IF Len(d.entries) # Len(e.entries) THEN "number-of-entries"
         ELSE IF d.entries # e.entries THEN "entries-or-their-order"
         ELSE "ok"
    [] e.kind = "ktensor" ->
         IF d.shape # e.shape THEN "header-shape" ELSE IF d.w # e.w THEN "weights" ELSE IF d.U # e.U THEN "factor-matrices" ELSE "ok"
    [] e.kind = "ttensor" ->
         IF d.shape # e.shape THEN "header-shape" ELSE IF DenseWhy(d.core, e.core) # "ok" THEN "core:" \o DenseWhy(d.core, e.core)
         ELSE IF d.U # e.U THEN "factor-matrices" ELSE "ok"
    [] e.kind = "tenmat" ->
         IF d.tshape # e.tshape THEN "header-shape" ELSE IF d.rdims # e.rdims \/ d.cdims # e.cdims THEN "row-or-column-modes"
         ELSE IF d.m # e.m THEN "matrix-values" ELSE "ok"
    [] e.kind = "sum" ->
         IF d.shape # e.shape THEN "header-shape" ELSE IF Len(d.parts) # Len(e.parts) THEN "number-of-parts"
         ELSE IF \E k \in 1..Len(e.parts) : DocWhy(d.parts[k], e.parts[k]) # "ok"
              THEN "part:" \o DocWhy(d.parts[CHOOSE k \in 1..Len(e.parts) : DocWhy(d.parts[k], e.parts[k]) # "ok"],
                                     e.parts[CHOOSE k \in 1..Len(e.parts) : DocWhy(d.parts[k], e.parts[k]) # "ok"])
         ELSE "ok"

PrintWhy(o, d) == IF d.kind = "unparsed" THEN "text-not-in-the-documented-form" ELSE DocWhy(d, Shown(o))
Printed(o, d) == PrintWhy(o, d) = "ok"

\* law (checked on every generated object): the document determines the object's denotation
DocDen(e) ==
  CASE e.kind = "dense" ->
         [shape |-> e.shape,
          v |-> [c \in 1..Prod(e.shape) |->
                   LET i == Unlin(e.shape, c - 1)
                       k == IF Len(e.shape) <= 2 THEN 1 ELSE Lin(TrailShape(e.shape), SubSeq(i, 3, Len(i))) + 1
                   IN  IF Len(e.shape) = 1 THEN e.slices[1].rows[1][i[1] + 1] ELSE e.slices[k].rows[i[1] + 1][i[2] + 1]]]
    [] e.kind = "sparse" -> Den([shape |-> e.shape, subs |-> [j \in 1..Len(e.entries) |-> e.entries[j].sub],
                                 vals |-> [j \in 1..Len(e.entries) |-> e.entries[j].val]])
    [] OTHER -> [shape |-> <<>>, v |-> <<>>]
Faithful(o) == o.kind \in {"dense", "sparse"} => DocDen(Shown(o)) = DenObj(o)
=============================================================================
