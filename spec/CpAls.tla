-------------------------------- MODULE CpAls --------------------------------
(***************************************************************************)
(* C09: control skeleton and contract of the alternating least-squares CP  *)
(* fit.  The data tensor is observed through its matricized-tensor-times-  *)
(* Khatri-Rao kernel: every kernel call carries the mode n and the         *)
(* identities (content hashes) of the factor matrices it was given.        *)
(*                                                                         *)
(*  Start(cfg, ids)     the run begins with factor identities `ids`        *)
(*  Kernel(n, ids)      the kernel is called for mode n with factors `ids` *)
(*  Return(obs)         the run returns; obs are observations on the       *)
(*                      returned triple (recomputed independently)         *)
(*  Truncated(k, calls, fit)  the same problem run with maxiters = k       *)
(***************************************************************************)
EXTENDS Integers, Sequences, FiniteSets, SequencesExt, TLC

VARIABLES pc,        \* "idle" | "running" | "returned"
          cfg,       \* [N, dimorder, optdims, maxiters]
          cur,       \* identities of the current factor matrices (as seen by the last kernel call)
          pos,       \* number of kernel calls so far
          lastn,     \* mode of the previous kernel call (0-1 = none)
          calls,     \* sequence of <<n, ids>> of this run
          trunc      \* [k, calls, fit] of the last truncated run seen (k = 0: none)

vars == <<pc, cfg, cur, pos, lastn, calls, trunc>>

\* effective mode order: the listed order restricted to the optimised modes
Eff(c) == SelectSeq(c.dimorder, LAMBDA d : \E j \in 1..Len(c.optdims) : c.optdims[j] = d)
CfgOk(c) == /\ Len(c.dimorder) = c.N /\ \A m \in 0..(c.N - 1) : \E j \in 1..c.N : c.dimorder[j] = m
            /\ Eff(c) # <<>> /\ c.maxiters >= 1

Tol == 100          \* tolerance on fits in units of 1e-9

StartWhy(c, ids) == IF ~CfgOk(c) THEN "precondition" ELSE IF Len(ids) # c.N THEN "factor-count" ELSE "ok"

\* the mode the kernel must be called for at call number p (1-based) of configuration c
ModeAt(c, p) == Eff(c)[((p - 1) % Len(Eff(c))) + 1]

KernelWhy(n, ids) ==
  IF pc # "running" THEN "kernel-called-outside-a-run"
  ELSE IF pos + 1 > cfg.maxiters * Len(Eff(cfg)) THEN "iteration-limit-exceeded"
  ELSE IF n # ModeAt(cfg, pos + 1) THEN "wrong-mode-order"
  ELSE IF Len(ids) # cfg.N THEN "factor-count"
  \* Gauss-Seidel data flow: every factor is the latest one; only the factor updated by the previous
  \* call may differ from what the previous call saw (the first call sees the initial guess)
  ELSE IF \E m \in 1..cfg.N : m - 1 # lastn /\ ids[m] # cur[m] THEN "stale-or-foreign-factor"
  \* ... and the factor updated by the previous call must be the NEW one (the drivers use generic data
  \* and stoptol = 0 for this clause, so an update never reproduces its input bit for bit)
  \* (cfg.generic: the requested rank is below every mode size and at least two modes are optimised, so the data
  \*  cannot be fitted exactly and a sweep cannot reach a fixed point whose update reproduces its input)
  \* The clause is applied within the first sweep only: there the previous factor is the starting guess, which an
  \* update cannot reproduce, whereas a converged run may legitimately reach a bitwise fixed point later on.
  ELSE IF cfg.generic /\ pos < Len(Eff(cfg)) /\ lastn >= 0 /\ ids[lastn + 1] = cur[lastn + 1] THEN "updated-factor-not-used"
  ELSE "ok"

\* obs: record of observations on the returned (model, initial guess, info)
ReturnWhy(obs) ==
  IF pc # "running" THEN "return-outside-a-run"
  ELSE IF pos % Len(Eff(cfg)) # 0 THEN "returned-in-the-middle-of-a-sweep"
  ELSE IF pos = 0 THEN "no-iteration-performed"
  ELSE IF obs.iters_reported + 1 # pos \div Len(Eff(cfg)) THEN "iteration-count"
  ELSE IF obs.iters_reported + 1 > cfg.maxiters THEN "iteration-limit-exceeded"
  ELSE IF ~obs.rank_and_shape_ok THEN "rank-or-shape"
  ELSE IF ~obs.unit_columns THEN "normal-form:unit-columns"
  ELSE IF ~obs.weights_nonneg_sorted THEN "normal-form:weights"
  ELSE IF obs.fit_dev > Tol THEN "reported-fit-differs-from-recomputed"
  ELSE IF obs.res_dev > Tol THEN "reported-residual-differs-from-recomputed"
  ELSE IF obs.stationarity_dev > Tol THEN "last-updated-factor-violates-normal-equations"
  ELSE IF ~obs.data_untouched THEN "data-modified"
  ELSE IF ~obs.init_untouched THEN "initial-guess-modified"
  ELSE IF ~obs.returned_init_is_the_one_used THEN "returned-initial-guess-not-the-one-used"
  ELSE "ok"

\* the run truncated at k iterations (same start, stoptol = 0): k sweeps, calls extend the previous
\* truncation, fit does not decrease.  `fit` is reported through the squared relative residual, -(1 - fit)^2 in units
\* of 1e-9 (monotone in the fit; near an exact fit the residual itself carries an absolute error of sqrt(eps) ||X||,
\* its square one of eps ||X||^2)
TruncWhy(k, cs, fit) ==
  IF Len(cs) # k * Len(Eff(cfg)) THEN "truncated-run-length"
  ELSE IF trunc.k > 0 /\ k = trunc.k + 1 /\ ~IsPrefix(trunc.calls, cs) THEN "truncated-runs-not-prefix-consistent"
  ELSE IF trunc.k > 0 /\ k = trunc.k + 1 /\ fit < trunc.fit - Tol THEN "fit-decreased"
  ELSE "ok"

---------------------------------------------------------------------------
Init == /\ pc = "idle" /\ cfg = [N |-> 0, dimorder |-> <<>>, optdims |-> <<>>, maxiters |-> 0, generic |-> TRUE]
        /\ cur = <<>> /\ pos = 0 /\ lastn = 0 - 1 /\ calls = <<>> /\ trunc = [k |-> 0, calls |-> <<>>, fit |-> 0]

Start(c, ids) == /\ pc = "idle" /\ StartWhy(c, ids) = "ok"
                 /\ pc' = "running" /\ cfg' = c /\ cur' = ids /\ pos' = 0 /\ lastn' = 0 - 1 /\ calls' = <<>>
                 /\ UNCHANGED trunc

Kernel(n, ids) == /\ KernelWhy(n, ids) = "ok"
                  /\ cur' = ids /\ pos' = pos + 1 /\ lastn' = n /\ calls' = Append(calls, <<n, ids>>)
                  /\ UNCHANGED <<pc, cfg, trunc>>

Return(obs) == /\ ReturnWhy(obs) = "ok" /\ pc' = "returned"
               /\ UNCHANGED <<cfg, cur, pos, lastn, calls, trunc>>

Truncated(k, cs, fit) == /\ pc = "returned" /\ TruncWhy(k, cs, fit) = "ok"
                         /\ trunc' = [k |-> k, calls |-> cs, fit |-> fit]
                         /\ UNCHANGED <<pc, cfg, cur, pos, lastn, calls>>

=============================================================================
