------------------------------- MODULE Objects ------------------------------
(***************************************************************************)
(* The object kinds of pyttb as records with a "kind" field, their         *)
(* well-formedness and their denotation (one N-way array each).            *)
(*   dense   [kind, shape, v]                                              *)
(*   sparse  [kind, shape, subs, vals]          stored order is concrete   *)
(*   ktensor [kind, w, U]                                                  *)
(*   ttensor [kind, core, U]     core is [shape, v] (dense denotation)     *)
(*   sum     [kind, parts]       parts: sequence of objects                *)
(*   tenmat  [kind, tshape, rdims, cdims, m]   m: matrix (seq of rows)     *)
(*   sptenmat[kind, tshape, rdims, cdims, subs, vals]  subs: (row, col)    *)
(*   scalar  [kind, val]      matrix [kind, m]      none [kind]            *)
(***************************************************************************)
EXTENDS Multilinear

DenseObj(X)  == [kind |-> "dense", shape |-> X.shape, v |-> X.v]
SparseObj(S) == [kind |-> "sparse", shape |-> S.shape, subs |-> S.subs, vals |-> S.vals]
KObj(w, U)   == [kind |-> "ktensor", w |-> w, U |-> U]
TObj(core, U) == [kind |-> "ttensor", core |-> [shape |-> core.shape, v |-> core.v], U |-> U]
ScalarObj(x) == [kind |-> "scalar", val |-> x]
MatrixObj(m) == [kind |-> "matrix", m |-> m]

AsD(o) == [shape |-> o.shape, v |-> o.v]
AsS(o) == [shape |-> o.shape, subs |-> o.subs, vals |-> o.vals]

TenmatDen(o) == Unmat(o.m, o.tshape, o.rdims, o.cdims)
SptenmatAsS(o) == \* a sparse matrix [shape=<<nr,nc>>] with (row, col) subscripts
  [shape |-> MatShape(o.tshape, o.rdims, o.cdims), subs |-> o.subs, vals |-> o.vals]

RECURSIVE DenObj(_), ShapeObj(_)
DenObj(o) ==
  CASE o.kind = "dense"   -> AsD(o)
    [] o.kind = "sparse"  -> Den(AsS(o))
    [] o.kind = "ktensor" -> FullK(o)
    [] o.kind = "ttensor" -> FullT(o)
    [] o.kind = "tenmat"  -> TenmatDen(o)
    [] o.kind = "sptenmat" ->
         LET M == Den(SptenmatAsS(o))
             ms == M.shape
         IN  Unmat([r \in 1..ms[1] |-> [c \in 1..ms[2] |-> At(M, <<r - 1, c - 1>>)]],
                   o.tshape, o.rdims, o.cdims)
    [] o.kind = "sum" ->
         LET d == [k \in 1..Len(o.parts) |-> DenObj(o.parts[k])]
         IN  [shape |-> d[1].shape,
              v |-> [c \in 1..Len(d[1].v) |-> SumSeq([k \in 1..Len(d) |-> d[k].v[c]])]]

ShapeObj(o) ==
  CASE o.kind = "dense" -> o.shape
    [] o.kind = "sparse" -> o.shape
    [] o.kind = "ktensor" -> KShape(o)
    [] o.kind = "ttensor" -> TShape(o)
    [] o.kind = "tenmat" -> o.tshape
    [] o.kind = "sptenmat" -> o.tshape
    [] o.kind = "sum" -> ShapeObj(o.parts[1])
NDimsObj(o) == Len(ShapeObj(o))

\* first failing well-formedness clause of an object, or "ok"
WhyWF(o, strict) ==
  CASE o.kind = "dense"  -> IF Len(o.v) = Prod(o.shape) THEN "ok" ELSE "dense-size"
    [] o.kind = "sparse" -> IF strict THEN WFWhy(AsS(o)) ELSE WFWhyNZ(AsS(o))
    [] o.kind = "sptenmat" -> IF strict THEN WFWhy(SptenmatAsS(o)) ELSE WFWhyNZ(SptenmatAsS(o))
    [] o.kind = "ktensor" -> IF WFK(o) THEN "ok" ELSE "ktensor-factor-shape"
    [] o.kind = "ttensor" -> IF WFT(o) THEN "ok" ELSE "ttensor-factor-shape"
    [] OTHER -> "ok"

=============================================================================
