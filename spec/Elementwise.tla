----------------------------- MODULE Elementwise ----------------------------
(***************************************************************************)
(* C03: sparse element-wise arithmetic, logic and comparison match dense   *)
(* semantics at every position, implicit zeros included.  The receiver is  *)
(* a sparse tensor (obj); the right-hand side is a scalar, a dense tensor  *)
(* or a sparse tensor.  Results are compared as dense arrays of Num        *)
(* triples whatever kind (dense / sparse) the implementation returns.      *)
(***************************************************************************)
EXTENDS Objects, Num, TLC

VARIABLE obj

\* denotation of a result whose values are Num triples
DenQ(res) ==
  IF res.kind = "dense" THEN [shape |-> res.shape, v |-> res.v]
  ELSE MkD(res.shape, LAMBDA i :
         IF \E k \in 1..Len(res.subs) : res.subs[k] = i
           THEN res.vals[CHOOSE k \in 1..Len(res.subs) : res.subs[k] = i]
           ELSE Zero)

\* flat integer values of an operand: scalar broadcast, dense, sparse
RhsFlat(rhs, n) ==
  IF rhs.kind = "scalar" THEN [k \in 1..n |-> rhs.val] ELSE DenObj(rhs).v

\* the defined result.  Reflected forms: "rmul" = scalar * S, "rdiv" = scalar / S
BinFn(o, op, rhs) ==
  LET X == DenObj(o)
      Y == RhsFlat(rhs, Len(X.v))
  IN  [shape |-> X.shape,
       v |-> [k \in 1..Len(X.v) |->
               IF op = "rmul" THEN Apply("mul", Y[k], X.v[k])
               ELSE IF op = "rdiv" THEN Apply("div", Y[k], X.v[k])
               ELSE Apply(op, X.v[k], Y[k])]]
UnFn(o, op) ==
  LET X == DenObj(o)
  IN  [shape |-> X.shape, v |-> [k \in 1..Len(X.v) |-> Apply1(op, X.v[k])]]

BinaryOps == {"add", "sub", "mul", "div", "and", "or", "xor", "eq", "ne", "lt", "le", "gt", "ge"}
UnaryOps  == {"not", "neg", "pos", "ones", "elem_neg", "elem_sq", "elem_dec", "elem_inc"}

ResultWhy(res, E) ==
  IF res.kind \notin {"dense", "sparse"} THEN "result-kind"
  ELSE IF res.kind = "sparse" /\ WhyWF(res, FALSE) # "ok" THEN WhyWF(res, FALSE)
  ELSE IF res.kind = "dense" /\ Len(res.v) # Prod(res.shape) THEN "dense-size"
  ELSE IF res.shape # E.shape THEN "shape"
  ELSE IF DenQ(res) # E THEN "value-at-some-position"
  ELSE "ok"

ElemWhy(o, op, rhs, res) ==
  IF o.kind # "sparse" THEN "precondition"
  ELSE IF op \in UnaryOps THEN ResultWhy(res, UnFn(o, op))
  ELSE IF rhs.kind # "scalar" /\ ShapeObj(rhs) # o.shape THEN "precondition"
  ELSE IF op \in {"rmul", "rdiv"} /\ rhs.kind # "scalar" THEN "precondition"
  ELSE ResultWhy(res, BinFn(o, op, rhs))

\* an element-wise operator is a pure function of its operands: the harness reports operands whose arrays differ afterwards
EventWhy(o, ev) == IF ev.ret.kind = "operand-changed" THEN "operand-changed-by-the-call"
                   ELSE ElemWhy(o, ev.op, ev.args.rhs, ev.ret)

\* the action: element-wise operations return a new object and leave the receiver unchanged
Elementwise(op, rhs, res) == ElemWhy(obj, op, rhs, res) = "ok" /\ UNCHANGED obj

=============================================================================
