------------------------------ MODULE CpAls_MC ------------------------------
(* (M) the CP-ALS control skeleton model-checked against an abstract        *)
(* Gauss-Seidel implementation (factor identities = mode * 100 + version)   *)
(* for every mode order and every set of optimised modes; and (G) emission  *)
(* of the configurations to run.  With Jacobi = TRUE the abstract           *)
(* implementation passes a stale factor: the specification must refuse it   *)
(* (sanity check of the specification).                                     *)
EXTENDS CpAls, Json

CONSTANTS NMax, MaxIt, Jacobi

VARIABLES ver
mcvars == <<pc, cfg, cur, pos, lastn, calls, trunc, ver>>

SortedSubLists(n) == {s \in UNION {[1..k -> 0..(n - 1)] : k \in 1..n} : \A i \in 1..(Len(s) - 1) : s[i] < s[i + 1]}
PermsOf(n) == {p \in [1..n -> 0..(n - 1)] : \A i, j \in 1..n : i # j => p[i] # p[j]}
Cfgs == UNION {{[N |-> n, dimorder |-> d, optdims |-> o, maxiters |-> mi, generic |-> TRUE] :
                 d \in PermsOf(n), o \in SortedSubLists(n), mi \in 1..MaxIt} : n \in 2..NMax}

Ids(v, n) == [m \in 1..n |-> m * 100 + v[m]]
GoodObs(p, c) == [iters_reported |-> (p \div Len(Eff(c))) - 1, rank_and_shape_ok |-> TRUE, unit_columns |-> TRUE,
                  weights_nonneg_sorted |-> TRUE, fit_dev |-> 0, res_dev |-> 0, stationarity_dev |-> 0,
                  data_untouched |-> TRUE, init_untouched |-> TRUE, returned_init_is_the_one_used |-> TRUE]

MCInit == Init /\ ver = [m \in 1..NMax |-> 0]
MCStart == \E c \in Cfgs : Start(c, Ids(ver, c.N)) /\ PrintT(ToJson(c)) /\ UNCHANGED ver
MCKernel == /\ pc = "running" /\ pos < cfg.maxiters * Len(Eff(cfg))
            /\ LET n == ModeAt(cfg, pos + 1)
                   \* a Jacobi-style implementation would pass the factor of the previous mode stale
                   seen == IF Jacobi /\ lastn >= 0 /\ pos >= 1
                             THEN [ver EXCEPT ![lastn + 1] = @ - 1] ELSE ver
               IN  /\ Kernel(n, Ids(seen, cfg.N))
                   /\ ver' = [ver EXCEPT ![n + 1] = @ + 1]
MCReturn == /\ pc = "running" /\ pos > 0 /\ pos % Len(Eff(cfg)) = 0
            /\ Return(GoodObs(pos, cfg)) /\ UNCHANGED ver
MCNext == MCStart \/ MCKernel \/ MCReturn
MCSpec == MCInit /\ [][MCNext]_mcvars

\* the abstract implementation is never refused: the contract is implementable for every configuration
NeverStuck == (pc = "running" /\ pos < cfg.maxiters * Len(Eff(cfg))) =>
                 KernelWhy(ModeAt(cfg, pos + 1), Ids(ver, cfg.N)) = "ok"
IterBound == pc # "idle" => pos <= cfg.maxiters * Len(Eff(cfg))
\* modes that are not optimised are never updated; optimised modes are updated once per sweep
NonOptFixed == pc # "idle" => \A m \in 0..(cfg.N - 1) :
                 (\A j \in 1..Len(Eff(cfg)) : Eff(cfg)[j] # m) => ver[m + 1] = 0
SweepFair == (pc # "idle" /\ pos % Len(Eff(cfg)) = 0) =>
               \A j \in 1..Len(Eff(cfg)) : ver[Eff(cfg)[j] + 1] = pos \div Len(Eff(cfg))
\* with Jacobi = TRUE this must be violated (the specification detects a stale factor)
\* (two or more optimised modes: with a single one the "stale" factor is the updated mode's own, which no update reads)
JacobiRefused == ~(Jacobi /\ pc = "running" /\ Len(Eff(cfg)) >= 2 /\ pos >= 2)

=============================================================================
