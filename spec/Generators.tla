----------------------------- MODULE Generators -----------------------------
(***************************************************************************)
(* C20: generators and aggregating constructors build what they advertise. *)
(* Deterministic generators are specified by their value; random ones by   *)
(* contract (shape, well-formedness, number of distinct nonzeros, values   *)
(* = outputs of the supplied function, range, reproducibility).            *)
(***************************************************************************)
EXTENDS Objects, TLC

VARIABLE last

RECURSIVE PowI(_, _), Fact(_)
PowI(b, e) == IF e = 0 THEN 1 ELSE b * PowI(b, e - 1)
Fact(n)    == IF n = 0 THEN 1 ELSE n * Fact(n - 1)
CeilDiv(a, b)  == (a + b - 1) \div b
RECURSIVE Pow2(_)
Pow2(k) == IF k = 0 THEN 1 ELSE 2 * Pow2(k - 1)

\* tendiag / sptendiag: shape max(len(e), s_k) per mode (or len(e)^len(e) without shape)
DiagShape(e, s, hasShape) == IF hasShape THEN [k \in 1..Len(s) |-> Max2(Len(e), s[k])]
                             ELSE [k \in 1..Len(e) |-> Len(e)]
TenDiag(e, s, hasShape) ==
  MkD(DiagShape(e, s, hasShape), LAMBDA i :
        IF (\A m \in 1..Len(i) : i[m] = i[1]) /\ i[1] < Len(e) THEN e[i[1] + 1] ELSE 0)

\* aggregation of duplicate subscripts
GroupVals(subs, vals, i) == SelectSeq([k \in 1..Len(subs) |-> IF subs[k] = i THEN <<TRUE, vals[k]>> ELSE <<FALSE, 0>>],
                                      LAMBDA p : p[1])
Reduce(red, ps) ==
  LET vs == [k \in 1..Len(ps) |-> ps[k][2]]
  IN  CASE red = "sum" -> SumSeq(vs)
        [] red = "max" -> SetMax(Range(vs))
        [] red = "min" -> SetMin(Range(vs))
        [] red = "count2" -> IF Len(vs) = 2 THEN 1 ELSE 0
Agg(subs, vals, shape, red) ==
  MkD(shape, LAMBDA i : IF \E k \in 1..Len(subs) : subs[k] = i THEN Reduce(red, GroupVals(subs, vals, i)) ELSE 0)

\* the identity tensor I of even order m and size n, scaled by m!, is the symmetric tensor with
\*   I x^(m-1) = (x.x)^((m-2)/2) x   for every vector x
EyeVectors(n) == [1..n -> {0 - 1, 0, 1, 2}]
EyeProperty(E, m, n) ==
  \A x \in EyeVectors(n) :
    LET sd == UpTo(1, m - 1)
        y  == Ttv(E, [k \in 1..m |-> x], sd, sd)
        c  == SumSeq([k \in 1..n |-> x[k] * x[k]])
    IN  y.v = [k \in 1..n |-> Fact(m) * PowI(c, (m - 2) \div 2) * x[k]]
Symmetric(E) == \A p \in Perms0(Len(E.shape)) : PermuteD(E, p) = E

\* requested number of distinct nonzeros: an integer count, or a density num/den of the cells
\* (the statement does not fix the rounding of a density: floor and ceiling are both accepted)
CountOk(got, cells, req) ==
  IF req.kind = "count" THEN got = req.n
  ELSE got \in {(cells * req.num) \div req.den, CeilDiv(cells * req.num, req.den)} /\ (got >= 1 \/ cells * req.num < req.den)

\* first failing clause of a generator call, or "ok"
GenWhy(op, a, res) ==
  IF res.st # "ok" THEN res.st
  ELSE CASE op \in {"tenones", "tenzeros"} ->
              IF res.obj.kind # "dense" THEN "result-kind"
              ELSE IF AsD(res.obj) # ConstD(a.shape, IF op = "tenones" THEN 1 ELSE 0) THEN "entries" ELSE "ok"
         [] op = "tendiag" ->
              IF res.obj.kind # "dense" THEN "result-kind"
              ELSE IF res.obj.shape # DiagShape(a.e, a.shape, a.hasShape) THEN "shape"
              ELSE IF AsD(res.obj) # TenDiag(a.e, a.shape, a.hasShape) THEN "entries" ELSE "ok"
         [] op = "sptendiag" ->
              IF res.obj.kind # "sparse" THEN "result-kind"
              ELSE IF WhyWF(res.obj, TRUE) # "ok" THEN WhyWF(res.obj, TRUE)
              ELSE IF res.obj.shape # DiagShape(a.e, a.shape, a.hasShape) THEN "shape"
              ELSE IF DenObj(res.obj) # TenDiag(a.e, a.shape, a.hasShape) THEN "entries" ELSE "ok"
         [] op = "teneye" ->     \* res.obj entries are scaled by m!
              IF res.obj.shape # [k \in 1..a.m |-> a.n] THEN "shape"
              ELSE IF ~Symmetric(AsD(res.obj)) THEN "not-symmetric"
              ELSE IF ~EyeProperty(AsD(res.obj), a.m, a.n) THEN "not-an-identity" ELSE "ok"
         [] op = "from_function_dense" ->   \* the function returned the labels 1..n (flat or shaped)
              IF res.obj.shape # a.shape THEN "shape"
              ELSE IF res.argshape # a.shape THEN "function-argument"
              ELSE IF AsD(res.obj) # LabelD(a.shape) THEN "layout" ELSE "ok"
         [] op = "from_function_ktensor" ->
              IF res.argshapes # [k \in 1..Len(a.shape) |-> <<a.shape[k], a.R>>] THEN "function-argument"
              ELSE IF res.obj.w # [r \in 1..a.R |-> 1] THEN "weights"
              ELSE IF \E k \in 1..Len(a.shape) : ~IsMatrix(res.obj.U[k], a.shape[k], a.R) THEN "factor-shape"
              ELSE IF \E k \in 1..Len(a.shape) : res.obj.U[k] # MkM(a.shape[k], a.R, LAMBDA i, r : 100 * k + (i - 1) + a.shape[k] * (r - 1))
                THEN "factor-values" ELSE "ok"
         [] op = "aggregate" ->
              IF res.obj.kind # "sparse" THEN "result-kind"
              ELSE IF WhyWF(res.obj, TRUE) # "ok" THEN WhyWF(res.obj, TRUE)
              ELSE IF res.obj.shape # a.shape THEN "shape"
              ELSE IF DenObj(res.obj) # Agg(a.subs, a.vals, a.shape, a.red) THEN "entries" ELSE "ok"
         [] op \in {"sptenrand", "from_function_sparse"} ->
              \* res.obj.vals are the labels handed out by the value function (1..k in call order)
              IF res.obj.kind # "sparse" THEN "result-kind"
              ELSE IF WhyWF(res.obj, TRUE) # "ok" THEN WhyWF(res.obj, TRUE)
              ELSE IF res.obj.shape # a.shape THEN "shape"
              ELSE IF ~CountOk(Len(res.obj.subs), Prod(a.shape), a.req) THEN "number-of-nonzeros"
              ELSE IF ~res.values_from_function THEN "values-not-from-function"
              ELSE IF ~res.reproducible THEN "not-reproducible" ELSE "ok"
         [] op = "sptenrand_pow2" ->
              \* a: widths (mode k has 2^widths[k] indices: up to 2^64 cells), dexp (density 2^-dexp), seed.  The number of
              \* cells is never formed here: the requested count is 2^(sum of the widths - dexp) exactly
              IF res.obj.kind # "sparse" THEN "result-kind"
              ELSE IF WhyWF(res.obj, TRUE) # "ok" THEN WhyWF(res.obj, TRUE)
              ELSE IF res.obj.shape # [k \in 1..Len(a.widths) |-> Pow2(a.widths[k])] THEN "shape"
              ELSE IF Len(res.obj.subs) # Pow2(SumSeq(a.widths) - a.dexp) THEN "number-of-nonzeros"
              ELSE IF ~res.reproducible THEN "not-reproducible" ELSE "ok"
         [] op = "tenrand" ->
              IF res.shape # a.shape THEN "shape"
              ELSE IF ~res.in_unit_interval THEN "range"
              ELSE IF ~res.reproducible THEN "not-reproducible" ELSE "ok"

Generate(op, a, res) == GenWhy(op, a, res) = "ok" /\ last' = op

=============================================================================
