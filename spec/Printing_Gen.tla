----------------------------- MODULE Printing_Gen ---------------------------
(* (G)+(M): every initial object of Convert_Gen (all kinds, sparsity patterns, stored orders, mode splits) with the *)
(* document it must print; law: the document determines the denotation.                                           *)
EXTENDS Convert_Gen, Printing
PInit == Init
PNext == /\ Live /\ PrintT(ToJson([obj |-> obj, pres |-> pres, doc |-> Shown(obj)]))
         /\ obj' = [kind |-> "done"] /\ UNCHANGED <<hist, init0, pres>>
PSpec == PInit /\ [][PNext]_vars
FaithfulLaw == Live => Faithful(obj)
=============================================================================
