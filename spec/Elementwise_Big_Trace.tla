----------------------- MODULE Elementwise_Big_Trace -------------------------
EXTENDS Elementwise_Big, Json, IOUtils, TLCExt
VARIABLES tid, l
Traces == ndJsonDeserialize(IOEnv.TRACE_FILE)
ASSUME TLCSet(42, <<>>)
ASSUME TLCSet(43, 0)
Tr == Traces[tid].ev
E  == Tr[l]
EWhy == IF E.op = "big" THEN BigWhy(E.args, E.ret) ELSE "unknown-event"
TInit == tid \in 1..Len(Traces) /\ l = 1 /\ obj = [kind |-> "none"]
TAccept == /\ l <= Len(Tr) /\ E.op = "big" /\ BigCall(E.args, E.ret)
           /\ l' = l + 1 /\ UNCHANGED tid
TReject == /\ l <= Len(Tr) /\ EWhy # "ok"
           /\ TLCSet(42, Append(TLCGet(42), <<tid, l, EWhy>>))
           /\ l' = l + 1 /\ UNCHANGED <<tid, obj>>
TNext == TAccept \/ TReject
TSpec == TInit /\ [][TNext]_<<obj, tid, l>>
Done == (l = Len(Tr) + 1) => TLCSet(43, TLCGet(43) + 1)
Accepted ==
  /\ \A k \in 1..Len(TLCGet(42)) : PrintT(<<"REJECTED", TLCGet(42)[k][1], TLCGet(42)[k][2], TLCGet(42)[k][3]>>)
  /\ PrintT(<<"CONSUMED", TLCGet(43), Len(Traces)>>)
  /\ Len(TLCGet(42)) = 0
  /\ TLCGet(43) = Len(Traces)
=============================================================================
