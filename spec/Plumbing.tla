------------------------------ MODULE Plumbing ------------------------------
(***************************************************************************)
(* X05 (extension): the index plumbing behind matricization and behind     *)
(* sparse region reads / writes.                                           *)
(*                                                                         *)
(*   gather_wrap_dims(n, rdims, cdims, cyclic)                             *)
(*       completes the pair (row modes, column modes) of an unfolding:     *)
(*       a missing side is the ascending complement of the given one; a    *)
(*       single row mode with a cyclic convention orders the columns       *)
(*       "fc" (r+1 .. n-1, 0 .. r-1), "bc" (r-1 .. 0, n-1 .. r+1) or "t"   *)
(*       (the given mode becomes the column, its complement the rows)      *)
(*   tt_renumber(subs, shape, key)                                         *)
(*       subscripts of stored entries inside the region key selects,       *)
(*       renumbered relative to the region, and the region's shape         *)
(*   tt_irenumber(t, shape, key)                                           *)
(*       the inverse: subscripts of a tensor t that is assigned to the     *)
(*       region, in the numbering of the destination                        *)
(*                                                                         *)
(* Modes and subscripts are counted from 0 as in the code.  A key item is  *)
(*   [k |-> "all"] | [k |-> "int", v] | [k |-> "slice", a, b, s] |         *)
(*   [k |-> "list", v]   (v a duplicate-free sequence)                     *)
(* An optional mode list is [given |-> FALSE] or [given |-> TRUE, v].      *)
(***************************************************************************)
EXTENDS Naturals, Integers, Sequences, FiniteSets, TLC

VARIABLE last

Up(a, b)   == [k \in 1..(IF b >= a THEN b - a + 1 ELSE 0) |-> a + k - 1]
Down(a, b) == [k \in 1..(IF a >= b THEN a - b + 1 ELSE 0) |-> a - k + 1]
SetOf(s)   == {s[k] : k \in DOMAIN s}
RECURSIVE AscOf(_)
AscOf(S)   == IF S = {} THEN <<>> ELSE LET m == CHOOSE x \in S : \A y \in S : x <= y IN <<m>> \o AscOf(S \ {m})
Compl(n, s) == AscOf((0..(n - 1)) \ SetOf(s))
Min2(a, b) == IF a < b THEN a ELSE b

---------------------------------------------------------------------------
WrapDims(a) ==
  IF a.r.given /\ ~a.c.given THEN
       IF Len(a.r.v) = 1 /\ a.cyc # "none" THEN
            LET r == a.r.v[1] IN
            CASE a.cyc = "t"  -> [st |-> "ok", r |-> Compl(a.n, a.r.v), c |-> a.r.v]
              [] a.cyc = "fc" -> [st |-> "ok", r |-> a.r.v, c |-> Up(r + 1, a.n - 1) \o Up(0, r - 1)]
              [] a.cyc = "bc" -> [st |-> "ok", r |-> a.r.v, c |-> Down(r - 1, 0) \o Down(a.n - 1, r + 1)]
              [] OTHER        -> [st |-> "rejected"]
       ELSE [st |-> "ok", r |-> a.r.v, c |-> Compl(a.n, a.r.v)]
  ELSE IF ~a.r.given /\ a.c.given THEN [st |-> "ok", r |-> Compl(a.n, a.c.v), c |-> a.c.v]
  ELSE IF ~a.r.given THEN [st |-> "rejected"]
  ELSE [st |-> "ok", r |-> a.r.v, c |-> a.c.v]

\* the completed pair is an ordered partition of the modes
IsPartition(n, r, c) == /\ SetOf(r) \cup SetOf(c) = 0..(n - 1)
                        /\ Len(r) + Len(c) = n

---------------------------------------------------------------------------
\* the indices of a mode of length d that a key item selects, in the order of the region
Sel(d, k) ==
  CASE k.k = "all"   -> Up(0, d - 1)
    [] k.k = "int"   -> <<k.v>>
    [] k.k = "slice" -> LET hi == Min2(k.b, d)
                            cnt == IF hi > k.a THEN ((hi - k.a - 1) \div k.s) + 1 ELSE 0
                        IN [j \in 1..cnt |-> k.a + (j - 1) * k.s]
    [] k.k = "list"  -> k.v
PosIn(s, x) == (CHOOSE j \in DOMAIN s : s[j] = x) - 1
InRegion(shape, key, row) == \A i \in DOMAIN shape : row[i] \in SetOf(Sel(shape[i], key[i]))

RenumberRow(shape, key, row) ==
  [i \in DOMAIN shape |-> IF key[i].k = "all" THEN row[i] ELSE PosIn(Sel(shape[i], key[i]), row[i])]
\* region shape; a mode selected by a single integer is removed by the caller, its entry is not constrained (-1 here)
RegionShape(shape, key) ==
  [i \in DOMAIN shape |-> IF key[i].k = "int" THEN 0 - 1 ELSE Len(Sel(shape[i], key[i]))]
Renumber(a) == [st |-> "ok", subs |-> [r \in DOMAIN a.subs |-> RenumberRow(a.shape, a.key, a.subs[r])],
                shape |-> RegionShape(a.shape, a.key)]

\* modes that survive (not selected by a single integer), and a row restricted to them
Kept(key)      == SelectSeq(Up(1, Len(key)), LAMBDA i : key[i].k # "int")
DropRow(key, row) == [j \in DOMAIN Kept(key) |-> row[Kept(key)[j]]]
RankOf(key, i) == Cardinality({j \in 1..i : key[j].k # "int"})

IRenumberRow(shape, key, trow) ==
  [i \in DOMAIN shape |->
     LET k == key[i] IN
     CASE k.k = "int"   -> k.v
       [] k.k = "all"   -> trow[RankOf(key, i)]
       [] k.k = "slice" -> k.a + k.s * trow[RankOf(key, i)]
       [] k.k = "list"  -> k.v[trow[RankOf(key, i)] + 1]]
IRenumber(a) == [st |-> "ok", subs |-> [r \in DOMAIN a.tsubs |-> IRenumberRow(a.shape, a.key, a.tsubs[r])]]

---------------------------------------------------------------------------
\* to_memory_order(array, order, copy): the same values in the requested memory order.  The state is the LAYOUT of the
\* operand: created "C" (last index fastest), "F" (first index fastest) or "strided" (every second slice of a C-ordered
\* array along the first dimension).  numpy ignores dimensions of length one when it decides whether an array already
\* is in an order; an array that is in the order is handed back as it is unless a copy is requested.
Big(dims)  == Cardinality({i \in DOMAIN dims : dims[i] > 1})
Contig(dims, layout, order) ==
  CASE layout = "strided" -> dims[1] <= 1 /\ (order = "C" \/ Big(dims) <= 1)
    [] layout = order     -> TRUE
    [] OTHER              -> Big(dims) <= 1
MemOrder(a) == [st |-> "ok", shares |-> (~a.copy /\ Contig(a.dims, a.layout, a.order))]

Expected(op, a) ==
  CASE op = "memorder" -> MemOrder(a)
    [] op = "wrap" -> WrapDims(a)
    [] op = "renumber" -> Renumber(a)
    [] op = "irenumber" -> IRenumber(a)

ShapeAgrees(key, got, want) == \A i \in DOMAIN want : key[i].k = "int" \/ got[i] = want[i]

PlumbWhy(op, a, res) ==
  LET e == Expected(op, a) IN
  IF res.st \notin {"ok", "rejected"} THEN res.st
  ELSE IF res.st # e.st THEN (IF e.st = "ok" THEN "well-formed-request-refused" ELSE "ill-formed-request-answered")
  ELSE IF e.st = "rejected" THEN "ok"
  ELSE CASE op = "memorder" -> IF ~res.same_values THEN "values" ELSE IF ~res.in_order THEN "not-in-requested-order"
                               ELSE IF a.copy /\ res.shares THEN "copy-shares-storage"
                               ELSE IF res.shares # e.shares THEN "needless-copy-or-unexpected-sharing"
                               ELSE IF ~res.operand_kept THEN "operand-modified" ELSE "ok"
         [] op = "wrap" -> IF res.r # e.r THEN "row-modes" ELSE IF res.c # e.c THEN "column-modes"
                           ELSE IF ~res.ints THEN "modes-not-integers" ELSE "ok"
         [] op = "renumber" -> IF Len(res.shape) # Len(e.shape) THEN "region-order"
                               ELSE IF ~ShapeAgrees(a.key, res.shape, e.shape) THEN "region-shape"
                               ELSE IF res.subs # e.subs THEN "region-subscripts"
                               ELSE IF ~res.operand_kept THEN "operand-modified" ELSE "ok"
         [] op = "irenumber" -> IF res.subs # e.subs THEN "destination-subscripts"
                                ELSE IF ~res.operand_kept THEN "operand-modified" ELSE "ok"

Call(op, a, res) == PlumbWhy(op, a, res) = "ok" /\ last' = op
=============================================================================
