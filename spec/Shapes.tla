------------------------------- MODULE Shapes -------------------------------
(***************************************************************************)
(* Shapes, subscripts, F-order (first index fastest) linearisation, mode   *)
(* permutations, mode selections.  Conventions: API-level values are the   *)
(* ones pyttb uses (0-based subscripts, 0-based mode numbers, 0-based      *)
(* linear indices) stored in ordinary 1-based TLA+ sequences.              *)
(***************************************************************************)
EXTENDS Naturals, Integers, Sequences, FiniteSets

RECURSIVE Prod(_), Unlin(_, _), Lin(_, _), SumSeq(_)

Prod(s)     == IF s = <<>> THEN 1 ELSE Head(s) * Prod(Tail(s))
SumSeq(s)   == IF s = <<>> THEN 0 ELSE Head(s) + SumSeq(Tail(s))

\* 0-based linear index k  ->  0-based subscript tuple, first index fastest
Unlin(s, k) == IF s = <<>> THEN <<>>
               ELSE <<k % Head(s)>> \o Unlin(Tail(s), k \div Head(s))
\* 0-based subscript tuple -> 0-based linear index
Lin(s, i)   == IF s = <<>> THEN 0
               ELSE Head(i) + Head(s) * Lin(Tail(s), Tail(i))

InShape(s, i) == /\ Len(i) = Len(s)
                 /\ \A m \in 1..Len(s) : i[m] \in 0..(s[m]-1)

Idx(s)      == {Unlin(s, k) : k \in 0..(Prod(s)-1)}

\* sequence utilities
Range(f)    == {f[x] : x \in DOMAIN f}
IsInj(f)    == \A a, b \in DOMAIN f : a # b => f[a] # f[b]
SelectIdx(seq, ix) == [k \in 1..Len(ix) |-> seq[ix[k]]]      \* ix: 1-based positions
Min2(a, b)  == IF a <= b THEN a ELSE b
Max2(a, b)  == IF a >= b THEN a ELSE b
SetMax(S)   == CHOOSE x \in S : \A y \in S : y <= x
SetMin(S)   == CHOOSE x \in S : \A y \in S : y >= x

RevSeq(s)   == [k \in 1..Len(s) |-> s[Len(s) + 1 - k]]

\* sorted sequence of a finite set of integers
RECURSIVE SortSet(_)
SortSet(S)  == IF S = {} THEN <<>>
               ELSE LET m == SetMin(S) IN <<m>> \o SortSet(S \ {m})

\* all bijections of 1..n, as sequences (1-based values)
Perms1(n)   == {p \in [1..n -> 1..n] : IsInj(p)}
\* 0-based mode orders as pyttb takes them: sequences over 0..n-1
Perms0(n)   == {[k \in 1..n |-> p[k] - 1] : p \in Perms1(n)}
IsPerm0(p, n) == /\ Len(p) = n
                 /\ \A k \in 1..n : p[k] \in 0..(n-1)
                 /\ IsInj(p)
\* inverse of a 0-based order:  Inv0(p)[p[k]+1] = k-1
Inv0(p)     == [m \in 1..Len(p) |-> (CHOOSE k \in 1..Len(p) : p[k] = m - 1) - 1]
IdPerm0(n)  == [k \in 1..n |-> k - 1]

\* shape after permuting modes by the 0-based order p:  new[k] = s[p[k]]
PermShape(s, p) == [k \in 1..Len(s) |-> s[p[k] + 1]]
\* subscript i of the permuted tensor -> subscript of the source tensor
\*   Y[i] = X[j]  with  j[p[k]] = i[k]
PermSrc(i, p)   == LET ip == Inv0(p) IN [m \in 1..Len(i) |-> i[ip[m] + 1]]

\* all subsequences of 0..n-1 as sorted sequences (mode subsets)
ModeSets(n)     == {SortSet(S) : S \in SUBSET (0..(n-1))}
\* all injective sequences over 0..n-1 of length len
InjSeqs(n, len) == {q \in [1..len -> 0..(n-1)] : IsInj(q)}
\* remaining modes in increasing order
RestModes(n, sel) == SortSet((0..(n-1)) \ Range(sel))

\* sub-shape / sub-subscript for a 0-based mode list
Sub(s, modes)   == [k \in 1..Len(modes) |-> s[modes[k] + 1]]

\* all ordered factorizations of n into exactly k factors >= 1
RECURSIVE Factorizations(_, _)
Factorizations(n, k) ==
  IF k = 0 THEN (IF n = 1 THEN {<<>>} ELSE {})
  ELSE UNION {{<<d>> \o t : t \in Factorizations(n \div d, k - 1)} :
               d \in {d \in 1..n : n % d = 0}}

=============================================================================
