--------------------------- MODULE IndexMaps_Wide ---------------------------
(***************************************************************************)
(* (G) IndexMaps on shapes whose reshaped modes are LONGER than any mode   *)
(* of the operand (and longer than a narrow subscript type can hold): a    *)
(* few sparse tensors over ShapeC, reshaped as a whole or on a list of     *)
(* modes to each target of TargetsC and back.  The expected results are    *)
(* the same ReshapeFn / PermuteFn the small-shape generator uses.          *)
(***************************************************************************)
EXTENDS IndexMaps, Json, TLC

CONSTANTS ShapeC,      \* e.g. <<16, 10>>
          CellSetsC,   \* set of sets of 1-based cells that hold entries
          TargetsC     \* set of target shapes with the same number of cells

VARIABLES hist, init0
vars == <<obj, hist, init0>>

SparseInits ==
  UNION {LET S == ToSparse(MaskedLabelD(ShapeC, cells))
             n == Len(S.subs)
         IN  {SparseObj(Reorder(S, pi)) : pi \in OrdersFew(n)} : cells \in CellSetsC}

Ev(op, args, res) == [op |-> op, args |-> args, ret |-> res]

Init == /\ obj \in SparseInits \cup {DenseObj(MaskedLabelD(ShapeC, cells)) : cells \in CellSetsC}
        /\ init0 = obj
        /\ hist = <<>>

\* there ...
GThere == /\ hist = <<>>
          /\ \E t \in TargetsC :
               LET old == AllModes(obj)
                   res == ReshapeFn(obj, t, old)
               IN  Reshape(t, old, res)
                   /\ hist' = Append(hist, Ev("reshape", [shape |-> t, old |-> old, all |-> TRUE], res))

\* ... and back to the original shape (the round trip is the identity: checked as RoundTripWide)
GBack == /\ Len(hist) = 1
         /\ LET old == AllModes(obj)
                res == ReshapeFn(obj, ShapeC, old)
            IN  Reshape(ShapeC, old, res)
                /\ hist' = Append(hist, Ev("reshape", [shape |-> ShapeC, old |-> old, all |-> TRUE], res))

\* a permutation of the wide result
GPerm == /\ Len(hist) = 2
         /\ \E p \in Perms0(NDimsObj(obj)) :
              LET res == PermuteFn(obj, p)
              IN  Permute(p, res) /\ hist' = Append(hist, Ev("permute", [order |-> p], res))

Finish == /\ obj.kind # "done"
          /\ Len(hist) = 3
          /\ PrintT(ToJson([init |-> init0, ev |-> hist]))
          /\ obj' = [kind |-> "done"]
          /\ UNCHANGED hist

Next == /\ (GThere \/ GBack \/ GPerm \/ Finish)
        /\ UNCHANGED init0

Spec == Init /\ [][Next]_vars

RoundTripWide == (Len(hist) >= 2 /\ obj.kind # "done" /\ Len(hist) = 2) => DenObj(obj) = DenObj(init0)
LastOkWide == hist = <<>> \/ obj.kind = "done" \/ WhyWF(obj, TRUE) = "ok"

=============================================================================
