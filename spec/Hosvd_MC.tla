------------------------------- MODULE Hosvd_MC -----------------------------
(* (M)+(G): the exact HOSVD state machine explored for every tensor of the  *)
(* exact class in scope, every rational tolerance of a grid, both           *)
(* truncation strategies and every mode order; invariant: the discarded     *)
(* energy never exceeds tol^2 ||X||^2 (the design of the error bound).      *)
EXTENDS Hosvd, Json

CONSTANTS ShapeC, Seq_, Tols      \* Seq_: sequential truncation; Tols: set of <<tn, td>>

VARIABLES X0, tol, order, result, discarded
mcvars == <<Y, todo, kept, X0, tol, order, result, discarded>>

N0 == Len(ShapeC)
AllSubs == {s \in [1..N0 -> 0..2] : \A m \in 1..N0 : s[m] < ShapeC[m]}
TwoApart(a, b) == Cardinality({m \in 1..N0 : a[m] # b[m]}) >= 2
\* supports: sets of 2..4 subscripts pairwise differing in >= 2 coordinates; weights by position
Supports == {S \in SUBSET AllSubs : Cardinality(S) \in 2..4 /\ \A a, b \in S : a # b => TwoApart(a, b)}
RECURSIVE Weigh(_, _)
Weigh(S, w) == IF S = {} THEN {} ELSE LET s == CHOOSE s \in S : TRUE IN {[sub |-> s, w |-> w]} \cup Weigh(S \ {s}, w + 1)
Tensors == {Weigh(S, 1) : S \in Supports}
PermsOf(n) == {p \in [1..n -> 0..(n - 1)] : \A i, j \in 1..n : i # j => p[i] # p[j]}

RECURSIVE SetSeq(_)
SetSeq(S) == IF S = {} THEN <<>> ELSE LET x == CHOOSE x \in S : TRUE IN <<x>> \o SetSeq(S \ {x})
MCInit == /\ X0 \in {T \in Tensors : \A k \in 0..(N0 - 1) : NoTies(T, k, ShapeC[k + 1])}
          /\ tol \in Tols /\ order \in PermsOf(N0)
          /\ Y = X0 /\ todo = order /\ kept = [k \in 1..N0 |-> <<>>] /\ result = <<>> /\ discarded = 0

Step == /\ todo # <<>>
        /\ LET k == Head(todo)
               src == IF Seq_ THEN Y ELSE X0
               keep == ModeResult(src, k, ShapeC[k + 1], 0, tol[1], tol[2], N0, SumW2(X0))
               Ynew == {e \in Y : \E j \in 1..Len(keep) : keep[j] = e.sub[k + 1]}
           IN  /\ kept' = [kept EXCEPT ![k + 1] = keep]
               /\ Y' = Ynew
               /\ discarded' = discarded + (SumW2(Y) - SumW2(Ynew))
               /\ todo' = Tail(todo)
        /\ UNCHANGED <<X0, tol, order, result>>
Finish == /\ todo = <<>> /\ result = <<>>
          /\ result' = <<"done">>
          /\ PrintT(ToJson([shape |-> ShapeC, entries |-> SetSeq(X0), tn |-> tol[1], td |-> tol[2], seq |-> Seq_,
                            order |-> order, kept |-> kept]))
          /\ UNCHANGED <<Y, todo, kept, X0, tol, order, discarded>>
MCNext == Step \/ Finish
MCSpec == MCInit /\ [][MCNext]_mcvars

\* the error bound by design: total discarded energy <= tol^2 ||X||^2
ErrBound == discarded * tol[2] * tol[2] <= tol[1] * tol[1] * SumW2(X0)
\* the remaining tensor keeps all the energy that was not discarded
EnergySplit == SumW2(Y) + discarded = SumW2(X0)
RanksOk == \A k \in 1..N0 : Len(kept[k]) <= ShapeC[k]

=============================================================================
