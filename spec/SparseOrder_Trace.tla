-------------------------- MODULE SparseOrder_Trace -------------------------
(* (V) trace validation for SparseOrder (batched).                          *)
EXTENDS SparseOrder, Json, IOUtils, TLCExt

VARIABLES tid, l

Traces == ndJsonDeserialize(IOEnv.TRACE_FILE)
ASSUME TLCSet(42, <<>>)
ASSUME TLCSet(43, 0)

Tr == Traces[tid].ev
E  == Tr[l]

TInit == tid \in 1..Len(Traces) /\ l = 1 /\ last = [op |-> "none", n |-> 0]

TAccept == /\ l <= Len(Tr)
           /\ Observe(E.op, E.args.orders, E.ret.rets)
           /\ l' = l + 1 /\ UNCHANGED tid

TReject == /\ l <= Len(Tr)
           /\ EventWhy(E) # "ok"
           /\ TLCSet(42, Append(TLCGet(42), <<tid, l, EventWhy(E)>>))
           /\ l' = l + 1 /\ UNCHANGED <<tid, last>>

TNext == TAccept \/ TReject
TSpec == TInit /\ [][TNext]_<<last, tid, l>>

Done == (l = Len(Tr) + 1) => TLCSet(43, TLCGet(43) + 1)

Accepted ==
  /\ \A k \in 1..Len(TLCGet(42)) :
        PrintT(<<"REJECTED", TLCGet(42)[k][1], TLCGet(42)[k][2], TLCGet(42)[k][3]>>)
  /\ PrintT(<<"CONSUMED", TLCGet(43), Len(Traces)>>)
  /\ Len(TLCGet(42)) = 0
  /\ TLCGet(43) = Len(Traces)

=============================================================================
