---------------------------- MODULE Plumbing_Gen ----------------------------
(* (M)+(G) for Plumbing: every completion of row / column modes for up to four modes, every region key of a small
   alphabet on three shapes with the stored entries of the region in three orders *)
EXTENDS Plumbing, Json, SequencesExt
VARIABLES stim, done
vars == <<last, stim, done>>

\* duplicate-free sequences over 0..n-1
Inj(n) == UNION {{s \in [1..k -> 0..(n - 1)] : \A i, j \in 1..k : i # j => s[i] # s[j]} : k \in 0..n}
None == [given |-> FALSE]
Some(s) == [given |-> TRUE, v |-> s]
Wraps(n) ==
  {[n |-> n, r |-> Some(r), c |-> None, cyc |-> y] : r \in Inj(n), y \in {"none", "fc", "bc", "t"}}
  \cup {[n |-> n, r |-> None, c |-> Some(c), cyc |-> "none"] : c \in Inj(n)}
  \cup UNION {{[n |-> n, r |-> Some(r), c |-> Some(c), cyc |-> y] :
                 c \in {x \in Inj(n) : SetOf(x) = (0..(n - 1)) \ SetOf(r) /\ Len(x) + Len(r) = n}, y \in {"none", "fc"}} : r \in Inj(n)}
  \cup {[n |-> n, r |-> None, c |-> None, cyc |-> "none"]}

KeyItems(d) ==
  {[k |-> "all"], [k |-> "int", v |-> 0], [k |-> "int", v |-> d - 1], [k |-> "list", v |-> <<d - 1>>],
   [k |-> "slice", a |-> 0, b |-> d, s |-> 2], [k |-> "slice", a |-> 0, b |-> d + 1, s |-> 1]}
  \cup (IF d >= 2 THEN {[k |-> "slice", a |-> 1, b |-> d, s |-> 1], [k |-> "list", v |-> <<d - 1, 0>>],
                        [k |-> "slice", a |-> 0, b |-> d - 1, s |-> 1]} ELSE {})
  \cup (IF d >= 3 THEN {[k |-> "list", v |-> <<1, 2, 0>>], [k |-> "slice", a |-> 1, b |-> d, s |-> 2]} ELSE {})
Shapes == {<<3>>, <<2, 3>>, <<3, 1, 2>>}
Keys(shape) == {key \in [DOMAIN shape -> UNION {KeyItems(shape[i]) : i \in DOMAIN shape}] :
                  \A i \in DOMAIN shape : key[i] \in KeyItems(shape[i])}
Cells(shape) == {row \in [DOMAIN shape -> 0..3] : \A i \in DOMAIN shape : row[i] < shape[i]}
RegionRows(shape, key) == {row \in Cells(shape) : InRegion(shape, key, row)}
Orders(S) == LET q == SetToSeq(S) IN {q, Reverse(q), <<>>} \cup (IF Len(q) >= 3 THEN {<<q[2], q[Len(q)], q[1]>>} ELSE {})

Renumbers == UNION {UNION {{[shape |-> sh, key |-> key, subs |-> q] : q \in Orders(RegionRows(sh, key))} : key \in Keys(sh)} : sh \in Shapes}
\* the assigned tensor holds entries at the renumbered positions of the region (modes selected by an integer removed)
IRenumbers == {[shape |-> x.shape, key |-> x.key,
                tsubs |-> [r \in DOMAIN x.subs |-> DropRow(x.key, RenumberRow(x.shape, x.key, x.subs[r]))],
                tshape |-> [j \in DOMAIN Kept(x.key) |-> RegionShape(x.shape, x.key)[Kept(x.key)[j]]]] :
                 x \in {y \in Renumbers : Kept(y.key) # <<>>}}

MemOrders == {[dims |-> d, layout |-> y, order |-> o, copy |-> c] :
                d \in {<<3>>, <<1>>, <<2, 3>>, <<1, 3>>, <<3, 1>>, <<2, 1, 2>>, <<1, 1, 3>>, <<2, 2, 2>>, <<1, 2, 2>>},
                y \in {"C", "F", "strided"}, o \in {"F", "C"}, c \in BOOLEAN}
Stimuli == {[op |-> "wrap", a |-> a] : a \in UNION {Wraps(n) : n \in 1..4}}
           \cup {[op |-> "memorder", a |-> a] : a \in MemOrders}
           \cup {[op |-> "renumber", a |-> a] : a \in Renumbers}
           \cup {[op |-> "irenumber", a |-> a] : a \in IRenumbers}

Init == stim \in Stimuli /\ last = "none" /\ done = FALSE
Emit == /\ ~done
        /\ PrintT(ToJson([op |-> stim.op, a |-> stim.a, ret |-> Expected(stim.op, stim.a)]))
        /\ done' = TRUE /\ UNCHANGED <<stim, last>>
Next == Emit
Spec == Init /\ [][Next]_vars

\* (M) laws
\* whenever the given sides are duplicate free, the completed pair is an ordered partition of the modes
WrapIsPartition == (stim.op = "wrap" /\ WrapDims(stim.a).st = "ok") =>
                     IsPartition(stim.a.n, WrapDims(stim.a).r, WrapDims(stim.a).c)
\* the cyclic conventions list every other mode exactly once and differ only in the order of the columns
CyclicSameModes == (stim.op = "wrap" /\ stim.a.cyc \in {"fc", "bc"} /\ stim.a.r.given /\ ~stim.a.c.given) =>
                     SetOf(WrapDims(stim.a).c) = SetOf(WrapDims([stim.a EXCEPT !.cyc = "none"]).c)
\* "t" is the transposed unfolding of the single-mode one
TransposeSwaps == (stim.op = "wrap" /\ stim.a.cyc = "t" /\ stim.a.r.given /\ ~stim.a.c.given /\ Len(stim.a.r.v) = 1) =>
                     /\ WrapDims(stim.a).c = WrapDims([stim.a EXCEPT !.cyc = "none"]).r
                     /\ WrapDims(stim.a).r = WrapDims([stim.a EXCEPT !.cyc = "none"]).c
\* renumbered subscripts lie inside the region shape and distinct entries stay distinct
RenumberInside == (stim.op = "renumber") =>
                    LET e == Renumber(stim.a) IN
                    /\ \A r \in DOMAIN e.subs : \A i \in DOMAIN e.shape :
                          IF stim.a.key[i].k = "int" THEN e.subs[r][i] = 0 ELSE e.subs[r][i] \in 0..(e.shape[i] - 1)
                    /\ \A r, q \in DOMAIN e.subs : e.subs[r] = e.subs[q] => stim.a.subs[r] = stim.a.subs[q]
\* writing back what was read addresses the same cells: irenumber inverts renumber
InverseLaw == (stim.op = "renumber") =>
                 \A r \in DOMAIN stim.a.subs :
                    IRenumberRow(stim.a.shape, stim.a.key, DropRow(stim.a.key, RenumberRow(stim.a.shape, stim.a.key, stim.a.subs[r])))
                      = stim.a.subs[r]
\* a requested copy never shares; an array created in the requested order is handed back as it is when no copy is asked for
MemOrderLaw == (stim.op = "memorder") =>
                 /\ (stim.a.copy => ~MemOrder(stim.a).shares)
                 /\ ((~stim.a.copy /\ stim.a.layout = stim.a.order) => MemOrder(stim.a).shares)
=============================================================================
