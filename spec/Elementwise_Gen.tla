--------------------------- MODULE Elementwise_Gen --------------------------
(* (M)+(G) configuration of Elementwise: all pairs of sparsity patterns of  *)
(* the two operands for one shape, several value schemes, one operation     *)
(* family per shard.                                                        *)
EXTENDS Elementwise, Json

CONSTANTS ShapeC,
          OpsC,        \* set of operations of this shard
          AllOrders,   \* TRUE: every stored order for <= 3 nonzeros, a few beyond
          SchemesL,    \* subset of {"A","B"}: value schemes of the receiver
          SchemesR     \* value schemes of the right-hand operand

VARIABLES stim, done
vars == <<obj, stim, done>>

NC == Prod(ShapeC)

\* value schemes: A is positive and distinct; B differs from A in every cell, with both signs
ValA(k) == k
ValB(k) == IF k % 2 = 1 THEN 0 - k ELSE k + 1
ValOf(sch, k) == IF sch = "A" THEN ValA(k) ELSE ValB(k)
Content(cells, sch) == [shape |-> ShapeC, v |-> [k \in 1..NC |-> IF k \in cells THEN ValOf(sch, k) ELSE 0]]

\* stored orders: all for <= 3 entries (or when AllOrders and <= 4), else one picked by the pattern
PickOrder(n, cells) ==
  LET h == SumSeq([k \in 1..NC |-> IF k \in cells THEN k ELSE 0]) % 3
  IN  IF h = 0 THEN [j \in 1..n |-> j]
      ELSE IF h = 1 THEN [j \in 1..n |-> n + 1 - j]
      ELSE [j \in 1..n |-> (j % n) + 1]
SparseOf(cells, sch) ==
  LET S == ToSparse(Content(cells, sch))
      n == Len(S.subs)
      ords == IF AllOrders /\ n <= 3 THEN OrdersAll(n)
              ELSE IF AllOrders THEN OrdersFew(n) ELSE {PickOrder(n, cells)}
  IN  {SparseObj(Reorder(S, pi)) : pi \in ords}

Cells == SUBSET (1..NC)
Receivers == UNION {SparseOf(c, s) : c \in Cells, s \in SchemesL}
Scalars == {ScalarObj(0 - 2), ScalarObj(0), ScalarObj(3)}
Rhss(o) ==
  Scalars
  \cup {DenseObj(Content(c, s)) : c \in Cells, s \in SchemesR}
  \* the right-hand sparse operand uses the opposite rotation so that common subscripts are
  \* frequently stored in a different relative order than in the receiver
  \cup UNION {SparseOf(c, s) : c \in Cells, s \in SchemesR}

Calls(o) ==
  {[op |-> op, args |-> [rhs |-> r]] : op \in OpsC \cap BinaryOps, r \in Rhss(o)}
  \cup {[op |-> op, args |-> [rhs |-> r]] : op \in OpsC \cap {"rmul", "rdiv"}, r \in Scalars}
  \cup {[op |-> op, args |-> [rhs |-> ScalarObj(0)]] : op \in OpsC \cap UnaryOps}

Init == /\ obj \in Receivers
        /\ stim \in Calls(obj)
        /\ done = FALSE

Canon(o, op, rhs) == DenseObj(IF op \in UnaryOps THEN UnFn(o, op) ELSE BinFn(o, op, rhs))

DoCall == /\ ~done
          /\ LET res == Canon(obj, stim.op, stim.args.rhs)
             IN  /\ Elementwise(stim.op, stim.args.rhs, res)
                 /\ PrintT(ToJson([init |-> obj,
                                   ev |-> <<[op |-> stim.op, args |-> stim.args, ret |-> res]>>]))
          /\ done' = TRUE
          /\ UNCHANGED stim

Next == DoCall
Spec == Init /\ [][Next]_vars

---------------------------------------------------------------------------
\* (M) laws of the value domain and of the defined results

CanonicalOk == ElemWhy(obj, stim.op, stim.args.rhs, Canon(obj, stim.op, stim.args.rhs)) = "ok"

\* x/0 is a signed infinity, 0/0 is nan, a comparison that holds for zero marks every jointly
\* empty position, de Morgan, sub = add of the negation, exactly one of < = > holds
DomainLaws ==
  \A x, y \in (0 - 3)..3 :
    /\ Apply("div", x, 0) = (IF x = 0 THEN NaN ELSE IF x > 0 THEN PInf ELSE NInf)
    /\ (y # 0 => Apply("div", x * y, y) = Q(x))
    /\ Apply("sub", x, y) = Apply("add", x, 0 - y)
    /\ Apply("xor", x, y) = B(Apply("or", x, y) = One /\ Apply("and", x, y) = Zero)
    /\ Apply("ne", x, y) = B(Apply("eq", x, y) = Zero)
    /\ Apply("le", x, y) = B(Apply("gt", x, y) = Zero)
    /\ Apply("ge", x, y) = B(Apply("lt", x, y) = Zero)
    /\ (Apply("lt", x, y) = One) # (Apply("ge", x, y) = One)
    /\ Apply("le", 0, 0) = One /\ Apply("ge", 0, 0) = One /\ Apply("eq", 0, 0) = One
    /\ Apply1("not", x) = B(Apply("eq", x, 0) = One)

=============================================================================
