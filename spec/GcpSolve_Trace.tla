---------------------------- MODULE GcpSolve_Trace --------------------------
EXTENDS GcpSolve, Json, IOUtils, TLCExt
VARIABLES tid, l
Traces == ndJsonDeserialize(IOEnv.TRACE_FILE)
ASSUME TLCSet(42, <<>>)
ASSUME TLCSet(43, 0)
Tr == Traces[tid].ev
E  == Tr[l]
EWhy == CASE E.op = "start"  -> StartWhy(E.args.cfg, E.args.f0)
          [] E.op = "grad"   -> GradWhy
          [] E.op = "epoch"  -> EpochWhy(E.args.f, E.args.below)
          [] E.op = "return" -> ReturnWhy(E.ret)
          [] E.op = "lbfgsb" -> LbfgsbWhy(E.ret)
          [] E.op = "plain"  -> PlainWhy(E.ret)
          [] OTHER -> "unknown-event"
TInit == tid \in 1..Len(Traces) /\ l = 1 /\ Init
TAccept == /\ l <= Len(Tr)
           /\ \/ E.op = "start" /\ Start(E.args.cfg, E.args.f0)
              \/ E.op = "grad" /\ Grad
              \/ E.op = "epoch" /\ Epoch(E.args.f, E.args.below)
              \/ E.op = "return" /\ Return(E.ret)
              \/ E.op = "lbfgsb" /\ LbfgsbWhy(E.ret) = "ok" /\ UNCHANGED vars
              \/ E.op = "plain" /\ PlainWhy(E.ret) = "ok" /\ UNCHANGED vars
           /\ l' = l + 1 /\ UNCHANGED tid
\* a rejected event is reported; the run is then resynchronised: a rejected return still ends the solve
TReject == /\ l <= Len(Tr) /\ EWhy # "ok"
           /\ TLCSet(42, Append(TLCGet(42), <<tid, l, EWhy>>))
           /\ IF E.op = "return" THEN pc' = "idle" /\ solves' = solves + 1 /\ UNCHANGED <<cfg, epochs, giters, nfails, fbest, trace, steps, ostate>>
              ELSE UNCHANGED vars
           /\ l' = l + 1 /\ UNCHANGED tid
TNext == TAccept \/ TReject
TSpec == TInit /\ [][TNext]_<<vars, tid, l>>
Done == (l = Len(Tr) + 1) => TLCSet(43, TLCGet(43) + 1)
Accepted ==
  /\ \A k \in 1..Len(TLCGet(42)) : PrintT(<<"REJECTED", TLCGet(42)[k][1], TLCGet(42)[k][2], TLCGet(42)[k][3]>>)
  /\ PrintT(<<"CONSUMED", TLCGet(43), Len(Traces)>>)
  /\ Len(TLCGet(42)) = 0
=============================================================================
