--------------------------- MODULE Helpers_Trace ----------------------------
(* (V) trace validation for Helpers (batched; see IndexMaps_Trace).         *)
EXTENDS Helpers, Json, IOUtils, TLCExt

VARIABLES tid, l

Traces == ndJsonDeserialize(IOEnv.TRACE_FILE)
ASSUME TLCSet(42, <<>>)
ASSUME TLCSet(43, 0)

Tr == Traces[tid].ev
E  == Tr[l]

TInit == tid \in 1..Len(Traces) /\ l = 1 /\ last = [st |-> "init"]

TAccept == /\ l <= Len(Tr)
           /\ Call(E)
           /\ l' = l + 1 /\ UNCHANGED tid

\* a rejected event is recorded with its failing clause; the rest of the trace (independent
\* calls) is still examined
TReject == /\ l <= Len(Tr)
           /\ EventWhy(E) # "ok"
           /\ TLCSet(42, Append(TLCGet(42), <<tid, l, EventWhy(E)>>))
           /\ l' = l + 1 /\ UNCHANGED <<tid, last>>

TNext == TAccept \/ TReject
TSpec == TInit /\ [][TNext]_<<last, tid, l>>

Done == (l = Len(Tr) + 1) => TLCSet(43, TLCGet(43) + 1)

Accepted ==
  /\ \A k \in 1..Len(TLCGet(42)) :
        PrintT(<<"REJECTED", TLCGet(42)[k][1], TLCGet(42)[k][2], TLCGet(42)[k][3]>>)
  /\ PrintT(<<"CONSUMED", TLCGet(43), Len(Traces)>>)
  /\ Len(TLCGet(42)) = 0
  /\ TLCGet(43) = Len(Traces)

=============================================================================
