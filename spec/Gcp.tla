--------------------------------- MODULE Gcp --------------------------------
(***************************************************************************)
(* C12 (tensor level): the GCP objective of a Kruskal model is the         *)
(* weighted sum of the element loss over all entries, the factor gradients *)
(* are its exact partial derivatives, and the sampled estimator on any     *)
(* sample list is the weighted sum over the samples.  Exact integers.      *)
(* Element losses (polynomial in the model value m):                       *)
(*   "gaussian"  f = (m-x)^2              g = 2(m-x)                       *)
(*   "huber"(t)  f = d^2 if |d|<t else 2t|d|-t^2,  d = x-m                 *)
(*               g = -2d if |d|<t else -2t sign(d)                         *)
(*   "quad"      f = (2m-x)^2 + m         g = 4(2m-x) + 1   (user supplied)*)
(***************************************************************************)
EXTENDS Objects, TLC

VARIABLE last

AbsI(x) == IF x < 0 THEN 0 - x ELSE x
SgnI(x) == IF x < 0 THEN 0 - 1 ELSE IF x > 0 THEN 1 ELSE 0
F(loss, x, m) ==
  CASE loss.name = "gaussian" -> (m - x) * (m - x)
    [] loss.name = "huber" -> LET d == x - m IN
                              IF AbsI(d) < loss.t THEN d * d ELSE 2 * loss.t * AbsI(d) - loss.t * loss.t
    [] loss.name = "quad" -> (2 * m - x) * (2 * m - x) + m
G(loss, x, m) ==
  CASE loss.name = "gaussian" -> 2 * (m - x)
    [] loss.name = "huber" -> LET d == x - m IN
                              IF AbsI(d) < loss.t THEN 0 - 2 * d ELSE 0 - 2 * loss.t * SgnI(d)
    [] loss.name = "quad" -> 4 * (2 * m - x) + 1

\* K: Kruskal model; X: dense data; W: dense weights (all ones = no weights)
Objective(loss, K, X, W) ==
  LET M == FullK(K) IN SumSeq([c \in 1..Len(X.v) |-> W.v[c] * F(loss, X.v[c], M.v[c])])

\* perturbation of one factor entry
Bump(K, k, i, r, d) == [K EXCEPT !.U[k][i][r] = @ + d]
\* exact partial derivatives by central differences (valid for losses quadratic in m on the segment)
GradCD(loss, K, X, W) ==
  [k \in 1..Len(K.U) |-> [i \in 1..Len(K.U[k]) |-> [r \in 1..Len(K.w) |->
     (Objective(loss, Bump(K, k, i, r, 1), X, W) - Objective(loss, Bump(K, k, i, r, 0 - 1), X, W)) \div 2]]]
\* chain rule: G_k = mttkrp of the element-gradient tensor (unit model weights)
GradCR(loss, K, X, W) ==
  LET M == FullK(K)
      Y == [shape |-> X.shape, v |-> [c \in 1..Len(X.v) |-> W.v[c] * G(loss, X.v[c], M.v[c])]]
  IN  [k \in 1..Len(K.U) |-> Mttkrp(Y, K.U, [r \in 1..Len(K.w) |-> 1], k - 1)]

\* sampled estimator: samples = (subscript, data value, weight); model value read from the model
ModelAt(K, sub) == SumSeq([r \in 1..Len(K.w) |-> K.w[r] * Prod([k \in 1..Len(K.U) |-> K.U[k][sub[k] + 1][r]])])
EstF(loss, K, subs, vals, ws) == SumSeq([s \in 1..Len(subs) |-> ws[s] * F(loss, vals[s], ModelAt(K, subs[s]))])
\* correction range: the first c samples were drawn as zeros without checking (semi-stratified sampling); their
\* contribution is corrected by subtracting the term for data value 0 - with the SAME sample weight
EstFc(loss, K, subs, vals, ws, c) ==
  SumSeq([s \in 1..Len(subs) |-> ws[s] * (F(loss, vals[s], ModelAt(K, subs[s]))
                                          - (IF s <= c THEN F(loss, 0, ModelAt(K, subs[s])) ELSE 0))])
EstGc(loss, K, subs, vals, ws, c) ==
  [k \in 1..Len(K.U) |-> [i \in 1..Len(K.U[k]) |-> [r \in 1..Len(K.w) |->
     SumSeq([s \in 1..Len(subs) |->
        IF subs[s][k] # i - 1 THEN 0
        ELSE ws[s] * (G(loss, vals[s], ModelAt(K, subs[s])) - (IF s <= c THEN G(loss, 0, ModelAt(K, subs[s])) ELSE 0))
             * Prod([q \in 1..Len(K.U) |-> IF q = k THEN 1 ELSE K.U[q][subs[s][q] + 1][r]])])]]]
EstG(loss, K, subs, vals, ws) ==     \* unit model weights
  [k \in 1..Len(K.U) |-> [i \in 1..Len(K.U[k]) |-> [r \in 1..Len(K.w) |->
     SumSeq([s \in 1..Len(subs) |->
        IF subs[s][k] # i - 1 THEN 0
        ELSE ws[s] * G(loss, vals[s], ModelAt(K, subs[s]))
             * Prod([q \in 1..Len(K.U) |-> IF q = k THEN 1 ELSE K.U[q][subs[s][q] + 1][r]])])]]]

UnitWeights(K) == \A r \in 1..Len(K.w) : K.w[r] = 1

\* first failing clause or "ok"
GcpWhy(op, a, res) ==
  IF res.st # "ok" THEN res.st
  ELSE CASE op = "evaluate" ->      \* res.F, res.G (list of matrices)
              IF res.F # Objective(a.loss, a.K, a.X, a.W) THEN "objective-value"
              ELSE IF UnitWeights(a.K) /\ res.G # GradCR(a.loss, a.K, a.X, a.W) THEN "gradient"
              ELSE "ok"
         [] op = "element" ->       \* the library's handle pair on an integer grid: res.f, res.g (flat)
              IF res.f # [k \in 1..Len(a.xs) |-> F(a.loss, a.xs[k], a.ms[k])] THEN "loss-function"
              ELSE IF res.g # [k \in 1..Len(a.xs) |-> G(a.loss, a.xs[k], a.ms[k])] THEN "gradient-function"
              ELSE "ok"
         [] op = "estimate" ->      \* res.F always; res.G only when the model has unit weights
              IF res.F # EstFc(a.loss, a.K, a.subs, a.vals, a.ws, a.crng) THEN "estimated-objective"
              ELSE IF UnitWeights(a.K) /\ res.G # EstGc(a.loss, a.K, a.subs, a.vals, a.ws, a.crng) THEN "estimated-gradient"
              ELSE "ok"

Evaluate(op, a, res) == GcpWhy(op, a, res) = "ok" /\ last' = op

=============================================================================
