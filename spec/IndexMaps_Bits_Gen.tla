------------------------- MODULE IndexMaps_Bits_Gen --------------------------
(* (M)+(G) for IndexMaps_Bits: a few entries per pair of width vectors, placed where 53-bit arithmetic breaks *)
EXTENDS IndexMaps_Bits, Json

CONSTANTS Pairs        \* set of <<W, V>> with SumW(W) = SumW(V)

VARIABLES stim, done
vars == <<last, stim, done>>

\* bit patterns of total length t: every bit set, the top bit alone, the top bit and bit 1, bits around position 53,
\* alternating bits, the low half set
Pats(t) == <<[i \in 1..t |-> 1], [i \in 1..t |-> IF i = t THEN 1 ELSE 0], [i \in 1..t |-> IF i \in {1, t} THEN 1 ELSE 0],
            [i \in 1..t |-> IF i \in {1, 53, 54, 55, t} THEN 1 ELSE 0], [i \in 1..t |-> i % 2],
            [i \in 1..t |-> IF 2 * i <= t THEN 1 ELSE 0], [i \in 1..t |-> IF i % 3 = 0 \/ i = t - 1 THEN 1 ELSE 0]>>

Stimuli == {[w |-> p[1], v |-> p[2], subs |-> [e \in 1..7 |-> Split(Pats(SumW(p[1]))[e], p[1])]] : p \in Pairs}

Init == stim \in Stimuli /\ last = "none" /\ done = FALSE
Emit == /\ ~done
        /\ LET res == [st |-> "ok", subs |-> [e \in 1..Len(stim.subs) |-> ReshapeBits(stim.subs[e], stim.v)]]
           IN  Reshaped(stim, res) /\ PrintT(ToJson([bits |-> TRUE, a |-> stim, ret |-> res]))
        /\ done' = TRUE /\ UNCHANGED stim
Next == Emit
Spec == Init /\ [][Next]_vars

\* (M) reshaping there and back is the identity; distinct entries stay distinct
RoundTrip == \A e \in 1..Len(stim.subs) : ReshapeBits(ReshapeBits(stim.subs[e], stim.v), stim.w) = stim.subs[e]
Injective == \A e, f \in 1..Len(stim.subs) :
               e # f => ReshapeBits(stim.subs[e], stim.v) # ReshapeBits(stim.subs[f], stim.v)
=============================================================================
