-------------------------------- MODULE Nvecs -------------------------------
(***************************************************************************)
(* C14: leading mode-n vectors.  On the exact class of Hosvd.tla (diagonal *)
(* Gram matrices with distinct integer eigenvalues), rotated in mode n by  *)
(* a rational orthogonal matrix Q = Qs / s, the r leading mode-n vectors   *)
(* are the columns Q e_sigma(1..r), sigma sorting the eigenvalues          *)
(* decreasingly, each with its entry of largest magnitude positive.        *)
(* Columns are compared after scaling by s (integers).  General inputs are *)
(* specified by contract on observations.                                  *)
(***************************************************************************)
EXTENDS Hosvd

\* integer matrix Qs (rows) and scale s with Qs Qs^T = s^2 I, acting on a mode of size n
QMat(rot, n) ==
  CASE rot = "id"   -> [i \in 1..n |-> [j \in 1..n |-> IF i = j THEN 1 ELSE 0]]
    [] rot = "swap" -> [i \in 1..n |-> [j \in 1..n |->          \* signed permutation of the first two coordinates
                          IF i = 1 /\ j = 2 THEN 0 - 1 ELSE IF i = 2 /\ j = 1 THEN 1
                          ELSE IF i = j /\ i > 2 THEN 1 ELSE 0]]
    [] rot = "r345" -> [i \in 1..n |-> [j \in 1..n |->          \* rotation by the 3-4-5 angle in the first two coordinates
                          IF i = 1 /\ j = 1 THEN 3 ELSE IF i = 1 /\ j = 2 THEN 0 - 4
                          ELSE IF i = 2 /\ j = 1 THEN 4 ELSE IF i = 2 /\ j = 2 THEN 3
                          ELSE IF i = j THEN 5 ELSE 0]]
QScale(rot) == IF rot = "r345" THEN 5 ELSE 1

AbsN(x) == IF x < 0 THEN 0 - x ELSE x
\* sign normalisation: the entry of largest magnitude (first one on ties) is positive
SignFix(col) ==
  LET m == CHOOSE i \in 1..Len(col) : \A j \in 1..Len(col) : AbsN(col[i]) > AbsN(col[j]) \/ (AbsN(col[i]) = AbsN(col[j]) /\ i <= j)
  IN  IF col[m] < 0 THEN [i \in 1..Len(col) |-> 0 - col[i]] ELSE col
Neg(col) == [i \in 1..Len(col) |-> 0 - col[i]]

\* expected scaled columns: s * Q e_sigma(j),  j = 1..r
NvecsExpect(X, shape, n, r, rot) ==
  LET size == shape[n + 1]
      ord == OrderDesc(X, n, 0..(size - 1))
      Q == QMat(rot, size)
  IN  [j \in 1..r |-> SignFix([i \in 1..size |-> Q[i][ord[j] + 1]])]

NvecsWhy(a, o) ==
  LET X == {a.entries[i] : i \in 1..Len(a.entries)}
      exp == NvecsExpect(X, a.shape, a.n, a.r, a.rot)
  IN  IF o.st # "ok" THEN o.st
      ELSE IF ~o.real THEN "complex-result"
      ELSE IF Len(o.cols) # a.r THEN "number-of-columns"
      ELSE IF ~o.exact THEN "columns-are-not-the-rotated-unit-vectors"
      ELSE IF a.flipsign /\ o.cols # exp THEN "wrong-vectors-order-or-sign"
      ELSE IF ~a.flipsign /\ \E j \in 1..a.r : o.cols[j] # exp[j] /\ o.cols[j] # Neg(exp[j]) THEN "wrong-vectors-or-order"
      ELSE IF ~o.receiver_unchanged THEN "receiver-changed-by-the-call"
      ELSE "ok"

Tol9N == 10000     \* 1e-5 in units of 1e-9 (ARPACK tolerance)
NvecsObsWhy(a, o) ==
  IF o.st # "ok" THEN o.st
  ELSE IF ~o.real THEN "complex-result"
  ELSE IF o.ncols # a.r THEN "number-of-columns"
  ELSE IF o.orth_dev > Tol9N THEN "columns-not-orthonormal"
  ELSE IF o.eigpair_dev > Tol9N THEN "columns-are-not-eigenvectors-of-the-gram-matrix"
  ELSE IF ~o.decreasing THEN "eigenvalues-not-in-decreasing-order"
  ELSE IF o.dominant_dev > Tol9N THEN "not-the-dominant-subspace"
  ELSE IF a.flipsign /\ ~o.sign_rule THEN "sign-normalisation"
  \* computing leading vectors is a query: every array of the holder is the same afterwards
  ELSE IF ~o.receiver_unchanged THEN "receiver-changed-by-the-call"
  ELSE "ok"

=============================================================================
