------------------------------- MODULE Kruskal ------------------------------
(***************************************************************************)
(* C08: Kruskal re-parameterisations preserve the tensor and reach their   *)
(* normal form.  K = [w, U] with integer parameters.  For every operation: *)
(*   DenExpect  : the array the result must denote (exact, from FullK)     *)
(*   ParamExpect: the exact parameters, for operations that only move /    *)
(*                multiply parameters (no norms involved)                  *)
(*   Promised   : the normal-form predicates the operation promises; they  *)
(*                are observed on the real result with tolerance 1e-9.     *)
(* The observed denotation is the real full() rounded to integers          *)
(* (|error| <= 1e-9 is required by the projection).                        *)
(***************************************************************************)
EXTENDS Objects, TLC

VARIABLE last

RECURSIVE FlatSeq(_)
FlatSeq(ss) == IF ss = <<>> THEN <<>> ELSE Head(ss) \o FlatSeq(Tail(ss))
KRec(w, U) == [w |-> w, U |-> U]
ColsOf(K, idx) == KRec([k \in 1..Len(idx) |-> K.w[idx[k] + 1]],
                       [m \in 1..Len(K.U) |-> [i \in 1..Len(K.U[m]) |-> [k \in 1..Len(idx) |-> K.U[m][i][idx[k] + 1]]]])
Concat(A, B, sgn) == KRec(A.w \o [r \in 1..Len(B.w) |-> sgn * B.w[r]],
                          [m \in 1..Len(A.U) |-> [i \in 1..Len(A.U[m]) |-> A.U[m][i] \o B.U[m][i]]])
ScaleW(K, c) == KRec([r \in 1..Len(K.w) |-> c * K.w[r]], K.U)
Redistribute(K, mode) ==
  KRec([r \in 1..Len(K.w) |-> 1],
       [m \in 1..Len(K.U) |-> IF m = mode + 1
                               THEN [i \in 1..Len(K.U[m]) |-> [r \in 1..Len(K.w) |-> K.U[m][i][r] * K.w[r]]]
                               ELSE K.U[m]])
\* parameter vector: weights (optional) then every factor matrix column by column
ToVec(K, withW) ==
  (IF withW THEN K.w ELSE <<>>)
  \o FlatSeq([m \in 1..Len(K.U) |-> FlatSeq([r \in 1..Len(K.w) |-> [i \in 1..Len(K.U[m]) |-> K.U[m][i][r]]])])
PlusD(X, Y, sgn) == [shape |-> X.shape, v |-> [k \in 1..Len(X.v) |-> X.v[k] + sgn * Y.v[k]]]

ExactOps == {"arrange_perm", "redistribute", "extract", "add", "sub", "neg", "scalar", "rscalar", "tovec",
             "vec_roundtrip", "update_weights", "update_mode", "permute", "copy"}

ParamExpect(op, a) ==
  CASE op = "arrange_perm" -> ColsOf(a.K, a.perm)
    [] op = "redistribute" -> Redistribute(a.K, a.mode)
    [] op = "extract"      -> ColsOf(a.K, a.idx)
    [] op = "add"          -> Concat(a.K, a.other, 1)
    [] op = "sub"          -> Concat(a.K, a.other, 0 - 1)
    [] op = "neg"          -> ScaleW(a.K, 0 - 1)
    [] op \in {"scalar", "rscalar"} -> ScaleW(a.K, a.c)
    [] op \in {"vec_roundtrip", "copy"} -> a.K
    [] op = "update_weights" -> KRec(a.data, a.K.U)
    [] op = "update_mode"  -> KRec(a.K.w, [m \in 1..Len(a.K.U) |->
                                IF m = a.mode + 1
                                  THEN [i \in 1..Len(a.K.U[m]) |-> [r \in 1..Len(a.K.w) |-> a.data[(r - 1) * Len(a.K.U[m]) + i]]]
                                  ELSE a.K.U[m]])
    [] op = "permute"      -> KRec(a.K.w, [m \in 1..Len(a.order) |-> a.K.U[a.order[m] + 1]])

DenExpect(op, a) ==
  CASE op \in {"normalize", "arrange", "arrange_perm", "fixsigns", "fixsigns_ref", "redistribute", "tolist",
               "vec_roundtrip", "copy", "score_self"} -> FullK(a.K)
    [] op = "extract" -> FullK(ColsOf(a.K, a.idx))
    [] op = "add"     -> PlusD(FullK(a.K), FullK(a.other), 1)
    [] op = "sub"     -> PlusD(FullK(a.K), FullK(a.other), 0 - 1)
    [] op = "neg"     -> MapD(FullK(a.K), LAMBDA x : 0 - x)
    [] op \in {"scalar", "rscalar"} -> MapD(FullK(a.K), LAMBDA x : a.c * x)
    [] op = "permute" -> PermuteD(FullK(a.K), a.order)
    [] op = "update_weights" -> FullK(KRec(a.data, a.K.U))
    [] op = "update_mode" -> FullK(ParamExpect(op, a))

\* predicates promised by each operation (names of fields of res.preds that must be TRUE)
N_(a) == Len(a.K.U)
UnitModes(a, S) == {"unit_" \o ToString(m) : m \in S}
Promised(op, a) ==
  CASE op = "normalize" ->
         IF a.mode >= 0 THEN UnitModes(a, {a.mode})
         ELSE IF a.wf = "all" THEN {"weights_one", "col_norms_equal_across_modes"} \cup (IF a.sort THEN {"sorted_desc"} ELSE {})
         ELSE IF a.wf = "none" THEN UnitModes(a, 0..(N_(a) - 1)) \cup {"weights_nonneg"} \cup (IF a.sort THEN {"sorted_desc"} ELSE {})
         ELSE UnitModes(a, (0..(N_(a) - 1)) \ {a.wfmode}) \cup {"weights_one"}
    [] op = "arrange" ->
         IF a.wfmode < 0 THEN UnitModes(a, 0..(N_(a) - 1)) \cup {"weights_nonneg", "sorted_desc"}
         ELSE UnitModes(a, (0..(N_(a) - 1)) \ {a.wfmode}) \cup {"weights_one", "absorbed_sorted_desc"}
    [] op = "fixsigns" -> {"largest_entries_positive_where_possible"}
    [] op = "fixsigns_ref" -> UnitModes(a, 0..(N_(a) - 1))
    [] op = "tolist" -> {"list_reproduces_tensor"}
    [] op = "score_self" -> {"score_is_one", "permutation_recovered"}
    \* operations returning a new ktensor: re-parameterising the RESULT in place afterwards must not
    \* change the array denoted by the operand
    [] op \in {"extract", "permute", "copy", "add", "sub", "neg", "scalar", "rscalar", "vec_roundtrip"} ->
         {"operand_unchanged_after_reparameterising_result"}
    [] OTHER -> {}

\* first failing clause or "ok".   res: [st, den (dense ints, observed full()), params (for ExactOps),
\*                                       vec (for tovec), preds (record of booleans)]
KWhy(op, a, res) ==
  IF res.st # "ok" THEN res.st
  ELSE IF op = "tovec" THEN (IF res.vec # ToVec(a.K, a.withW) THEN "vector-layout" ELSE "ok")
  ELSE IF res.den.shape # DenExpect(op, a).shape THEN "shape"
  ELSE IF AsD(res.den) # DenExpect(op, a) THEN "tensor-changed"
  ELSE IF op \in ExactOps /\ res.params # ParamExpect(op, a) THEN "parameters"
  ELSE IF \E p \in Promised(op, a) : ~res.preds[p]
    THEN "normal-form:" \o (CHOOSE p \in Promised(op, a) : ~res.preds[p])
  ELSE "ok"

Reparam(op, a, res) == KWhy(op, a, res) = "ok" /\ last' = op

=============================================================================
