--------------------------- MODULE Generators_Gen ---------------------------
(* (M)+(G) for Generators: every call in scope; laws of the deterministic   *)
(* generators.                                                              *)
EXTENDS Generators, Json

CONSTANT Part     \* "det" | "agg" | "rand"

VARIABLES stim, done
vars == <<last, stim, done>>

ShapesG == {<<3>>, <<1>>, <<2, 3>>, <<3, 1>>, <<2, 2>>, <<2, 3, 2>>, <<1, 2, 3>>, <<2, 2, 2, 2>>}
St(op, a) == [op |-> op, a |-> a]
SeqsLen(S, n) == [1..n -> S]

Det ==
  {St(op, [shape |-> s]) : op \in {"tenones", "tenzeros", "from_function_dense"}, s \in ShapesG}
  \cup {St(op, [e |-> e, shape |-> s, hasShape |-> TRUE]) :
          op \in {"tendiag", "sptendiag"}, e \in {<<5>>, <<1, 2>>, <<1, 0 - 2, 3>>, <<4, 0, 6, 7>>},
          s \in {<<2, 2>>, <<3, 2>>, <<2, 3, 4>>, <<1, 1, 1>>, <<2>>}}
  \cup {St(op, [e |-> e, shape |-> <<>>, hasShape |-> FALSE]) :
          op \in {"tendiag", "sptendiag"}, e \in {<<5>>, <<1, 2>>, <<1, 0 - 2, 3>>}}
  \cup {St("teneye", [m |-> m, n |-> n]) : m \in {2, 4}, n \in 1..3}
  \cup {St("teneye", [m |-> 6, n |-> n]) : n \in 1..2}
  \cup {St("from_function_ktensor", [shape |-> s, R |-> R]) : s \in ShapesG, R \in 1..2}

\* every subscript list with <= 4 rows over a 2x2 (x2) grid, arbitrary multiplicities, any order
Grid(sh) == Idx(sh)
AggStimuli ==
  UNION {UNION {{St("aggregate", [subs |-> ss, vals |-> vs, shape |-> shn[1], red |-> red]) :
                   vs \in {[k \in 1..shn[2] |-> k], [k \in 1..shn[2] |-> IF k % 2 = 1 THEN k ELSE 0 - (k - 1)],
                           [k \in 1..shn[2] |-> (k % 3) - 1], [k \in 1..shn[2] |-> 1]},
                   red \in {"sum", "max", "min", "count2"}} :
                ss \in SeqsLen(Grid(shn[1]), shn[2])} :
         shn \in {<<<<2, 2>>, 1>>, <<<<2, 2>>, 2>>, <<<<2, 2>>, 3>>, <<<<2, 2>>, 4>>, <<<<2, 1, 2>>, 2>>, <<<<2, 1, 2>>, 3>>}}

Reqs(cells) == {[kind |-> "count", n |-> k, num |-> 0, den |-> 1] : k \in 1..(cells - 1)}
               \cup {[kind |-> "density", n |-> 0, num |-> p[1], den |-> p[2]] :
                       p \in {<<1, 10>>, <<1, 5>>, <<1, 4>>, <<1, 3>>, <<1, 2>>, <<3, 4>>, <<9, 10>>}}
Rand ==
  UNION {{St(op, [shape |-> s, req |-> r, seed |-> sd]) :
            op \in {"sptenrand", "from_function_sparse"}, r \in Reqs(Prod(s)), sd \in 0..2} :
         s \in {<<2, 2>>, <<2, 3>>, <<3, 1, 2>>, <<2, 2, 2>>, <<4, 5>>}}
  \cup {St("tenrand", [shape |-> s, seed |-> sd]) : s \in ShapesG, sd \in 0..2}
  \* densities of index spaces with 2^60 .. 2^64 cells (the count is a small power of two)
  \cup {St("sptenrand_pow2", [widths |-> wd[1], dexp |-> wd[2], seed |-> sd]) :
          wd \in {<<<<22, 21, 21>>, 58>>, <<<<22, 21, 21>>, 60>>, <<<<16, 16, 16, 16>>, 59>>, <<<<20, 20, 20>>, 55>>, <<<<21, 21, 21>>, 60>>}, sd \in 0..1}

Init == /\ stim \in (CASE Part = "det" -> Det [] Part = "agg" -> AggStimuli [] Part = "rand" -> Rand)
        /\ last = "none" /\ done = FALSE

DoEmit == /\ ~done /\ PrintT(ToJson(stim)) /\ done' = TRUE /\ UNCHANGED <<stim, last>>
Next == DoEmit
Spec == Init /\ [][Next]_vars

\* (M) laws of the specified values
DiagLaw == stim.op \in {"tendiag", "sptendiag"} =>
  LET a == stim.a
      T == TenDiag(a.e, a.shape, a.hasShape)
  IN  /\ NnzD(T) = Cardinality({k \in 1..Len(a.e) : a.e[k] # 0})
      /\ \A k \in 1..Len(a.e) : At(T, [m \in 1..Len(T.shape) |-> k - 1]) = a.e[k]
      /\ \A m \in 1..Len(T.shape) : T.shape[m] >= Len(a.e)
AggLaw == stim.op = "aggregate" =>
  LET a == stim.a
      T == Agg(a.subs, a.vals, a.shape, a.red)
  IN  /\ a.red = "sum" => SumD(T) = SumSeq(a.vals)
      /\ \A i \in Idx(a.shape) : (\A k \in 1..Len(a.subs) : a.subs[k] # i) => At(T, i) = 0
      \* the result does not depend on the order of the (subscript, value) pairs
      /\ T = Agg(RevSeq(a.subs), RevSeq(a.vals), a.shape, a.red)

=============================================================================
