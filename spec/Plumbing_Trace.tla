--------------------------- MODULE Plumbing_Trace --------------------------
EXTENDS Plumbing, Json, IOUtils, TLCExt
VARIABLES tid, l
Traces == ndJsonDeserialize(IOEnv.TRACE_FILE)
ASSUME TLCSet(42, <<>>)
ASSUME TLCSet(43, 0)
Tr == Traces[tid].ev
E  == Tr[l]
TInit == tid \in 1..Len(Traces) /\ l = 1 /\ last = "none"
TStep == /\ l <= Len(Tr)
         /\ IF PlumbWhy(E.op, E.args, E.ret) = "ok" THEN TRUE
            ELSE TLCSet(42, Append(TLCGet(42), <<tid, l, PlumbWhy(E.op, E.args, E.ret)>>))
         /\ l' = l + 1 /\ last' = E.op /\ UNCHANGED tid
TSpec == TInit /\ [][TStep]_<<tid, l, last>>
Done == (l = Len(Tr) + 1) => TLCSet(43, TLCGet(43) + 1)
Accepted ==
  /\ \A k \in 1..Len(TLCGet(42)) : PrintT(<<"REJECTED", TLCGet(42)[k][1], TLCGet(42)[k][2], TLCGet(42)[k][3]>>)
  /\ PrintT(<<"CONSUMED", TLCGet(43), Len(Traces)>>)
  /\ Len(TLCGet(42)) = 0
=============================================================================
