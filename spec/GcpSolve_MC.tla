----------------------------- MODULE GcpSolve_MC ----------------------------
(* (M) all runs of up to MaxSolves solves on one object, every order of estimates from 0..FMax, *)
(* every termination.  Also used as (G): each completed history is printed as JSON.             *)
EXTENDS GcpSolve, Json
CONSTANTS MaxIters, MaxFails, EpochIters, FMax, MaxSolves, Emit
Cfgs == [max_iters : MaxIters, max_fails : MaxFails, epoch_iters : EpochIters]
VARIABLES hist
MCInit == Init /\ hist = <<>>
MCStart == \E c \in Cfgs, f0 \in 0..FMax : solves < MaxSolves /\ Start(c, f0) /\ hist' = Append(hist, [op |-> "start", cfg |-> c, f0 |-> f0])
MCGrad == Grad /\ UNCHANGED hist
MCEpoch == \E f \in 0..FMax, b \in BOOLEAN : Epoch(f, b) /\ hist' = Append(hist, [op |-> "epoch", f |-> f, below |-> b])
Obs == [st |-> "ok", trace |-> trace, f_returned |-> fbest, bounds_ok |-> TRUE, rank_and_shape_ok |-> TRUE, step_fails |-> steps,
        data_untouched |-> TRUE, init_untouched |-> TRUE, same_as_fresh |-> (ostate = giters)]
MCReturn == /\ pc = "stopped" /\ pc' = "idle" /\ solves' = solves + 1
            /\ hist' = Append(hist, [op |-> "return"])
            /\ UNCHANGED <<cfg, epochs, giters, nfails, fbest, trace, steps, ostate>>
            /\ (Emit => PrintT(ToJson(Append(hist, [op |-> "return"]))))
MCNext == MCStart \/ MCGrad \/ MCEpoch \/ MCReturn
MCSpec == MCInit /\ [][MCNext]_<<vars, hist>>

\* the truthful observation of every reachable return point satisfies the contract ...
ReturnContract == pc = "stopped" => ReturnWhy(Obs) \in {"ok", "solve-depends-on-earlier-solves-of-the-object"}
BestIsMin      == pc # "idle" /\ trace # <<>> => fbest = SeqMin(trace) /\ fbest <= trace[1]
TraceLength    == pc # "idle" => Len(trace) = epochs + 1 /\ Len(steps) = epochs
Limits         == pc # "idle" => epochs <= cfg.max_iters /\ nfails <= cfg.max_fails + 1 /\ giters <= cfg.epoch_iters
\* ... and reusability: when a solve begins, the object carries nothing from earlier solves
Reusable       == pc # "idle" /\ epochs = 0 => ostate = giters
=============================================================================
