----------------------------- MODULE Multilinear ----------------------------
(***************************************************************************)
(* Matrices (sequences of rows), Kruskal and Tucker denotations and the    *)
(* multilinear products, each defined by its explicit sum over indices.    *)
(***************************************************************************)
EXTENDS Sparse


\* matrices ---------------------------------------------------------------
NRows(A)  == Len(A)
NCols(A)  == IF Len(A) = 0 THEN 0 ELSE Len(A[1])
IsMatrix(A, nr, nc) == Len(A) = nr /\ \A r \in 1..nr : Len(A[r]) = nc
MkM(nr, nc, F(_, _)) == [r \in 1..nr |-> [c \in 1..nc |-> F(r, c)]]
MatMul(A, B) == MkM(NRows(A), NCols(B),
                    LAMBDA r, c : SumTo(NRows(B), LAMBDA k : A[r][k] * B[k][c]))
TransposeM(A) == MkM(NCols(A), NRows(A), LAMBDA r, c : A[c][r])
IdentityM(n)  == MkM(n, n, LAMBDA r, c : IF r = c THEN 1 ELSE 0)
\* matrix <-> 2-way tensor
MatToD(A)  == [shape |-> <<NRows(A), NCols(A)>>,
               v |-> [k \in 1..(NRows(A) * NCols(A)) |->
                        A[((k - 1) % NRows(A)) + 1][((k - 1) \div NRows(A)) + 1]]]

\* Kruskal tensors: K = [w |-> <<lambda_r>>, U |-> <<matrices n_k x R>>] ------
KRank(K)   == Len(K.w)
KShape(K)  == [k \in 1..Len(K.U) |-> NRows(K.U[k])]
FullK(K)   == MkD(KShape(K), LAMBDA i :
                SumTo(KRank(K), LAMBDA r :
                  K.w[r] * ProdTo(Len(K.U), LAMBDA k : K.U[k][i[k] + 1][r])))
WFK(K)     == \A k \in 1..Len(K.U) : IsMatrix(K.U[k], NRows(K.U[k]), KRank(K))

\* Tucker tensors: T = [core |-> dense, U |-> <<matrices n_k x r_k>>] ---------
TShape(T)  == [k \in 1..Len(T.U) |-> NRows(T.U[k])]
FullT(T)   == MkD(TShape(T), LAMBDA i :
                SumTo(Size(T.core), LAMBDA c :
                  LET j == Unlin(T.core.shape, c - 1)
                  IN  T.core.v[c] * ProdTo(Len(T.U), LAMBDA k : T.U[k][i[k] + 1][j[k] + 1])))
WFT(T)     == /\ Len(T.U) = NDims(T.core)
              /\ \A k \in 1..Len(T.U) : IsMatrix(T.U[k], NRows(T.U[k]), T.core.shape[k])

\* Khatri-Rao product of a sequence of matrices with common column count.
\* Row index: the LAST matrix's row index varies fastest (C17).
KRShape(As)  == [k \in 1..Len(As) |-> NRows(As[k])]
KhatriRao(As) ==
  LET rs  == RevSeq(KRShape(As))          \* fastest index first
      n   == Len(As)
  IN  MkM(Prod(rs), NCols(As[1]),
          LAMBDA row, c :
            LET i == Unlin(rs, row - 1)   \* i[1] belongs to the last matrix
            IN  ProdTo(n, LAMBDA k : As[k][i[n + 1 - k] + 1][c]))

\* mode selection (tt_dimscheck): N modes, M multiplicands, exactly one of
\* dims / exclude given (the other is <<>> with flag).  Result: sorted modes
\* and for each the 0-based position of its multiplicand.
DimsSel(N, dims, useExclude) ==
  IF useExclude THEN RestModes(N, dims) ELSE SortSet(Range(dims))
DimsVidx(N, M, dims, useExclude) ==
  LET sd == DimsSel(N, dims, useExclude)
  IN  IF M = N THEN sd                                  \* one multiplicand per mode of the tensor
      ELSE IF useExclude THEN [k \in 1..Len(sd) |-> k - 1]
      ELSE [k \in 1..Len(sd) |-> (CHOOSE j \in 1..Len(dims) : dims[j] = sd[k]) - 1]

\* tensor times vector in one 0-based mode n: removes the mode
TtvOne(X, vec, n) ==
  LET s  == X.shape
      ns == [k \in 1..(Len(s) - 1) |-> IF k <= n THEN s[k] ELSE s[k + 1]]
  IN  MkD(ns, LAMBDA i :
        SumTo(s[n + 1], LAMBDA j :
          vec[j] * At(X, [k \in 1..Len(s) |->
                            IF k <= n THEN i[k] ELSE IF k = n + 1 THEN j - 1 ELSE i[k - 1]])))

\* tensor times vectors in the sorted 0-based modes sd, multiplicand positions vidx;
\* processed from the highest mode down so that mode numbers stay valid
RECURSIVE TtvSeq(_, _, _, _, _)
TtvSeq(X, vecs, sd, vidx, k) ==
  IF k = 0 THEN X
  ELSE TtvSeq(TtvOne(X, vecs[vidx[k] + 1], sd[k]), vecs, sd, vidx, k - 1)
Ttv(X, vecs, sd, vidx) == TtvSeq(X, vecs, sd, vidx, Len(sd))

\* tensor times matrix in 0-based mode n:  Y = X x_n A   (A is J x s_n);
\* transposed flag: A is s_n x J and A^T is applied
TtmOne(X, A, n, transp) ==
  LET s  == X.shape
      J  == IF transp THEN NCols(A) ELSE NRows(A)
      ns == [k \in 1..Len(s) |-> IF k = n + 1 THEN J ELSE s[k]]
  IN  MkD(ns, LAMBDA i :
        SumTo(s[n + 1], LAMBDA j :
          (IF transp THEN A[j][i[n + 1] + 1] ELSE A[i[n + 1] + 1][j])
          * At(X, [k \in 1..Len(s) |-> IF k = n + 1 THEN j - 1 ELSE i[k]])))
RECURSIVE TtmSeq(_, _, _, _, _, _)
TtmSeq(X, mats, sd, vidx, transp, k) ==
  IF k = 0 THEN X
  ELSE TtmSeq(TtmOne(X, mats[vidx[k] + 1], sd[k], transp), mats, sd, vidx, transp, k - 1)
Ttm(X, mats, sd, vidx, transp) == TtmSeq(X, mats, sd, vidx, transp, Len(sd))

\* MTTKRP in 0-based mode n with factor matrices U (U[n+1] ignored) and weights w
\* result: s_n x R matrix   M[i,r] = sum_j X[j] * w[r] * prod_{k # n} U[k][j_k, r]   (j_n = i)
Mttkrp(X, U, w, n) ==
  LET s == X.shape
      R == Len(w)
  IN  MkM(s[n + 1], R, LAMBDA i, r :
        SumTo(Size(X), LAMBDA c :
          LET j == Unlin(s, c - 1)
          IN  IF j[n + 1] # i - 1 THEN 0
              ELSE X.v[c] * w[r] * ProdTo(Len(s), LAMBDA k :
                     IF k = n + 1 THEN 1 ELSE U[k][j[k] + 1][r])))

\* contraction of 0-based modes a # b of equal size: modes removed
Contract(X, a, b) ==
  LET s    == X.shape
      keep == RestModes(Len(s), <<a, b>>)
      ns   == Sub(s, keep)
  IN  MkD(ns, LAMBDA i :
        SumTo(s[a + 1], LAMBDA d :
          At(X, [k \in 1..Len(s) |->
                  IF k = a + 1 \/ k = b + 1 THEN d - 1
                  ELSE i[CHOOSE q \in 1..Len(keep) : keep[q] = k - 1]])))

\* collapse the sorted 0-based modes sd with reducer "sum" | "max" | "min"
\* "halfsum": the reducer sum(v)/2 whose result the driver doubles - a reducer with non-integer values on integer data
\* "wsum": sum_k k * v[k] - a reducer that depends on the ORDER of the selected entries (first index fastest)
ReduceSeq(q, red) == IF red \in {"sum", "halfsum"} THEN SumSeq(q)
                     ELSE IF red = "wsum" THEN SumSeq([k \in 1..Len(q) |-> k * q[k]])
                     ELSE IF red = "max" THEN SetMax(Range(q))
                     ELSE SetMin(Range(q))
Collapse(X, sd, red) ==
  LET s    == X.shape
      keep == RestModes(Len(s), sd)
      ns   == Sub(s, keep)
      cs   == Sub(s, sd)
  IN  MkD(ns, LAMBDA i :
        ReduceSeq([c \in 1..Prod(cs) |-> At(X, [k \in 1..Len(s) |->
                       IF \E q \in 1..Len(keep) : keep[q] = k - 1
                         THEN i[CHOOSE q \in 1..Len(keep) : keep[q] = k - 1]
                         ELSE Unlin(cs, c - 1)[CHOOSE q \in 1..Len(sd) : sd[q] = k - 1]])], red))

\* scale along sorted 0-based modes sd by a tensor F of shape s[sd]
Scale(X, F, sd) == MkD(X.shape, LAMBDA i : At(X, i) * At(F, Sub(i, sd)))

\* tensor times tensor: contract modes xd of X with modes yd of Y (paired in order);
\* result modes: remaining modes of X then remaining modes of Y
Ttt(X, Y, xd, yd) ==
  LET xs == X.shape   ys == Y.shape
      xk == RestModes(Len(xs), xd)   yk == RestModes(Len(ys), yd)
      cs == Sub(xs, xd)
      ns == Sub(xs, xk) \o Sub(ys, yk)
  IN  MkD(ns, LAMBDA i :
        SumTo(Prod(cs), LAMBDA c :
          LET d == Unlin(cs, c - 1)
          IN  At(X, [k \in 1..Len(xs) |->
                      IF \E q \in 1..Len(xd) : xd[q] = k - 1
                        THEN d[CHOOSE q \in 1..Len(xd) : xd[q] = k - 1]
                        ELSE i[CHOOSE q \in 1..Len(xk) : xk[q] = k - 1]])
            * At(Y, [k \in 1..Len(ys) |->
                      IF \E q \in 1..Len(yd) : yd[q] = k - 1
                        THEN d[CHOOSE q \in 1..Len(yd) : yd[q] = k - 1]
                        ELSE i[Len(xk) + (CHOOSE q \in 1..Len(yk) : yk[q] = k - 1)]])))

=============================================================================
