---------------------------- MODULE MatAlgebra_Gen --------------------------
EXTENDS MatAlgebra, Json
CONSTANTS ShapeC
VARIABLES stim, done
N0 == Len(ShapeC)
NC == Prod(ShapeC)
LabD(s, off) == [shape |-> s, v |-> [k \in 1..Prod(s) |-> ((k * 3 + off) % 7) - 2]]
Splits == {<<SubSeq(p, 1, k), SubSeq(p, k + 1, N0)>> : p \in Perms0(N0), k \in 0..N0}
Tenmat(X, sp) == [kind |-> "tenmat", tshape |-> X.shape, rdims |-> sp[1], cdims |-> sp[2], m |-> Mat(X, sp[1], sp[2])]
SpOf(X, sp) == \* sptenmat of a dense X: entries of the matricization, row-major stored order
  LET M == Mat(X, sp[1], sp[2])  ms == MatShape(X.shape, sp[1], sp[2])
      cells == SelectSeq([k \in 1..(ms[1] * ms[2]) |-> <<(k - 1) \div ms[2], (k - 1) % ms[2]>>], LAMBDA rc : M[rc[1] + 1][rc[2] + 1] # 0)
  IN [kind |-> "sptenmat", tshape |-> X.shape, rdims |-> sp[1], cdims |-> sp[2], subs |-> cells,
      vals |-> [j \in 1..Len(cells) |-> M[cells[j][1] + 1][cells[j][2] + 1]]]
Sparsify(X) == [shape |-> X.shape, v |-> [k \in 1..Len(X.v) |-> IF k % 2 = 0 THEN 0 ELSE X.v[k]]]
Scalars == {2, 0 - 1, 0}
A0 == LabD(ShapeC, 0)
B0 == LabD(ShapeC, 4)
TenmatStim(sp) ==
  LET o == Tenmat(A0, sp)  ms == MShape(o) IN
  {[op |-> op, obj |-> o, args |-> [c |-> 0]] : op \in {"ctranspose", "normsq", "pos", "neg"}}
  \cup {[op |-> op, obj |-> o, args |-> [c |-> c]] : op \in {"add_scalar", "radd_scalar", "sub_scalar", "rsub_scalar", "mul_scalar", "rmul_scalar"}, c \in Scalars}
  \cup {[op |-> op, obj |-> o, args |-> [other |-> Tenmat(B0, sp2)]] : op \in {"add", "sub", "isequal"}, sp2 \in {sp, <<sp[2], sp[1]>>}}
  \cup {[op |-> "isequal", obj |-> o, args |-> [other |-> o]]}
  \cup {[op |-> "mul", obj |-> o, args |-> [other |-> b]] : b \in {TenmatFn("ctranspose", o, [c |-> 0]), Tenmat(B0, <<sp[2], sp[1]>>), Tenmat(B0, sp)}}
  \cup {[op |-> "getitem", obj |-> o, args |-> [r |-> ms[1] - 1, c |-> 0]], [op |-> "getitem", obj |-> o, args |-> [r |-> 0, c |-> ms[2] - 1]],
        [op |-> "setitem", obj |-> o, args |-> [r |-> ms[1] - 1, c |-> ms[2] - 1, v |-> 9]]}
SptStim(sp) ==
  LET o == SpOf(Sparsify(A0), sp) IN
  {[op |-> op, obj |-> o, args |-> [c |-> 0]] : op \in {"normsq", "pos", "neg", "full"}}
  \cup {[op |-> "isequal", obj |-> o, args |-> [other |-> x]] : x \in {o, SpOf(Sparsify(B0), sp), SpOf(Sparsify(A0), <<sp[2], sp[1]>>)}}
LabelK(s, R) == KObj([r \in 1..R |-> IF r = 1 THEN 2 ELSE 0 - 1],
                     [k \in 1..Len(s) |-> MkM(s[k], R, LAMBDA i, r : ((i + 2 * r + k) % 4) - 1)])
LabelT(s)    == LET cs == [k \in 1..Len(s) |-> Min2(s[k], 2)]
                IN  TObj(LabD(cs, 1), [k \in 1..Len(s) |-> MkM(s[k], cs[k], LAMBDA i, j : ((i + 2 * j + k) % 3) - 1)])
SumA == [kind |-> "sum", parts |-> <<DenseObj(A0), LabelK(ShapeC, 2)>>]
CompStim ==
  {[op |-> op, obj |-> SumA, args |-> [c |-> 0]] : op \in {"pos", "neg"}}
  \cup {[op |-> op, obj |-> SumA, args |-> [other |-> x]] : op \in {"add", "radd"},
          x \in {DenseObj(B0), LabelK(ShapeC, 1), LabelT(ShapeC), SparseObj(ToSparse(Sparsify(B0)))}}
  \cup {[op |-> op, obj |-> LabelT(ShapeC), args |-> [c |-> 0]] : op \in {"pos", "neg"}}
  \cup {[op |-> op, obj |-> LabelT(ShapeC), args |-> [c |-> c]] : op \in {"mul_scalar", "rmul_scalar"}, c \in Scalars}
Stimuli == UNION {TenmatStim(sp) \cup SptStim(sp) : sp \in Splits} \cup CompStim
GInit == stim \in Stimuli /\ done = FALSE
GNext == ~done /\ done' = TRUE /\ UNCHANGED stim
         /\ PrintT(ToJson([op |-> stim.op, obj |-> stim.obj, args |-> stim.args]))
GSpec == GInit /\ [][GNext]_<<stim, done>>
Laws == TransposeLaw(stim.obj) /\ NormLaw(stim.obj) /\ GramLaw(stim.obj)
=============================================================================
