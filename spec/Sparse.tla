------------------------------- MODULE Sparse -------------------------------
(***************************************************************************)
(* Coordinate-format sparse tensors as pyttb stores them:                  *)
(*     S = [shape |-> s, subs |-> <<i_1,...,i_n>>, vals |-> <<v_1,...,v_n>>]*)
(* The stored order of the entries is part of the concrete value but not   *)
(* of the denotation Den(S).                                               *)
(***************************************************************************)
EXTENDS Dense

NnzS(S) == Len(S.subs)

\* well-formedness of a stored sparse tensor (C06)
WFShape(S)    == \A m \in 1..Len(S.shape) : S.shape[m] \in Nat
WFLen(S)      == Len(S.vals) = Len(S.subs)
WFInRange(S)  == \A k \in 1..Len(S.subs) : InShape(S.shape, S.subs[k])
WFDistinct(S) == \A a, b \in 1..Len(S.subs) : a # b => S.subs[a] # S.subs[b]
WFNoZero(S)   == \A k \in 1..Len(S.vals) : S.vals[k] # 0
WF(S)         == WFShape(S) /\ WFLen(S) /\ WFInRange(S) /\ WFDistinct(S)
WFStrict(S)   == WF(S) /\ WFNoZero(S)

\* name of the first failing clause (for verdict messages); WFWhyNZ does not look at the values
WFWhyNZ(S) == IF ~WFLen(S) THEN "len(vals)#len(subs)"
              ELSE IF ~WFInRange(S) THEN "subscript-out-of-range"
              ELSE IF ~WFDistinct(S) THEN "duplicate-subscript"
              ELSE "ok"
WFWhy(S) == IF WFWhyNZ(S) # "ok" THEN WFWhyNZ(S)
            ELSE IF ~WFNoZero(S) THEN "explicit-zero"
            ELSE "ok"

\* denotation; for an ill-formed tensor with duplicates the first entry wins
\* (Den is only compared after WF has been established)
Den(S) ==
  MkD(S.shape, LAMBDA i :
        IF \E k \in 1..Len(S.subs) : S.subs[k] = i
          THEN S.vals[CHOOSE k \in 1..Len(S.subs) : S.subs[k] = i]
          ELSE 0)

\* canonical sparse holder of a dense array: nonzeros in F order
RECURSIVE NzCells(_, _)
NzCells(v, k) == IF k > Len(v) THEN <<>>
                 ELSE (IF v[k] # 0 THEN <<k>> ELSE <<>>) \o NzCells(v, k + 1)
ToSparse(X) ==
  LET nz == NzCells(X.v, 1)
  IN  [shape |-> X.shape,
       subs  |-> [j \in 1..Len(nz) |-> Unlin(X.shape, nz[j] - 1)],
       vals  |-> [j \in 1..Len(nz) |-> X.v[nz[j]]]]

\* the same tensor with its entries stored in order pi (1-based permutation)
Reorder(S, pi) == [shape |-> S.shape,
                   subs  |-> [j \in 1..Len(S.subs) |-> S.subs[pi[j]]],
                   vals  |-> [j \in 1..Len(S.vals) |-> S.vals[pi[j]]]]

\* a small, deterministic family of stored orders: identity, reversal,
\* rotation by one, swap of the first two (all of them for n <= 2)
OrdersFew(n) ==
  LET id  == [j \in 1..n |-> j]
      rev == [j \in 1..n |-> n + 1 - j]
      rot == [j \in 1..n |-> (j % n) + 1]
      sw  == [j \in 1..n |-> IF j = 1 THEN Min2(2, n) ELSE IF j = 2 THEN 1 ELSE j]
  IN  {id, rev, rot, sw}
OrdersAll(n) == Perms1(n)

=============================================================================
