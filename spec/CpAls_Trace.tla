----------------------------- MODULE CpAls_Trace ----------------------------
(* (V) trace validation for CpAls: start, kernel*, return, truncated*.      *)
EXTENDS CpAls, Json, IOUtils, TLCExt
VARIABLES tid, l
Traces == ndJsonDeserialize(IOEnv.TRACE_FILE)
ASSUME TLCSet(42, <<>>)
ASSUME TLCSet(43, 0)
Tr == Traces[tid].ev
E  == Tr[l]

EWhy == CASE E.op = "start"  -> (IF pc # "idle" THEN "second-start" ELSE StartWhy(E.args.cfg, E.args.ids))
          [] E.op = "kernel" -> KernelWhy(E.args.n, E.args.ids)
          [] E.op = "return" -> ReturnWhy(E.args)
          [] E.op = "truncated" -> (IF pc # "returned" THEN "truncated-before-return" ELSE TruncWhy(E.args.k, E.args.calls, E.args.fit))
          [] OTHER -> "unknown-event"

TInit == tid \in 1..Len(Traces) /\ l = 1 /\ Init
TAccept == /\ l <= Len(Tr)
           /\ \/ E.op = "start" /\ Start(E.args.cfg, E.args.ids)
              \/ E.op = "kernel" /\ Kernel(E.args.n, E.args.ids)
              \/ E.op = "return" /\ Return(E.args)
              \/ E.op = "truncated" /\ Truncated(E.args.k, E.args.calls, E.args.fit)
           /\ l' = l + 1 /\ UNCHANGED tid
TReject == /\ l <= Len(Tr) /\ EWhy # "ok"
           /\ TLCSet(42, Append(TLCGet(42), <<tid, l, EWhy>>))
           /\ l' = Len(Tr) + 2 /\ UNCHANGED <<tid, pc, cfg, cur, pos, lastn, calls, trunc>>
TNext == TAccept \/ TReject
TSpec == TInit /\ [][TNext]_<<pc, cfg, cur, pos, lastn, calls, trunc, tid, l>>
Done == (l = Len(Tr) + 1) => TLCSet(43, TLCGet(43) + 1)
Accepted ==
  /\ \A k \in 1..Len(TLCGet(42)) : PrintT(<<"REJECTED", TLCGet(42)[k][1], TLCGet(42)[k][2], TLCGet(42)[k][3]>>)
  /\ PrintT(<<"CONSUMED", TLCGet(43), Len(Traces)>>)
  /\ Len(TLCGet(42)) = 0
=============================================================================
