-------------------------------- MODULE CpApr -------------------------------
(***************************************************************************)
(* C11: Poisson CP (alternating Poisson regression: multiplicative update, *)
(* damped Newton, quasi-Newton).                                           *)
(*                                                                         *)
(* Control skeleton.  The weights ("mass") of the Kruskal model live       *)
(* either in the weight vector ("lambda") or, while mode n is being        *)
(* updated, in the columns of factor n:                                    *)
(*   Redistribute(n)  lambda -> n      Inner(n)  (at most MaxInner)        *)
(*   Normalize(n)     n -> lambda      EndOuter  one diagnostic entry      *)
(* An outer iteration visits the modes 0..N-1 in order.  The run stops     *)
(* after an outer iteration that converged or after MaxIters of them.      *)
(*                                                                         *)
(* Contract on the returned triple (observations recomputed independently) *)
(***************************************************************************)
EXTENDS Integers, Sequences, FiniteSets, SequencesExt, TLC

VARIABLES pc, outer, mode, inner, mass, kkt, prev

vars == <<pc, outer, mode, inner, mass, kkt, prev>>

Tol9 == 1000      \* 1e-6 relative, in units of 1e-9

\* obs: observations on (model, guess, info) of one run;  a: the call's options
ReturnWhy(a, o) ==
  IF o.st # "ok" THEN o.st
  ELSE IF ~o.rank_and_shape_ok THEN "rank-or-shape"
  ELSE IF ~o.nonneg THEN "negative-weight-or-factor-entry"
  ELSE IF o.obj_dev > Tol9 THEN "reported-objective-differs-from-recomputed-log-likelihood"
  ELSE IF o.kkt_len # o.outer_iters THEN "kkt-entries-differ-from-outer-iterations"
  ELSE IF ~o.kkt_nonneg THEN "negative-kkt-violation"
  ELSE IF o.outer_iters > a.maxiters THEN "iteration-limit-exceeded"
  ELSE IF o.inner_total > o.outer_iters * a.inner_bound THEN "inner-iteration-limit-exceeded"
  ELSE IF o.worse_than_start9 > Tol9 THEN "less-likely-than-the-starting-guess"
  ELSE IF ~o.data_untouched THEN "data-modified"
  ELSE IF ~o.init_untouched THEN "initial-guess-modified"
  ELSE "ok"

\* truncated runs: diagnostics of the run stopped after k outer iterations extend those after k-1
TruncWhy(k, kk) ==
  IF Len(kk) > k \/ Len(kk) = 0 THEN "truncated-run-diagnostics-length"
  ELSE IF prev.k > 0 /\ k = prev.k + 1 /\ ~IsPrefix(prev.kkt, kk) THEN "truncated-runs-not-prefix-consistent"
  \* fewer than k entries: the run converged earlier, so it is the previous truncation
  ELSE IF prev.k > 0 /\ k = prev.k + 1 /\ Len(kk) < k /\ kk # prev.kkt THEN "truncated-run-stopped-early-but-differs"
  ELSE "ok"

---------------------------------------------------------------------------
\* control skeleton (model-checked in CpApr_MC)
Init == pc = "outer" /\ outer = 0 /\ mode = 0 /\ inner = 0 /\ mass = "lambda" /\ kkt = <<>> /\ prev = [k |-> 0, kkt |-> <<>>]

Redistribute(N) == /\ pc = "outer" /\ mass = "lambda" /\ mode < N
                   /\ pc' = "inner" /\ mass' = mode /\ inner' = 0 /\ UNCHANGED <<outer, mode, kkt, prev>>
InnerStep(MaxInner) == /\ pc = "inner" /\ inner < MaxInner /\ inner' = inner + 1
                       /\ UNCHANGED <<pc, outer, mode, mass, kkt, prev>>
Normalize == /\ pc = "inner" /\ mass = mode /\ mass' = "lambda" /\ pc' = "outer" /\ mode' = mode + 1
             /\ UNCHANGED <<outer, inner, kkt, prev>>
EndOuter(N, MaxIters, viol) ==
  /\ pc = "outer" /\ mode = N /\ mass = "lambda" /\ outer < MaxIters
  /\ outer' = outer + 1 /\ kkt' = Append(kkt, viol) /\ mode' = 0
  /\ pc' = (IF viol = 0 \/ outer + 1 = MaxIters THEN "done" ELSE "outer")
  /\ UNCHANGED <<inner, mass, prev>>

ObserveReturn(a, o) == ReturnWhy(a, o) = "ok" /\ UNCHANGED vars
ObserveTrunc(k, kk) == TruncWhy(k, kk) = "ok" /\ prev' = [k |-> k, kkt |-> kk] /\ UNCHANGED <<pc, outer, mode, inner, mass, kkt>>

=============================================================================
