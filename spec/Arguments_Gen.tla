---------------------------- MODULE Arguments_Gen ---------------------------
(* (M)+(G) for Arguments: every helper on every form it is documented for *)
EXTENDS Arguments, Json
VARIABLES stim, done
vars == <<last, stim, done>>

I(n)  == [form |-> "int", v2 |-> 2 * n]
NI(n) == [form |-> "npint", v2 |-> 2 * n]
F(m)  == [form |-> "float", v2 |-> m]
Arr(dims, et, v2, sp) == [form |-> "array", dims |-> dims, et |-> et, v2 |-> v2, special |-> sp]
Seqs(f, items) == [form |-> f, items |-> items]

\* arrays: empty, 0-d, 1-d, row, column, matrix, 3-d with one / two non-trivial dimensions; integer, float (integral and
\* fractional values, inf, nan), boolean; positive, zero and negative entries
Lab(n, lo) == [k \in 1..n |-> 2 * (lo + k - 1)]
IntArrays ==
  {Arr(d, "int", Lab(Prod(d), lo), "none") :
     d \in {<<0>>, <<>>, <<1>>, <<3>>, <<1, 3>>, <<3, 1>>, <<2, 2>>, <<0, 2>>, <<1, 1>>, <<1, 3, 1>>, <<2, 1, 2>>, <<3, 1, 1>>},
     lo \in {1, 0, 0 - 1}}
OtherArrays ==
  {Arr(d, "float", Lab(Prod(d), 1), sp) : d \in {<<3>>, <<1, 3>>, <<2, 2>>, <<2, 1>>}, sp \in {"none", "inf", "nan"}}
  \cup {Arr(d, "float", [k \in 1..Prod(d) |-> 2 * k + 1], "none") : d \in {<<2>>, <<2, 1>>}}
  \cup {Arr(d, "bool", [k \in 1..Prod(d) |-> 2 * (k % 2)], "none") : d \in {<<2>>, <<2, 1>>, <<1, 2>>}}
Arrays == IntArrays \cup OtherArrays

Items == {I(2), I(0), I(0 - 1), NI(3), F(4), F(5)}
Sequences == {Seqs(f, its) : f \in {"list", "tuple"},
                              its \in {<<>>} \cup {<<x>> : x \in Items} \cup {<<x, y>> : x \in {I(2), NI(3), F(4), I(0)}, y \in Items}
                                      \cup {<<I(2), I(3), I(1)>>, <<I(2), NI(1), I(4)>>, <<I(2), I(3), F(5)>>}}
Scalars == {I(3), I(0), I(0 - 2), NI(4), NI(0), F(6), F(3)}
Keys == Scalars \cup {[form |-> "slice"]} \cup Arrays \cup {s \in Sequences : s.items # <<>>}
        \cup {[form |-> "nested", rows |-> <<<<0, 1>>, <<1, 2>>>>], [form |-> "nested", rows |-> <<<<1>>>>]}

Stimuli ==
  {[op |-> "sizecheck", a |-> a] : a \in {x \in Arrays : x.et # "bool" \/ Size(x) = 0} \cup Sequences}
  \cup {[op |-> o, a |-> a] : o \in {"subscheck", "valscheck"}, a \in Arrays}
  \cup {[op |-> o, a |-> a] : o \in {"isrow", "isvector"}, a \in Arrays}
  \cup {[op |-> "variant", a |-> a] : a \in Keys}
  \cup {[op |-> "parse_shape", a |-> a] : a \in {x \in Scalars : x.form # "float"} \cup Arrays \cup Sequences}
  \cup {[op |-> "parse_one_d", a |-> a] : a \in Scalars \cup {x \in Arrays : x.special = "none"} \cup Sequences}

Init == stim \in Stimuli /\ last = "none" /\ done = FALSE
Emit == /\ ~done
        /\ PrintT(ToJson([op |-> stim.op, a |-> stim.a, ret |-> Expected(stim.op, stim.a)]))
        /\ done' = TRUE /\ UNCHANGED <<stim, last>>
Next == Emit
Spec == Init /\ [][Next]_vars

\* (M) laws relating the helpers
\* a valid shape is exactly what parse_shape accepts with all entries positive (for the forms both take)
SizeVsParse == (stim.op = "sizecheck" /\ Size(stim.a) > 0 /\ SizeOk(stim.a)) =>
                 (ShapeOf(stim.a).st = "ok" /\ \A k \in 1..Len(ShapeOf(stim.a).shape) : ShapeOf(stim.a).shape[k] > 0)
\* rows are vectors; a column of values is a vector; what parse_one_d accepts among arrays are the scalars and vectors
RowIsVector == (stim.op = "isrow" /\ IsRow(stim.a)) => IsVector(stim.a)
ValsAreVectors == (stim.op = "valscheck" /\ Size(stim.a) > 0 /\ ValsOk(stim.a)) => IsVector(stim.a)
VectorsParse == (stim.op = "isvector" /\ IsVector(stim.a)) => VectorOf(stim.a).st = "ok"
\* a matrix of subscripts is never taken for a list of linear indices
SubsNotLinear == (stim.op = "variant" /\ stim.a.form = "array" /\ Len(stim.a.dims) = 2) => Variant(stim.a) = "SUBSCRIPTS"
=============================================================================
