-------------------------- MODULE ArrayHistory_Gen --------------------------
(* (M)+(G) configuration of ArrayHistory: histories of writes from one      *)
(* start tensor, each followed by a read-back through every read form.      *)
EXTENDS ArrayHistory, Json

CONSTANTS StartC,     \* "empty" | "zeros22" | "one11" | "lab22" | "lab23" | "lab222" | "lab3"
          D,          \* number of writes per history
          Alphabet    \* "small" (depth exhaustive) | "full" (every key form) | "medium" (walks)

VARIABLES hist, init0
vars == <<A, hist, init0>>

Start ==
  CASE StartC = "empty"   -> [shape |-> <<>>, v |-> <<0>>]
    [] StartC = "zeros22" -> ZerosD(<<2, 2>>)
    [] StartC = "one11"   -> [shape |-> <<1, 1>>, v |-> <<5>>]
    [] StartC = "lab22"   -> LabelD(<<2, 2>>)
    [] StartC = "lab23"   -> [shape |-> <<2, 3>>, v |-> <<1, 0, 3, 4, 0, 6>>]
    [] StartC = "lab222"  -> [shape |-> <<2, 2, 2>>, v |-> <<1, 2, 0, 4, 5, 0, 7, 8>>]
    [] StartC = "lab3"    -> [shape |-> <<3>>, v |-> <<1, 0, 3>>]

\* key elements for one mode
FullElems == {KInt(0), KInt(1), KInt(2), KInt(0 - 1), KSlice(0 - 1, 0 - 1), KSlice(0, 1), KSlice(1, 0 - 1),
              KSlice(0 - 1, 3), KSlice(1, 3), KList(<<0, 1>>), KList(<<1, 0>>), KList(<<0, 2>>), KStep(0 - 1, 0 - 1, 2), KStep(1, 0 - 1, 2)}
MedElems  == {KInt(0), KInt(2), KInt(0 - 1), KSlice(0 - 1, 0 - 1), KSlice(0, 1), KSlice(0 - 1, 3), KList(<<1, 0>>), KStep(0 - 1, 0 - 1, 2)}
GrowElems == {KInt(0), KInt(1), KSlice(0, 2)}          \* last element of a key that adds a mode

Tuples(S, n) == [1..n -> S]
RegionKeys(X, elems) ==
  LET n == Len(X.shape)
  IN  (IF n >= 1 THEN Tuples(elems, n) ELSE {})
      \cup (IF n < 3 THEN {k \o <<g>> : k \in Tuples(elems \cap MedElems, n), g \in GrowElems} ELSE {})

Block(sh, z) == DenseObj([shape |-> sh, v |-> [k \in 1..Prod(sh) |-> IF z /\ k = 1 THEN 0 ELSE 10 + k]])
Rhss(X, key) == {ScalarObj(5), ScalarObj(0)}
                \cup (IF RegionShape(X, key) # <<>> /\ Prod(RegionShape(X, key)) >= 1
                      THEN {Block(RegionShape(X, key), FALSE), Block(RegionShape(X, key), TRUE)} ELSE {})

RegionWrites(X, elems) ==
  UNION {{[op |-> "set_region", args |-> [key |-> k, rhs |-> r]] : r \in Rhss(X, k)} :
         k \in {k \in RegionKeys(X, elems) : KeyOk(X, k) /\ Prod(RegionShape(X, k)) >= 1
                                               /\ \A m \in 1..Len(k) : Needed(k[m], PadShape(X.shape, Len(k))[m]) <= 4}}

\* subscript batches over a small pool of positions (existing, new, growing)
PoolSubs(n) == {[m \in 1..n |-> 0], [m \in 1..n |-> 1], [m \in 1..n |-> IF m = 1 THEN 0 ELSE 1],
                [m \in 1..n |-> 2], [m \in 1..n |-> IF m = 1 THEN 2 ELSE 0]}
SubsBatches(X) ==
  LET n == Len(X.shape)
      P == IF n >= 1 THEN PoolSubs(n) ELSE {}
      G == IF n < 3 THEN {<<[m \in 1..(n + 1) |-> IF m = n + 1 THEN 1 ELSE 0]>>,
                          <<[m \in 1..(n + 1) |-> 0], [m \in 1..(n + 1) |-> 1]>>} ELSE {}
  IN  {<<p>> : p \in P} \cup {pq \in P \X P : pq[1] # pq[2]} \cup G
ValsFor(len) == IF len = 1 THEN {<<7>>, <<0>>}
                ELSE IF len = 2 THEN {<<7, 7>>, <<0, 6>>, <<4, 0>>, <<0, 0>>}
                ELSE {[k \in 1..len |-> 7]}
SubsWrites(X, few) ==
  UNION {{[op |-> "set_subs", args |-> [subs |-> b, vals |-> v, scalar |-> (Range(v) = {7})]] : v \in ValsFor(Len(b))} :
         b \in (IF few THEN {b \in SubsBatches(X) : Len(b) = 2 \/ b[1][1] = 2} ELSE SubsBatches(X))}

LinWrites(X) ==
  IF Len(X.shape) = 0 THEN {}
  ELSE LET n == Size(X)
           bs == {<<0>>, <<n - 1>>} \cup (IF n >= 3 THEN {<<0, n - 1>>, <<n - 1, 1>>} ELSE {})
       IN  UNION {{[op |-> "set_linear", args |-> [idx |-> b, vals |-> v, scalar |-> (Range(v) = {7})]] :
                   v \in ValsFor(Len(b))} : b \in bs}

\* a dozen writes that exercise every code path once (depth-exhaustive alphabet)
SmallWrites(X) ==
  LET n == Len(X.shape)
      all == KSlice(0 - 1, 0 - 1)
      key(f, rest) == [m \in 1..n |-> IF m = 1 THEN f ELSE rest]
      W(k, r) == [op |-> "set_region", args |-> [key |-> k, rhs |-> r]]
  IN  IF n = 0 THEN {W(<<KInt(0), KInt(1)>>, ScalarObj(5)), W(<<KSlice(0, 2)>>, ScalarObj(5)),
                     [op |-> "set_subs", args |-> [subs |-> <<<<1, 0>>>>, vals |-> <<7>>, scalar |-> TRUE]]}
      ELSE {W(key(KInt(0), all), ScalarObj(5)),
            W(key(all, KInt(0 - 1)), ScalarObj(0)),
            W(key(KInt(2), KInt(0)), ScalarObj(5)),
            W(key(KSlice(0, 1), KSlice(0 - 1, 3)), ScalarObj(5)),
            W(key(KList(<<1, 0>>), KInt(0)), Block(RegionShape(X, key(KList(<<1, 0>>), KInt(0))), TRUE)),
            W(key(KSlice(0, 1), all), Block(RegionShape(X, key(KSlice(0, 1), all)), FALSE)),
            \* strided regions: a scalar, zero, and a block that mixes zero and nonzero
            W(key(KStep(0 - 1, 0 - 1, 2), all), ScalarObj(5)),
            W(key(all, KStep(1, 0 - 1, 2)), ScalarObj(0))}
           \cup (IF Prod(RegionShape(X, key(KStep(0 - 1, 0 - 1, 2), KStep(0 - 1, 0 - 1, 2)))) >= 1
                 THEN {W(key(KStep(0 - 1, 0 - 1, 2), KStep(0 - 1, 0 - 1, 2)),
                         Block(RegionShape(X, key(KStep(0 - 1, 0 - 1, 2), KStep(0 - 1, 0 - 1, 2))), TRUE))} ELSE {})
           \cup (IF n < 3 THEN {W(key(KInt(0), KInt(0)) \o <<KInt(1)>>, ScalarObj(5))} ELSE {})
           \cup {[op |-> "set_subs", args |-> [subs |-> <<[m \in 1..n |-> 0], [m \in 1..n |-> 1]>>, vals |-> <<0, 6>>, scalar |-> FALSE]],
                 [op |-> "set_subs", args |-> [subs |-> <<[m \in 1..n |-> 2]>>, vals |-> <<7>>, scalar |-> TRUE]],
                 [op |-> "set_subs", args |-> [subs |-> <<[m \in 1..n |-> IF m = 1 THEN 2 ELSE 0], [m \in 1..n |-> IF m = 1 THEN 0 ELSE 1]>>,
                                              vals |-> <<7, 7>>, scalar |-> TRUE]],
                 [op |-> "set_subs", args |-> [subs |-> <<[m \in 1..n |-> 1], [m \in 1..n |-> 0]>>, vals |-> <<4, 0>>, scalar |-> FALSE]]}
           \cup {w \in LinWrites(X) : (w.args.vals = <<4, 0>> /\ w.args.idx[1] = 0) \/ (w.args.vals = <<0>> /\ w.args.idx[1] # 0)}

\* admissibility of a generated write (preconditions of the specification)
WriteOkSpec(X, w) ==
  CASE w.op = "set_region" -> KeyOk(X, w.args.key)
                              /\ (w.args.rhs.kind = "scalar" \/ w.args.rhs.shape = RegionShape(X, w.args.key))
    [] w.op = "set_subs"   -> SubsOk(X, w.args.subs)
    [] w.op = "set_linear" -> LinOk(X, w.args.idx)

Writes(X) ==
  {w \in (CASE Alphabet = "small"  -> SmallWrites(X)
            [] Alphabet = "full"   -> RegionWrites(X, FullElems) \cup SubsWrites(X, FALSE) \cup LinWrites(X)
            [] Alphabet = "medium" -> RegionWrites(X, MedElems) \cup SubsWrites(X, TRUE) \cup LinWrites(X)) :
     WriteOkSpec(X, w)}

\* the read-back after the last write: every read form
ReadBack(X) ==
  LET n == Len(X.shape)
      all == KSlice(0 - 1, 0 - 1)
      R(op, a) == [op |-> op, args |-> a]
      allsubs == [k \in 1..Size(X) |-> Unlin(X.shape, k - 1)]
      lin == [k \in 1..Size(X) |-> k - 1]
  IN  IF n = 0 THEN <<>>
      ELSE SelectSeq(
           <<R("get_subs", [subs |-> RevSeq(allsubs)]),
             R("get_subs", [subs |-> <<allsubs[1]>>]),
             \* one read may name a position more than once (the value is returned once per request)
             R("get_subs", [subs |-> <<allsubs[Size(X)], allsubs[1], allsubs[Size(X)]>>]),
             R("get_linear", [idx |-> <<Size(X) - 1, 0, Size(X) - 1>>, form |-> "list"]),
             R("linear_beyond", [idx |-> <<Size(X)>>]),
             R("get_linear", [idx |-> lin, form |-> "list"]),
             R("get_linear", [idx |-> RevSeq(lin), form |-> "list"]),
             R("get_linear", [idx |-> lin, form |-> "slice"]),
             R("get_linear", [idx |-> RevSeq(lin), form |-> "slice"]),        \* the linear slice with step -1
             R("get_linear", [idx |-> <<Size(X) - 1>>, form |-> "int"]),
             R("get_region", [key |-> [m \in 1..n |-> all]]),
             R("get_region", [key |-> [m \in 1..n |-> IF m = 1 THEN KInt(0) ELSE all]]),
             R("get_region", [key |-> [m \in 1..n |-> IF m = n THEN KInt(0 - 1) ELSE all]]),
             R("get_region", [key |-> [m \in 1..n |-> KInt(0 - 1)]]),
             R("get_region", [key |-> [m \in 1..n |-> IF m = 1 THEN KSlice(0, 1) ELSE KSlice(0 - 1, X.shape[m])]]),
             R("get_region", [key |-> [m \in 1..n |-> IF m = 1 THEN KStep(0 - 1, 0 - 1, 2) ELSE all]]),
             R("get_region", [key |-> [m \in 1..n |-> IF m = n THEN KStep(1, 0 - 1, 2) ELSE KStep(0 - 1, 0 - 1, 2)]]),
             R("get_region", [key |-> [m \in 1..n |-> IF m = 1 THEN (IF X.shape[1] >= 2 THEN KList(<<X.shape[1] - 1, 0>>)
                                                                     ELSE KList(<<0>>)) ELSE all]])>>,
           LAMBDA r : r.op # "get_region" \/ ReadKeyOk(X, r.args.key))

ExpHolder(E) == [st |-> "ok", obj |-> DenseObj(E)]
Ev(w, X2) == [op |-> w.op, args |-> w.args, post |-> X2]

Init == /\ A = Start /\ init0 = Start /\ hist = <<>>

GWrite == /\ Len(hist) < D
          /\ \E w \in Writes(A) :
               LET X2 == NextA(A, w.op, w.args)
                   ret == [dense |-> ExpHolder(X2), sparse |-> ExpHolder(X2)]
               IN  /\ Write(w.op, w.args, ret)
                   /\ hist' = Append(hist, Ev(w, X2))
          /\ UNCHANGED init0

Live == A.shape # <<99>>
Finish == /\ Live /\ Len(hist) = D
          /\ PrintT(ToJson([init |-> init0, ev |-> hist, reads |-> ReadBack(A), final |-> A]))
          /\ A' = [shape |-> <<99>>, v |-> <<>>]
          /\ UNCHANGED <<hist, init0>>

Next == GWrite \/ Finish
Spec == Init /\ [][Next]_vars

---------------------------------------------------------------------------
\* (M) properties of the abstract array itself

TypeOK == ~Live \/ (Len(A.v) = Prod(A.shape) /\ \A m \in 1..Len(A.shape) : A.shape[m] >= 1)

\* last write wins, every other position keeps its value, growth pads with zeros
\* (action property, checked on every transition)
Frame ==
  [][ (Live' /\ Len(hist') = Len(hist) + 1) =>
        LET w == hist'[Len(hist')]
            ns == A'.shape
        IN  /\ \A m \in 1..Len(A.shape) : ns[m] >= A.shape[m]              \* never shrinks
            /\ Len(ns) >= Len(A.shape)
            /\ w.op = "set_subs" =>
                 /\ \A k \in 1..Len(w.args.subs) : At(A', w.args.subs[k]) = w.args.vals[k]
                 /\ \A i \in Idx(ns) : (\A k \in 1..Len(w.args.subs) : w.args.subs[k] # i)
                                          => At(A', i) = AtPadded(A, i)
            /\ w.op = "set_linear" =>
                 /\ ns = A.shape
                 /\ \A k \in 1..Len(w.args.idx) : A'.v[w.args.idx[k] + 1] = w.args.vals[k]
                 /\ \A c \in 1..Len(A.v) : (\A k \in 1..Len(w.args.idx) : w.args.idx[k] # c - 1) => A'.v[c] = A.v[c]
            /\ w.op = "set_region" =>
                 LET s0 == PadShape(A.shape, Len(w.args.key))
                     inR(i) == \A m \in 1..Len(i) : i[m] \in Range(IdxSeq(w.args.key[m], s0[m]))
                 IN  /\ \A i \in Idx(ns) : ~inR(i) => At(A', i) = AtPadded(A, i)
                     /\ w.args.rhs.kind = "scalar" => \A i \in Idx(ns) : inR(i) => At(A', i) = w.args.rhs.val
                     /\ RegionRead(A', [m \in 1..Len(ns) |->
                                          IF w.args.key[m].t = "i"
                                            THEN KInt(IdxSeq(w.args.key[m], s0[m])[1])
                                            ELSE KList(IdxSeq(w.args.key[m], s0[m]))]).v
                          = (IF w.args.rhs.kind = "scalar"
                               THEN [k \in 1..Prod(RegionShape(A, w.args.key)) |-> w.args.rhs.val]
                               ELSE w.args.rhs.v)
    ]_vars

\* reads are consistent with each other: region read of everything = the array; linear = F order
ReadLaws == (~Live \/ Len(A.shape) = 0) \/
  /\ RegionRead(A, [m \in 1..Len(A.shape) |-> KSlice(0 - 1, 0 - 1)]) = A
  /\ LinRead(A, [k \in 1..Size(A) |-> k - 1]) = A.v
  /\ SubsRead(A, [k \in 1..Size(A) |-> Unlin(A.shape, k - 1)]) = A.v

=============================================================================
