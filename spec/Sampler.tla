------------------------------- MODULE Sampler ------------------------------
(***************************************************************************)
(* C13 (samplers): what a valid sample of a data tensor is.                *)
(*                                                                         *)
(* The data tensor is a dense integer array `data` (F-order, by linear     *)
(* index) of shape `shape`; sparse holders denote the same array.  A       *)
(* sample is a triple (subs, vals, wgts); weights are logged in units of   *)
(* 1e-6.  `nzpart` = number of leading draws made from the nonzero         *)
(* stratum (stratified / semi-stratified kinds), 0 for uniform.            *)
(***************************************************************************)
EXTENDS Shapes, TLC

Tol6 == 20         \* tolerance on weight totals (units of 1e-6)

NNZ(data)    == Cardinality({k \in 1..Len(data) : data[k] # 0})
At(a, s)     == a.data[Lin(a.shape, s) + 1]
Abs(x)       == IF x < 0 THEN 0 - x ELSE x
CeilDiv(x, y) == (x + y - 1) \div y
SumW(w, lo, hi) == SumSeq([k \in 1..(hi - lo + 1) |-> w[lo + k - 1]])

\* a: [kind, shape, data, nz_req, z_req]   (uniform: nz_req = number of samples, z_req = 0)
\* r: [st, subs, vals, w6, nzpart]
SampleWhy(a, r) ==
  LET n == Len(r.subs)  total == Prod(a.shape)  nnz == NNZ(a.data) IN
  IF r.st # "ok" THEN
     \* a clean refusal is allowed only when the request cannot be served at all
     IF a.kind # "uniform" /\ ((a.nz_req > 0 /\ nnz = 0) \/ (a.z_req > 0 /\ nnz = total)) THEN "ok"
     \* the zero sampler without replacement documents that it gives up when the request is large against the supply
     ELSE IF a.kind = "zeros" /\ ~a.repl /\ (a.z_req > total - nnz \/ CeilDiv(a.z_req * total, total - nnz) >= total) THEN "ok"
     ELSE r.st
  ELSE IF Len(r.vals) # n THEN "one-value-per-sample"
  ELSE IF Len(r.w6) # n THEN "one-weight-per-sample"
  ELSE IF \E j \in 1..n : ~InShape(a.shape, r.subs[j]) THEN "subscript-outside-the-tensor"
  ELSE IF a.kind = "zeros" THEN      \* the bare zero sampler: subscripts only (a.repl: with replacement)
       IF n > a.z_req THEN "more-zero-samples-than-requested"
       ELSE IF \E j \in 1..n : At(a, r.subs[j]) # 0 THEN "zero-draw-is-a-stored-nonzero"
       ELSE IF ~a.repl /\ \E i, j \in 1..n : i < j /\ r.subs[i] = r.subs[j] THEN "repeated-draw-without-replacement"
       ELSE "ok"
  ELSE IF a.kind = "uniform" THEN
       IF n # a.nz_req THEN "sample-count"
       ELSE IF \E j \in 1..n : r.vals[j] # At(a, r.subs[j]) THEN "value-differs-from-data"
       ELSE IF n > 0 /\ Abs(SumW(r.w6, 1, n) - total * 1000000) > Tol6 THEN "weights-do-not-total-the-entries-represented"
       ELSE "ok"
  ELSE \* stratified / semistrat: nonzero stratum first
       IF r.nzpart # a.nz_req THEN "nonzero-sample-count"
       ELSE IF n - r.nzpart > a.z_req THEN "more-zero-samples-than-requested"
       ELSE IF \E j \in 1..r.nzpart : r.vals[j] = 0 \/ r.vals[j] # At(a, r.subs[j]) THEN "nonzero-draw-differs-from-data"
       ELSE IF \E j \in (r.nzpart + 1)..n : r.vals[j] # 0 THEN "zero-draw-with-nonzero-value"
       \* stratified zero draws are true zeros; semi-stratified zero draws are unconfirmed by definition
       \* (the estimator corrects them through the correction range)
       ELSE IF a.kind = "stratified" /\ \E j \in (r.nzpart + 1)..n : At(a, r.subs[j]) # 0 THEN "zero-draw-is-a-stored-nonzero"
       ELSE IF r.nzpart > 0 /\ Abs(SumW(r.w6, 1, r.nzpart) - nnz * 1000000) > Tol6 THEN "nonzero-weights-do-not-total-the-nonzeros"
       ELSE IF n > r.nzpart /\ a.kind = "stratified" /\ Abs(SumW(r.w6, r.nzpart + 1, n) - (total - nnz) * 1000000) > Tol6
            THEN "zero-weights-do-not-total-the-zeros"
       ELSE IF n > r.nzpart /\ a.kind = "semistrat" /\ Abs(SumW(r.w6, r.nzpart + 1, n) - total * 1000000) > Tol6
            THEN "zero-weights-do-not-total-the-entries"
       ELSE "ok"

Sample(a, r) == SampleWhy(a, r) = "ok"

\* ------------------------------------------------------------------ laws (checked by TLC in Sampler_Gen)
\* a canonical valid sample exists for every serviceable request: first nz_req nonzeros cyclically, first z_req zeros
NzIdx(a)  == SortSet({k \in 0..(Len(a.data) - 1) : a.data[k + 1] # 0})
ZIdx(a)   == SortSet({k \in 0..(Len(a.data) - 1) : a.data[k + 1] = 0})
Canon(a)  ==
  LET nzi == NzIdx(a)  zi == ZIdx(a)
      nzs == IF a.kind = "uniform" THEN [j \in 1..a.nz_req |-> (j - 1) % Len(a.data)]
             ELSE [j \in 1..a.nz_req |-> nzi[((j - 1) % Len(nzi)) + 1]]
      zs  == IF a.kind = "uniform" \/ Len(zi) = 0 THEN <<>> ELSE [j \in 1..a.z_req |-> zi[((j - 1) % Len(zi)) + 1]]
      all == nzs \o zs
      wn  == IF a.kind = "uniform" THEN (Len(a.data) * 1000000) \div Max2(1, a.nz_req) ELSE (Len(nzi) * 1000000) \div Max2(1, a.nz_req)
      wz  == IF a.kind = "semistrat" THEN (Len(a.data) * 1000000) \div Max2(1, Len(zs)) ELSE (Len(zi) * 1000000) \div Max2(1, Len(zs))
  IN [st |-> "ok", subs |-> [j \in 1..Len(all) |-> Unlin(a.shape, all[j])],
      vals |-> [j \in 1..Len(all) |-> IF j <= Len(nzs) THEN a.data[all[j] + 1] ELSE 0],
      w6 |-> [j \in 1..Len(all) |-> IF j <= Len(nzs) THEN wn ELSE wz],
      nzpart |-> IF a.kind = "uniform" THEN 0 ELSE Len(nzs)]
=============================================================================
