------------------------------ MODULE Products ------------------------------
(***************************************************************************)
(* C02: multilinear products equal their definition by explicit sums over  *)
(* indices, in every representation.  The receiver `obj` is never changed  *)
(* by a product; each action takes the call's arguments and the result     *)
(* `res` and is enabled iff res denotes the defined value.  The KIND of a  *)
(* tensor-valued result (dense / sparse / Kruskal / Tucker / sum / plain   *)
(* array) is deliberately not specified: only its denotation is.           *)
(***************************************************************************)
EXTENDS Objects, TLC

VARIABLE obj

TensorKinds == {"dense", "sparse", "ktensor", "ttensor", "sum"}
Ones(n) == [k \in 1..n |-> 1]

\* 2-way dense denotation of a matrix, and of a sequence of them
MD(A) == MatToD(A)

---------------------------------------------------------------------------
\* the defined value of every product, as a dense denotation (shape <<>> = scalar)

SelOf(N, a)  == DimsSel(N, a.dims, a.excl)
VidxOf(N, M, a) ==
  LET sd == SelOf(N, a)
  IN  IF M = Len(sd)
        THEN (IF a.excl THEN [k \in 1..Len(sd) |-> k - 1]
              ELSE [k \in 1..Len(sd) |-> (CHOOSE j \in 1..Len(a.dims) : a.dims[j] = sd[k]) - 1])
        ELSE sd

ProdFn(o, op, a) ==
  LET X == DenObj(o)
      N == Len(X.shape)
  IN  CASE op = "ttv"  -> Ttv(X, a.vecs, SelOf(N, a), VidxOf(N, Len(a.vecs), a))
        [] op = "ttm"  -> Ttm(X, a.mats, SelOf(N, a), VidxOf(N, Len(a.mats), a), a.transp)
        [] op = "mttkrp" -> MD(Mttkrp(X, a.U, a.w, a.n))
        [] op = "ttt"  -> Ttt(X, DenObj(a.other), a.xd, a.yd)
        [] op = "ttsv" -> LET sd == UpTo(a.skip + 1, N - 1)
                          IN  Ttv(X, [k \in 1..N |-> a.vec], sd, sd)
        [] op = "innerprod" -> [shape |-> <<>>, v |-> <<InnerD(X, DenObj(a.other))>>]
        [] op = "normsq"    -> [shape |-> <<>>, v |-> <<NormSqD(X)>>]
        [] op = "contract"  -> Contract(X, a.a, a.b)
        [] op = "collapse"  -> Collapse(X, SortSet(Range(a.dims)), a.red)
        [] op = "scale"     -> Scale(X, DenObj(a.F), SortSet(Range(a.dims)))
        [] op = "mask"      -> LET ws == IF a.W.kind = "sparse" THEN a.W.subs
                                         ELSE ToSparse(DenObj(a.W)).subs
                               IN  [shape |-> <<Len(ws)>>, v |-> [k \in 1..Len(ws) |-> At(X, ws[k])]]
        [] op = "reconstruct" ->
             \* Tucker only: factor k replaced by S_k * U_k (sample matrix) or by selected rows
             FullT([o EXCEPT !.U = [k \in 1..Len(o.U) |->
                      IF \E j \in 1..Len(a.modes) : a.modes[j] = k - 1
                        THEN LET s == a.samples[CHOOSE j \in 1..Len(a.modes) : a.modes[j] = k - 1]
                             IN  IF s.kind = "rows"
                                   THEN [r \in 1..Len(s.idx) |-> o.U[k][s.idx[r] + 1]]
                                   ELSE MatMul(s.m, o.U[k])
                        ELSE o.U[k]]])

\* mttkrps: all modes at once = one mode at a time
MttkrpsFn(o, a) == [n \in 1..NDimsObj(o) |-> Mttkrp(DenObj(o), a.U, a.w, n - 1)]

Pre(o, op, a) ==
  LET s == ShapeObj(o)
      N == Len(s)
  IN  CASE op \in {"ttv", "ttm"} ->
             LET M  == IF op = "ttv" THEN Len(a.vecs) ELSE Len(a.mats)
                 sd == SelOf(N, a)
             IN  /\ IsInj(a.dims) /\ \A k \in 1..Len(a.dims) : a.dims[k] \in 0..(N - 1)
                 /\ (M = N \/ M = Len(sd))
                 /\ sd # <<>>
        [] op = "mttkrp" -> N >= 2 /\ a.n \in 0..(N - 1)
        [] op = "mttkrps" -> N >= 2
        [] op = "ttt" -> Sub(s, a.xd) = Sub(ShapeObj(a.other), a.yd) /\ IsInj(a.xd) /\ IsInj(a.yd)
        [] op = "ttsv" -> \A m \in 1..N : s[m] = s[1]
        [] op = "innerprod" -> ShapeObj(a.other) = s
        [] op = "contract" -> a.a # a.b /\ s[a.a + 1] = s[a.b + 1]
        [] op = "scale" -> ShapeObj(a.F) = Sub(s, SortSet(Range(a.dims)))
        [] op = "mask" -> ShapeObj(a.W) = s
        [] OTHER -> TRUE

---------------------------------------------------------------------------
\* admissible results

\* res against the defined dense denotation E
ValueWhy(res, E) ==
  IF E.shape = <<>>
    THEN (IF res.kind # "scalar" THEN "result-kind"
          ELSE IF res.val # E.v[1] THEN "value" ELSE "ok")
  ELSE IF res.kind = "array"
    THEN (IF NonSingleton(res.shape) # NonSingleton(E.shape) THEN "shape"
          ELSE IF res.v # E.v THEN "value" ELSE "ok")
  ELSE IF res.kind \in TensorKinds
    THEN (IF WhyWF(res, FALSE) # "ok" THEN WhyWF(res, FALSE)
          ELSE IF ShapeObj(res) # E.shape THEN "shape"
          ELSE IF DenObj(res) # E THEN "value" ELSE "ok")
  ELSE "result-kind"

ProdWhy(o, op, a, res) ==
  IF ~Pre(o, op, a) THEN "precondition"
  \* a product is a pure function of its operands: the harness reports a receiver whose arrays differ after the call
  ELSE IF res.kind = "receiver-changed" THEN "receiver-changed-by-the-call"
  ELSE IF op = "mttkrps"
    THEN (IF res.kind # "matrices" THEN "result-kind"
          ELSE IF Len(res.ms) # NDimsObj(o) THEN "length"
          ELSE IF res.ms # MttkrpsFn(o, a) THEN "value" ELSE "ok")
  ELSE ValueWhy(res, ProdFn(o, op, a))

EventWhy(o, ev) == ProdWhy(o, ev.op, ev.args, ev.ret)

\* the action: a product call observed on the current object; obj is unchanged
Product(op, a, res) == ProdWhy(obj, op, a, res) = "ok" /\ UNCHANGED obj

=============================================================================
