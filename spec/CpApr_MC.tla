------------------------------ MODULE CpApr_MC ------------------------------
(* (M) the control skeleton for N <= 3, MaxIters <= 3, MaxInner <= 2, with   *)
(* every convergence outcome (kkt violation 0 = converged, 1 = not).         *)
EXTENDS CpApr
CONSTANTS N, MaxIters, MaxInner
MCNext == Redistribute(N) \/ InnerStep(MaxInner) \/ Normalize \/ (\E v \in 0..1 : EndOuter(N, MaxIters, v))
MCSpec == Init /\ [][MCNext]_vars
\* mass discipline: the weights are in lambda whenever no mode is being updated, and in exactly the
\* mode being updated otherwise
MassDiscipline == (pc \in {"outer", "done"} => mass = "lambda") /\ (pc = "inner" => mass = mode)
\* one diagnostic entry per completed outer iteration; limits respected
Counting == Len(kkt) = outer /\ outer <= MaxIters /\ inner <= MaxInner /\ mode <= N
Termination == pc = "done" => (outer = MaxIters \/ kkt[Len(kkt)] = 0)
=============================================================================
