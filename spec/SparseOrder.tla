----------------------------- MODULE SparseOrder ----------------------------
(***************************************************************************)
(* C06: every sparse result is well formed, and every sparse operation is  *)
(* independent of the order in which its operands store their nonzeros.    *)
(* One event = one public operation applied to the SAME abstract operands  *)
(* presented in several stored orders; it carries the result obtained for  *)
(* each presentation.  The operation itself is uninterpreted here (its     *)
(* value is decided by Products / Elementwise / Convert / IndexMaps): this *)
(* module states only well-formedness and order independence.              *)
(***************************************************************************)
EXTENDS Objects, TLC

CONSTANT StrictOps      \* operations that combine or filter entries: no explicit zero may remain

VARIABLE last

\* denotation with string-valued entries: absent entries are "0/1"
DenStr(S) == MkD(S.shape, LAMBDA i :
               IF \E k \in 1..Len(S.subs) : S.subs[k] = i
                 THEN S.vals[CHOOSE k \in 1..Len(S.subs) : S.subs[k] = i]
                 ELSE "0/1")

IsSp(r) == r.kind \in {"sparse", "sptenmat"}

\* well-formedness of one result (C06 first half)
ResultWFWhy(op, r) ==
  \* values are logged as strings "n/d" | "nan" | "inf" | "-inf" (uniformly typed)
  IF ~IsSp(r) THEN "ok"
  ELSE IF WhyWF(r, FALSE) # "ok" THEN WhyWF(r, FALSE)
  ELSE IF op \in StrictOps /\ \E k \in 1..Len(r.vals) : r.vals[k] = "0/1" THEN "explicit-zero"
  ELSE IF r.nnz # Len(r.subs) THEN "reported-nnz"
  ELSE "ok"

\* two results of the same call on re-ordered operands denote the same thing
SameResult(a, b) ==
  IF a.kind # b.kind THEN FALSE
  ELSE IF a.kind = "sparse" THEN a.shape = b.shape /\ DenStr(AsS(a)) = DenStr(AsS(b))
  ELSE IF a.kind = "sptenmat"
    THEN a.tshape = b.tshape /\ a.rdims = b.rdims /\ a.cdims = b.cdims
         /\ DenStr(SptenmatAsS(a)) = DenStr(SptenmatAsS(b))
  ELSE a = b

RECURSIVE FirstBad(_, _, _)
FirstBad(op, rets, k) ==
  IF k > Len(rets) THEN "ok"
  ELSE IF rets[k].kind \in {"raised", "inexact", "other"} THEN rets[k].kind
  ELSE IF ResultWFWhy(op, rets[k]) # "ok" THEN ResultWFWhy(op, rets[k])
  ELSE FirstBad(op, rets, k + 1)

\* a call that is rejected (raises) under EVERY presentation is order independent; whether it
\* should have been answered is decided by the properties that own the operation
AllRaised(rets) == \A k \in 1..Len(rets) : rets[k].kind = "raised"

OrderWhy(op, orders, rets) ==
  IF Len(rets) # Len(orders) THEN "missing-results"
  ELSE IF AllRaised(rets) THEN "ok"
  ELSE IF FirstBad(op, rets, 1) # "ok" THEN FirstBad(op, rets, 1)
  ELSE IF \E k \in 2..Len(rets) : ~SameResult(rets[1], rets[k]) THEN "order-dependent-result"
  ELSE "ok"

EventWhy(ev) == OrderWhy(ev.op, ev.args.orders, ev.ret.rets)

\* the action: the call observed under all the listed presentations of its operands
Observe(op, orders, rets) == OrderWhy(op, orders, rets) = "ok" /\ last' = [op |-> op, n |-> Len(rets)]

=============================================================================
