------------------------------ MODULE Requests ------------------------------
(***************************************************************************)
(* C19: ill-formed requests are rejected, not answered.                    *)
(* Every operation family has a precondition Pre(fam, a) written as a set  *)
(* of named clauses over the SHAPE-LEVEL description `a` of the call       *)
(* (shapes, mode lists, lengths, column counts).  A request is ill formed  *)
(* iff some clause fails.  Actions:                                        *)
(*   Answer(fam, a, res)  enabled iff all clauses hold and the call        *)
(*                        returned                                         *)
(*   Reject(fam, a, res)  enabled iff some clause fails, the call raised   *)
(*                        and the receiver / operands are unchanged        *)
(***************************************************************************)
EXTENDS Shapes, TLC

VARIABLE last

N_(a) == Len(a.shape)
InRange(d, n) == d \in 0..(n - 1)

\* the clauses of each family: a function name -> BOOLEAN
Clauses(fam, a) ==
  CASE fam = "ttv" ->       \* a: shape, dims, vlen (vector lengths, one per listed dim or one per mode)
         [dims_in_range |-> \A k \in 1..Len(a.dims) : a.dims[k] < N_(a),
          dims_nonneg   |-> \A k \in 1..Len(a.dims) : a.dims[k] >= 0,
          dims_distinct |-> IsInj(a.dims),
          count         |-> Len(a.vlen) \in {Len(a.dims), N_(a)},
          lengths       |-> \A k \in 1..Len(a.dims) :
                              (InRange(a.dims[k], N_(a)) /\ Len(a.vlen) \in {Len(a.dims), N_(a)}) =>
                                a.vlen[IF Len(a.vlen) = Len(a.dims) THEN k ELSE a.dims[k] + 1] = a.shape[a.dims[k] + 1]]
    [] fam = "ttm" ->       \* a: shape, dims, mcols (the size each matrix expects of its mode), transp
         [dims_in_range |-> \A k \in 1..Len(a.dims) : a.dims[k] < N_(a),
          dims_nonneg   |-> \A k \in 1..Len(a.dims) : a.dims[k] >= 0,
          dims_distinct |-> IsInj(a.dims),
          count         |-> Len(a.mcols) \in {Len(a.dims), N_(a)},
          sizes         |-> \A k \in 1..Len(a.dims) :
                              (InRange(a.dims[k], N_(a)) /\ Len(a.mcols) \in {Len(a.dims), N_(a)}) =>
                                a.mcols[IF Len(a.mcols) = Len(a.dims) THEN k ELSE a.dims[k] + 1] = a.shape[a.dims[k] + 1]]
    [] fam = "mttkrp" ->    \* a: shape, n, rows (row count of each factor), cols (column count of each factor)
         [mode_in_range |-> InRange(a.n, N_(a)),
          list_length   |-> Len(a.rows) = N_(a),
          common_cols   |-> \A j, k \in 1..Len(a.cols) : (j # a.n + 1 /\ k # a.n + 1) => a.cols[j] = a.cols[k],
          row_counts    |-> \A k \in 1..Min2(Len(a.rows), N_(a)) : k # a.n + 1 => a.rows[k] = a.shape[k]]
    [] fam = "permute" ->   \* a: shape, order
         [length   |-> Len(a.order) = N_(a),
          in_range |-> \A k \in 1..Len(a.order) : InRange(a.order[k], N_(a)),
          distinct |-> IsInj(a.order)]
    [] fam = "reshape" ->   \* a: shape, target
         [count |-> Prod(a.target) = Prod(a.shape)]
    [] fam = "sameshape" -> \* a: shape, other
         [same_shape |-> a.other = a.shape]
    [] fam = "contract" ->  \* a: shape, i, j
         [in_range   |-> InRange(a.i, N_(a)) /\ InRange(a.j, N_(a)),
          distinct   |-> a.i # a.j,
          equal_size |-> (InRange(a.i, N_(a)) /\ InRange(a.j, N_(a))) => a.shape[a.i + 1] = a.shape[a.j + 1]]
    [] fam = "scale" ->     \* a: shape, dims, fshape (shape of the scaling factor)
         [dims_in_range |-> \A k \in 1..Len(a.dims) : a.dims[k] \in 0..(N_(a) - 1),
          dims_distinct |-> IsInj(a.dims),
          factor_shape  |-> (\A k \in 1..Len(a.dims) : a.dims[k] \in 0..(N_(a) - 1)) =>
                               a.fshape = Sub(a.shape, SortSet(Range(a.dims)))]
    [] fam = "collapse" ->  \* a: shape, dims
         [dims_in_range |-> \A k \in 1..Len(a.dims) : a.dims[k] < N_(a),
          dims_nonneg   |-> \A k \in 1..Len(a.dims) : a.dims[k] >= 0,
          dims_distinct |-> IsInj(a.dims)]
    [] fam = "to_tenmat" -> \* a: shape, rdims, cdims
         [in_range  |-> \A k \in 1..Len(a.rdims \o a.cdims) : InRange((a.rdims \o a.cdims)[k], N_(a)),
          partition |-> (\A k \in 1..Len(a.rdims \o a.cdims) : InRange((a.rdims \o a.cdims)[k], N_(a))) =>
                          (IsInj(a.rdims \o a.cdims) /\ Len(a.rdims \o a.cdims) = N_(a))]
    [] fam = "ctor_tensor" ->   \* a: shape (requested), count (number of data elements)
         [count |-> a.count = Prod(a.shape)]
    [] fam = "ctor_sptensor" -> \* a: shape, nsubs, nvals, width (columns of subs), maxsub (per mode maximum)
         [one_value_each |-> a.nsubs = a.nvals,
          width          |-> a.width = N_(a),
          inside_shape   |-> a.width = N_(a) => \A m \in 1..N_(a) : a.maxsub[m] < a.shape[m]]
    [] fam = "ctor_ktensor" ->  \* a: rows, cols (per factor), nweights
         [common_cols |-> \A j, k \in 1..Len(a.cols) : a.cols[j] = a.cols[k],
          weights     |-> a.nweights = a.cols[1]]
    [] fam = "ctor_ttensor" ->  \* a: core (shape), rows, cols (per factor)
         [factor_count |-> Len(a.cols) = Len(a.core),
          core_sizes   |-> Len(a.cols) = Len(a.core) => \A k \in 1..Len(a.core) : a.cols[k] = a.core[k]]
    [] fam = "ctor_sumtensor" -> \* a: shapes (of the parts)
         [same_shape |-> \A j, k \in 1..Len(a.shapes) : a.shapes[j] = a.shapes[k]]
    [] fam = "tenmat_mul" ->    \* a: left (matrix shape), right (matrix shape)
         [inner |-> a.left[2] = a.right[1]]
    [] fam = "tenmat_add" ->
         [same_shape |-> a.left = a.right]
    [] fam = "khatrirao" ->     \* a: cols (column count of each matrix)
         [common_cols |-> \A j, k \in 1..Len(a.cols) : a.cols[j] = a.cols[k]]
    [] fam = "k_arrange_perm" -> \* a: R (number of components), perm
         [length   |-> Len(a.perm) = a.R,
          in_range |-> \A k \in 1..Len(a.perm) : a.perm[k] \in 0..(a.R - 1),
          distinct |-> IsInj(a.perm)]
    [] fam = "k_update" ->      \* a: rows (per mode), R, modes (factor modes to replace, in order; -1 = the weights), datalen
         [modes_in_range |-> \A k \in 1..Len(a.modes) : a.modes[k] \in (0 - 1)..(Len(a.rows) - 1),
          modes_distinct |-> IsInj(a.modes),
          data_length    |-> (\A k \in 1..Len(a.modes) : a.modes[k] \in (0 - 1)..(Len(a.rows) - 1)) =>
                               \* (surplus data only raise a warning: documented)
                               a.datalen >= SumSeq([k \in 1..Len(a.modes) |->
                                                      IF a.modes[k] = 0 - 1 THEN a.R ELSE a.rows[a.modes[k] + 1] * a.R])]
    [] fam = "k_mode_arg" ->    \* a: N (number of modes), op (which single-mode argument), mode
         [mode_in_range |-> a.mode \in 0..(a.N - 1)]
    [] fam = "k_extract" ->     \* a: R (number of components), idx (components to keep), form (how the argument is spelled)
         [count_in_range |-> Len(a.idx) \in 1..a.R,
          in_range       |-> \A k \in 1..Len(a.idx) : a.idx[k] \in 0..(a.R - 1)]
    [] fam = "sptenmat_setitem" -> \* a: nrows, ncols (shape of the matrix), r, c (row / column subscript of the assigned element)
         [in_range |-> a.r \in 0..(a.nrows - 1) /\ a.c \in 0..(a.ncols - 1)]
    [] fam = "mttkrps_factors" -> \* a: shape, rows, cols (row / column count of every matrix of the list)
         [count      |-> Len(a.rows) = N_(a),
          rows_match |-> Len(a.rows) = N_(a) => \A k \in 1..N_(a) : a.rows[k] = a.shape[k],
          cols_equal |-> \A k \in 1..Len(a.cols) : a.cols[k] = a.cols[1]]
    [] fam = "setitem_block" ->  \* a: shape (receiver), hi (the key is 0:hi[k] in every mode; may exceed the shape: growth), vshape (value)
         [value_shape |-> a.vshape = a.hi]
    [] fam = "fixsigns_other" -> \* a: rows, R (receiver), orows, oR (the reference Kruskal tensor)
         [same_shape |-> a.orows = a.rows,
          components |-> a.oR <= a.R]
    [] fam = "tt_reconstruct" -> \* a: N, modes (the modes that are sampled)
         [modes_in_range |-> \A k \in 1..Len(a.modes) : a.modes[k] \in 0..(a.N - 1),
          modes_distinct |-> IsInj(a.modes)]
    [] fam = "tucker_ranks" ->  \* a: shape, ranks, auto (TRUE: a zero entry asks for an automatic choice - hosvd)
         [ranks_length   |-> Len(a.ranks) = N_(a),
          ranks_in_range |-> Len(a.ranks) = N_(a) =>
                               \A k \in 1..N_(a) : a.ranks[k] \in (IF a.auto THEN 0 ELSE 1)..a.shape[k]]
    [] fam = "als_optdims" ->   \* a: N, optdims (modes that are optimised)
         [optdims_in_range |-> \A k \in 1..Len(a.optdims) : a.optdims[k] \in 0..(a.N - 1),
          optdims_distinct |-> IsInj(a.optdims)]
    [] fam = "ctor_sptenmat_neg" -> \* a: minrow, mincol (smallest row / column subscript of any entry)
         [nonneg |-> a.minrow >= 0 /\ a.mincol >= 0]
    [] fam = "nvecs_args" ->    \* a: shape, n (mode), r (number of leading vectors)
         [mode_in_range  |-> a.n \in 0..(N_(a) - 1),
          count_in_range |-> a.n \in 0..(N_(a) - 1) => a.r \in 1..a.shape[a.n + 1]]
    [] fam = "sym_groups" ->    \* a: N (order of a cubical tensor), grps (groups of modes, all of one length), version (0 default, 1 older)
         [modes_in_range  |-> \A g \in 1..Len(a.grps) : \A k \in 1..Len(a.grps[g]) : a.grps[g][k] \in 0..(a.N - 1),
          groups_disjoint |-> \A g, h \in 1..Len(a.grps) : \A k \in 1..Len(a.grps[g]) : \A l \in 1..Len(a.grps[h]) :
                                (g # h \/ k # l) => a.grps[g][k] # a.grps[h][l]]
    [] fam = "sp_reshape_modes" -> \* a: shape, old_modes, target (new sizes replacing the listed modes)
         [modes_in_range |-> \A k \in 1..Len(a.old_modes) : a.old_modes[k] \in 0..(N_(a) - 1),
          modes_distinct |-> IsInj(a.old_modes),
          count          |-> (\A k \in 1..Len(a.old_modes) : a.old_modes[k] \in 0..(N_(a) - 1)) =>
                               Prod(a.target) = Prod(Sub(a.shape, a.old_modes))]
    [] fam = "ctor_tenmat" ->   \* a: shape (of the tensor), rdims, cdims, mshape (shape of the data matrix)
         [in_range  |-> \A k \in 1..Len(a.rdims \o a.cdims) : InRange((a.rdims \o a.cdims)[k], N_(a)),
          partition |-> (\A k \in 1..Len(a.rdims \o a.cdims) : InRange((a.rdims \o a.cdims)[k], N_(a))) =>
                          (IsInj(a.rdims \o a.cdims) /\ Len(a.rdims \o a.cdims) = N_(a)),
          matrix_shape |-> ((\A k \in 1..Len(a.rdims \o a.cdims) : InRange((a.rdims \o a.cdims)[k], N_(a)))
                            /\ IsInj(a.rdims \o a.cdims) /\ Len(a.rdims \o a.cdims) = N_(a)) =>
                             a.mshape = <<Prod(Sub(a.shape, a.rdims)), Prod(Sub(a.shape, a.cdims))>>]
    [] fam = "ctor_sptenmat" -> \* a: shape, rdims, cdims (a partition), maxrow, maxcol (largest 0-based row / column subscript)
         [rows_inside |-> a.maxrow < Prod(Sub(a.shape, a.rdims)),
          cols_inside |-> a.maxcol < Prod(Sub(a.shape, a.cdims))]
    [] fam = "ctor_sptensor_neg" -> \* a: shape, minsub (smallest subscript of any entry)
         [nonneg |-> a.minsub >= 0]
    [] fam = "als_options" ->   \* a: shape, rank, dimorder, initrows, initcols  (cp_als / tucker_als style)
         [rank_positive |-> a.rank >= 1,
          dimorder_perm |-> IsPerm0(a.dimorder, N_(a)),
          init_shape    |-> a.initrows = a.shape,
          init_rank     |-> \A k \in 1..Len(a.initcols) : a.initcols[k] = a.rank]

Failing(fam, a) == {c \in DOMAIN Clauses(fam, a) : ~Clauses(fam, a)[c]}
Pre(fam, a)     == Failing(fam, a) = {}

\* res = [raised |-> BOOLEAN, unchanged |-> BOOLEAN]
RequestWhy(fam, a, res) ==
  IF Pre(fam, a)
    THEN (IF res.raised THEN "well-formed-request-rejected" ELSE "ok")
  ELSE IF ~res.raised THEN "ill-formed-request-answered"
  ELSE IF ~res.unchanged THEN "receiver-changed-by-rejected-request"
  ELSE "ok"

Answer(fam, a, res) == Pre(fam, a)  /\ RequestWhy(fam, a, res) = "ok" /\ last' = "answered"
Reject(fam, a, res) == ~Pre(fam, a) /\ RequestWhy(fam, a, res) = "ok" /\ last' = "rejected"

=============================================================================
