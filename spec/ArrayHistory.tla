---------------------------- MODULE ArrayHistory ----------------------------
(***************************************************************************)
(* C04: entry reads and writes behave like one F-ordered, growable array   *)
(* of numbers over any history.  `A` is that abstract array; a dense and a *)
(* sparse holder are driven by the same history and must both denote A     *)
(* after every step.  Each action takes the arguments of the call and what *)
(* the two holders returned / became.                                      *)
(*                                                                         *)
(* Keys.  A region key is a sequence with one element per mode:            *)
(*   [t |-> "i", a |-> i]              integer (negative = from the end)   *)
(*   [t |-> "s", a |-> lo, b |-> hi]   slice lo:hi, -1 = bound omitted     *)
(*   [t |-> "l", idx |-> <<...>>]      list of distinct indices            *)
(* (records carry all four fields t, a, b, idx so that they are uniformly  *)
(* typed).  A key with one element more than the order grows the order.    *)
(***************************************************************************)
EXTENDS Objects, TLC

VARIABLE A        \* the abstract array [shape, v]; the empty tensor is [shape |-> <<>>, v |-> <<0>>]

KInt(i)      == [t |-> "i", a |-> i, b |-> 0, c |-> 1, idx |-> <<>>]
KSlice(l, h) == [t |-> "s", a |-> l, b |-> h, c |-> 1, idx |-> <<>>]
KStep(l, h, st) == [t |-> "s", a |-> l, b |-> h, c |-> st, idx |-> <<>>]     \* slice l:h:st with a positive step
KList(ix)    == [t |-> "l", a |-> 0, b |-> 0, c |-> 1, idx |-> ix]

\* indices selected by key element k in a mode of current size n (in key order)
IdxSeq(k, n) ==
  CASE k.t = "i" -> <<IF k.a < 0 THEN n + k.a ELSE k.a>>
    [] k.t = "s" -> LET lo == IF k.a < 0 THEN 0 ELSE k.a
                        hi == IF k.b < 0 THEN n ELSE k.b
                    IN  SelectSeq(UpTo(lo, hi - 1), LAMBDA x : (x - lo) % k.c = 0)
    [] k.t = "l" -> k.idx
\* mode size needed to hold the selection
Needed(k, n) ==
  CASE k.t = "i" -> (IF k.a < 0 THEN n + k.a ELSE k.a) + 1
    [] k.t = "s" -> IF k.b < 0 THEN n ELSE k.b
    [] k.t = "l" -> SetMax(Range(k.idx) \cup {0}) + 1
PosIn(seq, x) == CHOOSE p \in 1..Len(seq) : seq[p] = x

\* shape padded with ones up to order n1 (growing the order puts old entries at index 0)
PadShape(s, n1) == [m \in 1..n1 |-> IF m <= Len(s) THEN s[m] ELSE 1]
\* value of X at subscript i of a (possibly larger / higher order) array; zero outside X
AtPadded(X, i) ==
  LET n == Len(X.shape)
  IN  IF /\ \A m \in 1..n : i[m] < X.shape[m]
         /\ \A m \in (n + 1)..Len(i) : i[m] = 0
        THEN At(X, SubSeq(i, 1, n))
        ELSE 0

KeyOk(X, key) ==
  /\ Len(key) \in {Len(X.shape), Len(X.shape) + 1} /\ Len(key) >= 1
  /\ \A m \in 1..Len(key) :
        LET n == PadShape(X.shape, Len(key))[m]
        IN  /\ \A x \in Range(IdxSeq(key[m], n)) : x >= 0
            /\ IsInj(IdxSeq(key[m], n))

RegionShape(X, key) ==     \* shape of the selected block: integer keys drop their mode
  LET s0 == PadShape(X.shape, Len(key))
      kept == SelectSeq([m \in 1..Len(key) |-> m], LAMBDA m : key[m].t # "i")
  IN  [q \in 1..Len(kept) |-> Len(IdxSeq(key[kept[q]], s0[kept[q]]))]

\* X[key] = rhs    (rhs: [kind |-> "scalar", val] or a dense block of shape RegionShape)
RegionWrite(X, key, rhs) ==
  LET n1 == Len(key)
      s0 == PadShape(X.shape, n1)
      ix == [m \in 1..n1 |-> IdxSeq(key[m], s0[m])]
      ns == [m \in 1..n1 |-> Max2(s0[m], Needed(key[m], s0[m]))]
      kept == SelectSeq([m \in 1..n1 |-> m], LAMBDA m : key[m].t # "i")
  IN  MkD(ns, LAMBDA i :
        IF \A m \in 1..n1 : i[m] \in Range(ix[m])
          THEN (IF rhs.kind = "scalar" THEN rhs.val
                ELSE At(AsD(rhs), [q \in 1..Len(kept) |-> PosIn(ix[kept[q]], i[kept[q]]) - 1]))
          ELSE AtPadded(X, i))

\* X[subs] = vals   (subs: rows of full subscripts, pairwise distinct; rows may be one longer than the order)
SubsOk(X, subs) ==
  /\ Len(subs) >= 1 /\ IsInj(subs)
  /\ \A k \in 1..Len(subs) : Len(subs[k]) = Len(subs[1]) /\ \A m \in 1..Len(subs[k]) : subs[k][m] >= 0
  /\ Len(subs[1]) \in {Len(X.shape), Len(X.shape) + 1} /\ Len(subs[1]) >= 1
SubsWrite(X, subs, vals) ==
  LET n1 == Len(subs[1])
      s0 == PadShape(X.shape, n1)
      ns == [m \in 1..n1 |-> Max2(s0[m], SetMax({subs[k][m] : k \in 1..Len(subs)}) + 1)]
  IN  MkD(ns, LAMBDA i :
        IF \E k \in 1..Len(subs) : subs[k] = i
          THEN vals[CHOOSE k \in 1..Len(subs) : subs[k] = i]
          ELSE AtPadded(X, i))

\* X[idx] = vals with 0-based linear indices (first subscript fastest); never resizes
LinOk(X, idx) == /\ Len(idx) >= 1 /\ IsInj(idx) /\ Len(X.shape) >= 1
                 /\ \A k \in 1..Len(idx) : idx[k] \in 0..(Size(X) - 1)
LinWrite(X, idx, vals) ==
  [shape |-> X.shape,
   v |-> [c \in 1..Len(X.v) |->
           IF \E k \in 1..Len(idx) : idx[k] = c - 1
             THEN vals[CHOOSE k \in 1..Len(idx) : idx[k] = c - 1] ELSE X.v[c]]]

\* reads
RegionRead(X, key) ==
  LET s0 == X.shape
      ix == [m \in 1..Len(key) |-> IdxSeq(key[m], s0[m])]
      kept == SelectSeq([m \in 1..Len(key) |-> m], LAMBDA m : key[m].t # "i")
      rs == [q \in 1..Len(kept) |-> Len(ix[kept[q]])]
  IN  MkD(rs, LAMBDA j :
        At(X, [m \in 1..Len(key) |->
                 IF key[m].t = "i" THEN ix[m][1]
                 ELSE ix[m][j[CHOOSE q \in 1..Len(kept) : kept[q] = m] + 1]]))
ReadKeyOk(X, key) ==
  /\ Len(key) = Len(X.shape) /\ Len(key) >= 1
  /\ \A m \in 1..Len(key) : \A x \in Range(IdxSeq(key[m], X.shape[m])) : x \in 0..(X.shape[m] - 1)
  /\ \A m \in 1..Len(key) : Len(IdxSeq(key[m], X.shape[m])) >= 1
SubsRead(X, subs) == [k \in 1..Len(subs) |-> At(X, subs[k])]
LinRead(X, idx)   == [k \in 1..Len(idx) |-> X.v[idx[k] + 1]]

---------------------------------------------------------------------------
\* observations.  A holder's report is [st, obj] (after a write: its whole state) or
\* [st, val] (after a read); st = "ok" | "raised" | "n/a" (form outside the class's documented domain)

HolderStateWhy(h, E, who) ==
  IF h.st = "n/a" THEN "ok"
  ELSE IF h.st # "ok" THEN who \o "-" \o h.st
  ELSE IF h.obj.kind = "sparse" /\ WhyWF(h.obj, TRUE) # "ok" THEN who \o "-" \o WhyWF(h.obj, TRUE)
  ELSE IF h.obj.kind = "dense" /\ Len(h.obj.v) # Prod(h.obj.shape) THEN who \o "-dense-size"
  ELSE IF ShapeObj(h.obj) # E.shape THEN who \o "-shape"
  ELSE IF DenObj(h.obj) # E THEN who \o "-entries"
  ELSE "ok"

\* the empty array has shape <<>>; holders report it as shape <<>> with no data
EmptyOr(E) == E

WriteWhy(X, op, a, ret) ==
  LET pre == CASE op = "set_region" -> KeyOk(X, a.key) /\ (a.rhs.kind = "scalar" \/ a.rhs.shape = RegionShape(X, a.key))
               [] op = "set_subs"   -> SubsOk(X, a.subs) /\ Len(a.vals) = Len(a.subs)
               [] op = "set_linear" -> LinOk(X, a.idx) /\ Len(a.vals) = Len(a.idx)
      E == CASE op = "set_region" -> RegionWrite(X, a.key, a.rhs)
             [] op = "set_subs"   -> SubsWrite(X, a.subs, a.vals)
             [] op = "set_linear" -> LinWrite(X, a.idx, a.vals)
  IN  IF ~pre THEN "precondition"
      ELSE IF HolderStateWhy(ret.dense, E, "dense") # "ok" THEN HolderStateWhy(ret.dense, E, "dense")
      ELSE HolderStateWhy(ret.sparse, E, "sparse")

HolderValueWhy(h, E, who) ==      \* E: dense block (shape <<>> = a single value) or a flat vector
  IF h.st = "n/a" THEN "ok"
  ELSE IF h.st # "ok" THEN who \o "-" \o h.st
  ELSE IF (E.shape = <<>>) \/ (Prod(E.shape) = 1 /\ h.val.kind = "scalar")
    THEN (IF h.val.kind # "scalar" THEN who \o "-result-kind"
          ELSE IF h.val.val # E.v[1] THEN who \o "-value" ELSE "ok")
  ELSE IF h.val.kind = "array"
    THEN (IF h.val.v # E.v THEN who \o "-value" ELSE "ok")
  ELSE IF h.val.kind \in {"dense", "sparse"}
    THEN (IF h.val.kind = "sparse" /\ WhyWF(h.val, TRUE) # "ok" THEN who \o "-" \o WhyWF(h.val, TRUE)
          ELSE IF ShapeObj(h.val) # E.shape THEN who \o "-shape"
          ELSE IF DenObj(h.val) # E THEN who \o "-value" ELSE "ok")
  ELSE who \o "-result-kind"

ReadWhy(X, op, a, ret) ==
  \* a linear index one past the last position addresses nothing (neither for reading nor for writing): it is refused
  IF op = "linear_beyond" THEN
    (IF ret.dense.st = "ok" THEN "dense-answered-a-linear-index-outside-the-array"
     ELSE IF ret.sparse.st = "ok" THEN "sparse-answered-a-linear-index-outside-the-array" ELSE "ok")
  ELSE
  LET pre == CASE op = "get_region" -> ReadKeyOk(X, a.key)
               [] op = "get_subs"   -> Len(a.subs) >= 1 /\ \A k \in 1..Len(a.subs) : InShape(X.shape, a.subs[k])
               [] op = "get_linear" -> Len(a.idx) >= 1 /\ \A k \in 1..Len(a.idx) : a.idx[k] \in 0..(Size(X) - 1)
      E == CASE op = "get_region" -> RegionRead(X, a.key)
             [] op = "get_subs"   -> [shape |-> <<Len(a.subs)>>, v |-> SubsRead(X, a.subs)]
             [] op = "get_linear" -> [shape |-> <<Len(a.idx)>>, v |-> LinRead(X, a.idx)]
  IN  IF ~pre THEN "precondition"
      ELSE IF HolderValueWhy(ret.dense, E, "dense") # "ok" THEN HolderValueWhy(ret.dense, E, "dense")
      ELSE HolderValueWhy(ret.sparse, E, "sparse")

IsWrite(op) == op \in {"set_region", "set_subs", "set_linear"}
EventWhy(X, ev) == IF IsWrite(ev.op) THEN WriteWhy(X, ev.op, ev.args, ev.ret) ELSE ReadWhy(X, ev.op, ev.args, ev.ret)

NextA(X, op, a) ==
  CASE op = "set_region" -> RegionWrite(X, a.key, a.rhs)
    [] op = "set_subs"   -> SubsWrite(X, a.subs, a.vals)
    [] op = "set_linear" -> LinWrite(X, a.idx, a.vals)
    [] OTHER -> X

\* actions
Write(op, a, ret) == IsWrite(op) /\ WriteWhy(A, op, a, ret) = "ok" /\ A' = NextA(A, op, a)
Read(op, a, ret)  == ~IsWrite(op) /\ ReadWhy(A, op, a, ret) = "ok" /\ UNCHANGED A

=============================================================================
