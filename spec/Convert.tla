------------------------------ MODULE Convert -------------------------------
(***************************************************************************)
(* C01: converting between representations preserves the tensor.           *)
(* One object `obj` is driven through a history of conversions; queries    *)
(* (double, nnz, spmatrix ...) leave obj unchanged and produce an          *)
(* observation.  Actions take the call's arguments and the result `res`;   *)
(* they are enabled iff res is an admissible result.                       *)
(***************************************************************************)
EXTENDS Objects, TLC

VARIABLE obj

---------------------------------------------------------------------------
\* mode splits.  form: "rc" both lists given, "r" only rdims, "c" only cdims,
\* "fc" / "bc" / "t": rdims = <<n>> with the cyclic / transposed convention
SplitOf(N, form, rd, cd) ==
  CASE form = "rc" -> <<rd, cd>>
    [] form = "r"  -> <<rd, RestModes(N, rd)>>
    [] form = "c"  -> <<RestModes(N, cd), cd>>
    [] form = "fc" -> <<rd, CyclicCols(rd[1], N, "fc")>>
    [] form = "bc" -> <<rd, CyclicCols(rd[1], N, "bc")>>
    [] form = "t"  -> <<RestModes(N, rd), rd>>

TenmatObj(X, R, C) ==
  [kind |-> "tenmat", tshape |-> X.shape, rdims |-> R, cdims |-> C,
   m |-> Mat(X, R, C), mshape |-> MatShape(X.shape, R, C)]

\* canonical sptenmat of a stored sparse tensor: one (row, col) pair per stored entry
SptenmatObj(S, R, C) ==
  [kind |-> "sptenmat", tshape |-> S.shape, rdims |-> R, cdims |-> C,
   subs |-> [k \in 1..Len(S.subs) |->
               <<Lin(Sub(S.shape, R), Sub(S.subs[k], R)), Lin(Sub(S.shape, C), Sub(S.subs[k], C))>>],
   vals |-> S.vals, mshape |-> MatShape(S.shape, R, C)]

ArrayObj(X) == [kind |-> "array", shape |-> X.shape, v |-> X.v]

---------------------------------------------------------------------------
\* canonical results

ConvFn(o, op, a) ==
  CASE op = "to_sptensor" -> SparseObj(ToSparse(DenObj(o)))            \* dense, sptenmat
    [] op = "full"        -> IF o.kind = "sptenmat"
                               THEN TenmatObj(DenObj(o), o.rdims, o.cdims)
                               ELSE DenseObj(DenObj(o))
    [] op = "to_tensor"   -> DenseObj(DenObj(o))
    [] op = "copy"        -> o
    [] op = "double"      -> IF o.kind \in {"tenmat", "sptenmat"}
                               THEN ArrayObj(MatToD(Mat(DenObj(o), o.rdims, o.cdims)))
                               ELSE ArrayObj(DenObj(o))
    [] op = "spmatrix"    -> ArrayObj(DenObj(o))
    [] op = "nnz"         -> ScalarObj(NnzD(DenObj(o)))
    [] op = "to_tenmat"   -> LET sp == SplitOf(NDimsObj(o), a.form, a.rdims, a.cdims)
                             IN  TenmatObj(DenObj(o), sp[1], sp[2])
    [] op = "to_sptenmat" -> LET sp == SplitOf(NDimsObj(o), a.form, a.rdims, a.cdims)
                             IN  SptenmatObj(AsS(o), sp[1], sp[2])
    [] op = "from_array"  -> SptenmatObj(ToSparse(DenObj(o)), o.rdims, o.cdims)

\* which operations exist on which kind
Applicable(o, op) ==
  CASE op = "to_sptensor" -> o.kind \in {"dense", "sptenmat"}
    [] op = "full"        -> o.kind \in {"dense", "sparse", "ktensor", "ttensor", "sum", "sptenmat"}
    [] op = "to_tensor"   -> o.kind \in {"sparse", "ktensor", "ttensor", "sum", "tenmat"}
    [] op = "copy"        -> o.kind \in {"dense", "sparse", "ktensor", "ttensor", "sum", "tenmat", "sptenmat"}
    [] op = "double"      -> o.kind \in {"dense", "sparse", "ktensor", "ttensor", "sum", "tenmat", "sptenmat"}
    [] op = "spmatrix"    -> o.kind = "sparse" /\ Len(o.shape) = 2
    [] op = "nnz"         -> o.kind \in {"dense", "sparse", "sptenmat"}
    [] op = "to_tenmat"   -> o.kind \in {"dense", "ktensor"}
    [] op = "to_sptenmat" -> o.kind = "sparse"
    [] op = "from_array"  -> o.kind = "tenmat"
    [] OTHER -> FALSE

IsQuery(op) == op \in {"double", "spmatrix", "nnz"}

---------------------------------------------------------------------------
\* admissible results

SplitWhy(o, a, res) ==
  LET N  == NDimsObj(o)
      sp == SplitOf(N, a.form, a.rdims, a.cdims)
  IN  IF ~IsPartition(N, sp[1], sp[2]) THEN "precondition"
      ELSE IF res.tshape # ShapeObj(o) THEN "tshape"
      ELSE IF res.rdims # sp[1] \/ res.cdims # sp[2] THEN "mode-split"
      ELSE IF res.mshape # MatShape(ShapeObj(o), sp[1], sp[2]) THEN "matrix-shape"
      ELSE "ok"

ConvWhy(o, op, a, res) ==
  IF ~Applicable(o, op) THEN "precondition"
  ELSE LET e == ConvFn(o, op, a) IN
  IF res.kind # e.kind THEN "result-kind"
  ELSE IF WhyWF(res, TRUE) # "ok" THEN WhyWF(res, TRUE)
  ELSE CASE e.kind = "dense" ->
              IF res.shape # e.shape THEN "shape"
              ELSE IF res.v # e.v THEN "denotation-changed" ELSE "ok"
         [] e.kind = "array" ->
              IF res.shape # e.shape THEN "shape"
              ELSE IF res.v # e.v THEN "denotation-changed" ELSE "ok"
         [] e.kind = "scalar" -> IF res.val # e.val THEN "nonzero-count" ELSE "ok"
         [] e.kind = "sparse" ->
              IF res.shape # e.shape THEN "shape"
              ELSE IF DenObj(res) # DenObj(o) THEN "denotation-changed" ELSE "ok"
         [] e.kind = "tenmat" ->
              IF op = "copy" THEN (IF res # o THEN "copy-differs" ELSE "ok")
              ELSE LET w == IF op = "full"
                               THEN (IF res.tshape # o.tshape \/ res.rdims # o.rdims \/ res.cdims # o.cdims
                                        \/ res.mshape # o.mshape THEN "mode-split" ELSE "ok")
                               ELSE SplitWhy(o, a, res)
                   IN  IF w # "ok" THEN w
                       ELSE IF ~IsMatrix(res.m, res.mshape[1], res.mshape[2]) THEN "matrix-shape"
                       ELSE IF res.m # e.m THEN "denotation-changed" ELSE "ok"
         [] e.kind = "sptenmat" ->
              LET w == IF op = "to_sptenmat" THEN SplitWhy(o, a, res)
                       ELSE IF res.tshape # o.tshape \/ res.rdims # o.rdims \/ res.cdims # o.cdims
                         THEN "mode-split" ELSE "ok"
              IN  IF w # "ok" THEN w
                  ELSE IF DenObj(res) # DenObj(o) THEN "denotation-changed" ELSE "ok"
         [] OTHER ->   \* ktensor / ttensor / sum copies
              IF res # o THEN "copy-differs" ELSE "ok"

\* conversions and queries return new values: the harness reports an operand whose arrays differ after the call
EventWhy(o, ev) == IF ev.ret.kind = "operand-changed" THEN "operand-changed-by-the-call"
                   ELSE IF ev.ret.kind = "result-shares-storage" THEN "result-shares-storage-with-the-operand"
                   ELSE ConvWhy(o, ev.op, ev.args, ev.ret)

---------------------------------------------------------------------------
\* actions

Convert(op, a, res) == /\ ~IsQuery(op)
                       /\ ConvWhy(obj, op, a, res) = "ok"
                       /\ obj' = res
Query(op, a, res)   == /\ IsQuery(op)
                       /\ ConvWhy(obj, op, a, res) = "ok"
                       /\ UNCHANGED obj

=============================================================================
