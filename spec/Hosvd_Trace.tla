----------------------------- MODULE Hosvd_Trace ----------------------------
(* (V) trace validation for Hosvd: exact-class runs, general runs, Tucker-ALS runs *)
EXTENDS Hosvd, Json, IOUtils, TLCExt
VARIABLES tid, l
Traces == ndJsonDeserialize(IOEnv.TRACE_FILE)
ASSUME TLCSet(42, <<>>)
ASSUME TLCSet(43, 0)
Tr == Traces[tid].ev
E  == Tr[l]
EWhy == CASE E.op = "hosvd_exact" -> ExactWhy(E.args, E.ret)
          [] E.op = "hosvd" -> (IF E.ret.st # "ok" THEN E.ret.st ELSE HosvdObsWhy(E.args, E.ret))
          [] E.op = "tucker_als" -> (IF E.ret.st # "ok" THEN E.ret.st ELSE TuckerObsWhy(E.args, E.ret))
          [] OTHER -> "unknown-event"
TInit == tid \in 1..Len(Traces) /\ l = 1 /\ Y = {} /\ todo = <<>> /\ kept = <<>>
TAccept == l <= Len(Tr) /\ EWhy = "ok" /\ l' = l + 1 /\ UNCHANGED <<tid, Y, todo, kept>>
TReject == /\ l <= Len(Tr) /\ EWhy # "ok"
           /\ TLCSet(42, Append(TLCGet(42), <<tid, l, EWhy>>))
           /\ l' = l + 1 /\ UNCHANGED <<tid, Y, todo, kept>>
TNext == TAccept \/ TReject
TSpec == TInit /\ [][TNext]_<<Y, todo, kept, tid, l>>
Done == (l = Len(Tr) + 1) => TLCSet(43, TLCGet(43) + 1)
Accepted ==
  /\ \A k \in 1..Len(TLCGet(42)) : PrintT(<<"REJECTED", TLCGet(42)[k][1], TLCGet(42)[k][2], TLCGet(42)[k][3]>>)
  /\ PrintT(<<"CONSUMED", TLCGet(43), Len(Traces)>>)
  /\ Len(TLCGet(42)) = 0
=============================================================================
