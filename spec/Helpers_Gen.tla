---------------------------- MODULE Helpers_Gen -----------------------------
(***************************************************************************)
(* (M)+(G) configuration of Helpers: enumerates every stimulus of one       *)
(* family, checks the laws on it and emits the call with its canonical      *)
(* result as one JSON line.                                                 *)
(***************************************************************************)
EXTENDS Helpers, Json

CONSTANTS Family,     \* "index" | "dims" | "rows2" | "rows1" | "kr" | "long"
          ShapeC,     \* shape for the "index" family
          MaxN        \* largest tensor order for "dims"

VARIABLES stim, done
vars == <<last, stim, done>>

SeqsUpTo(S, n) == UNION {[1..k -> S] : k \in 0..n}
St(op, args)   == [op |-> op, args |-> args]

FullSubs == [k \in 1..Prod(ShapeC) |-> Unlin(ShapeC, k - 1)]
IndexStimuli ==
  LET n == Prod(ShapeC)
      allidx == [k \in 1..n |-> k - 1]
  IN  {St("sub2ind", [shape |-> ShapeC, subs |-> FullSubs]),
       St("sub2ind", [shape |-> ShapeC, subs |-> RevSeq(FullSubs)]),
       St("ind2sub", [shape |-> ShapeC, idx |-> allidx]),
       St("ind2sub", [shape |-> ShapeC, idx |-> RevSeq(allidx)])}
      \cup {St("sub2ind", [shape |-> ShapeC, subs |-> <<FullSubs[k]>>]) : k \in 1..n}
      \cup {St("ind2sub", [shape |-> ShapeC, idx |-> <<k - 1>>]) : k \in 1..n}

DimsStimuli ==
  UNION {
    UNION {{St("dimscheck", [N |-> N, hasM |-> hm[1], M |-> hm[2], dims |-> d, excl |-> FALSE]) :
              hm \in {<<FALSE, 0>>, <<TRUE, Len(d)>>, <<TRUE, N>>}} :
           d \in UNION {InjSeqs(N, len) : len \in 1..N}}
    \cup
    UNION {{St("dimscheck", [N |-> N, hasM |-> hm[1], M |-> hm[2], dims |-> d, excl |-> TRUE]) :
              hm \in {<<FALSE, 0>>, <<TRUE, N - Len(d)>>, <<TRUE, N>>}} :
           d \in UNION {InjSeqs(N, len) : len \in 1..(N - 1)}}
    \cup
    \* the empty selection: dims = <<>> selects no mode, exclude_dims = <<>> excludes none
    {St("dimscheck", [N |-> N, hasM |-> hm[1], M |-> hm[2], dims |-> <<>>, excl |-> ex]) :
       hm \in {<<FALSE, 0>>, <<TRUE, N>>}, ex \in BOOLEAN}
    : N \in 1..MaxN}

RowMats(width, vals, maxrows) == SeqsUpTo([1..width -> vals], maxrows)
RowStimuli(width, vals) ==
  UNION {{St(op, [A |-> A, B |-> B, width |-> width]) : op \in {"ismember", "intersect", "setdiff", "union"}} :
         A \in RowMats(width, vals, 3), B \in RowMats(width, vals, 3)}

\* long searches (more rows than any block size a vectorised implementation may choose): a periodic pattern of six
\* distinct rows looked up in a short source
LongRows(n) == [k \in 1..n |-> <<k % 3, (k \div 7) % 2>>]
LongStimuli ==
  {St("ismember", [A |-> LongRows(n), B |-> B, width |-> 2]) :
     n \in {1030, 2500}, B \in {<<<<0, 1>>, <<2, 0>>, <<1, 1>>>>, <<<<2, 1>>>>, <<<<5, 5>>, <<0, 0>>>>}}
  \cup {St("ismember", [A |-> <<<<0, 1>>, <<2, 0>>, <<1, 1>>>>, B |-> LongRows(n), width |-> 2]) : n \in {1030}}

\* Khatri-Rao: labelled matrices; matrix k has entries p_k^i (i = row), column 2 scaled by 7,
\* so every product identifies the tuple of row indices and the column
Prime(k) == CASE k = 1 -> 2 [] k = 2 -> 3 [] k = 3 -> 5
RECURSIVE Pow(_, _)
Pow(b, e) == IF e = 0 THEN 1 ELSE b * Pow(b, e - 1)
LabelM(k, nr, nc) == MkM(nr, nc, LAMBDA i, c : Pow(Prime(k), i) * (IF c = 2 THEN 7 ELSE 1))
KrStimuli ==
  UNION {{St("khatrirao", [mats |-> [k \in 1..Len(rs) |-> LabelM(k, rs[k], nc)], reverse |-> rv]) :
            nc \in 1..2, rv \in BOOLEAN} :
         rs \in UNION {[1..m -> 1..3] : m \in 1..3}}

Stimuli == CASE Family = "index" -> IndexStimuli
             [] Family = "dims"  -> DimsStimuli
             [] Family = "rows2" -> RowStimuli(2, {0, 1})
             [] Family = "rows1" -> RowStimuli(1, {0, 1, 2})
             [] Family = "kr"    -> KrStimuli
             [] Family = "long"  -> LongStimuli

Init == /\ stim \in Stimuli
        /\ last = [st |-> "init"]
        /\ done = FALSE

DoCall == /\ ~done
          /\ LET ev == [op |-> stim.op, args |-> stim.args, ret |-> EventFn(stim.op, stim.args)]
             IN  Call(ev) /\ PrintT(ToJson(ev))
          /\ done' = TRUE
          /\ UNCHANGED stim

Next == DoCall
Spec == Init /\ [][Next]_vars

---------------------------------------------------------------------------
\* (M) laws

\* the canonical result of every stimulus is admissible (so DoCall is never disabled)
CanonicalOk == EventWhy([op |-> stim.op, args |-> stim.args, ret |-> EventFn(stim.op, stim.args)]) = "ok"
Emitted     == done => last.st = "ok"

\* Lin / Unlin are mutually inverse bijections, first subscript fastest
Bijection ==
  Family = "index" =>
    /\ \A k \in 0..(Prod(ShapeC) - 1) : Lin(ShapeC, Unlin(ShapeC, k)) = k /\ InShape(ShapeC, Unlin(ShapeC, k))
    /\ Cardinality(Idx(ShapeC)) = Prod(ShapeC)
    /\ \A i \in Idx(ShapeC) : Unlin(ShapeC, Lin(ShapeC, i)) = i
    /\ \A m \in 1..Len(ShapeC) :      \* stride of mode m is the product of the earlier sizes
         ShapeC[m] > 1 =>
           Lin(ShapeC, [q \in 1..Len(ShapeC) |-> IF q = m THEN 1 ELSE 0]) = Prod(SubSeq(ShapeC, 1, m - 1))

\* set algebra: intersect and setdiff split the distinct rows of A; union covers both
SetAlgebra ==
  Family \in {"rows1", "rows2"} =>
    LET A == stim.args.A   B == stim.args.B
        I == {A[i + 1] : i \in Range(IntersectFn(A, B))}
        Dd == {A[i + 1] : i \in Range(SetDiffFn(A, B))}
    IN  /\ I \cup Dd = Rows(A) /\ I \cap Dd = {}
        /\ I = Rows(A) \cap Rows(B)
        /\ Rows(UnionFn(A, B)) = Rows(A) \cup Rows(B)
        /\ \A k \in 1..Len(A) : IsMemberFn(A, B).matched[k] <=> A[k] \in I

\* dims: selected modes sorted, multiplicand positions consistent
DimsLaw ==
  Family = "dims" =>
    LET a == stim.args
        r == DimsCheckFn(a.N, a.hasM, a.M, a.dims, a.excl)
    IN  /\ \A k \in 1..(Len(r.sdims) - 1) : r.sdims[k] < r.sdims[k + 1]
        /\ Range(r.sdims) = (IF a.excl THEN (0..(a.N - 1)) \ Range(a.dims) ELSE Range(a.dims))
        /\ a.hasM => /\ Len(r.vidx) = Len(r.sdims) /\ IsInj(r.vidx)
                     /\ \A k \in 1..Len(r.vidx) : r.vidx[k] \in 0..(a.M - 1)
                     /\ (~a.excl /\ a.M = Len(a.dims)) =>
                           \A k \in 1..Len(r.vidx) : a.dims[r.vidx[k] + 1] = r.sdims[k]

\* Khatri-Rao: associativity and the Kronecker row formula for two matrices
KrLaw ==
  Family = "kr" =>
    LET ms == stim.args.mats
    IN  /\ Len(ms) = 3 => KhatriRao(ms) = KhatriRao(<<KhatriRao(<<ms[1], ms[2]>>), ms[3]>>)
        /\ Len(ms) = 2 =>
             \A i \in 1..NRows(ms[1]), j \in 1..NRows(ms[2]), c \in 1..NCols(ms[1]) :
               KhatriRao(ms)[(i - 1) * NRows(ms[2]) + j][c] = ms[1][i][c] * ms[2][j][c]
        /\ KhatriRaoFn(ms, TRUE) = KhatriRao(RevSeq(ms))

=============================================================================
