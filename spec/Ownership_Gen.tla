---------------------------- MODULE Ownership_Gen ---------------------------
(* (G) chains of type-compatible operations for Ownership: the operation    *)
(* table <<name, receiver class, result class>> is supplied by the harness; *)
(* TLC enumerates every chain of length <= D in which each operation is     *)
(* applied to the object returned by the previous one.                      *)
EXTENDS Ownership, Json

CONSTANTS OpTable, D

VARIABLES start, cur, chain, fin
gvars == <<live, shares, start, cur, chain, fin>>

Classes == {t[2] : t \in OpTable}

GInit == /\ Init
         /\ start \in Classes /\ cur = start /\ chain = <<>> /\ fin = FALSE

\* receiver classes "cube" / "counts" / "sparse_counts" are start classes only
Norm(c) == c

GStep == /\ ~fin /\ Len(chain) < D /\ cur # "value"
         /\ \E t \in OpTable :
              /\ t[2] = cur
              /\ chain' = Append(chain, t[1])
              /\ cur' = (IF t[1] \in InPlaceOps THEN cur ELSE t[3])
         /\ UNCHANGED <<live, shares, start, fin>>

GFinish == /\ ~fin /\ chain # <<>>
           /\ PrintT(ToJson([start |-> start, chain |-> chain]))
           /\ fin' = TRUE
           /\ UNCHANGED <<live, shares, start, cur, chain>>

GNext == GStep \/ GFinish
GSpec == GInit /\ [][GNext]_gvars

=============================================================================
