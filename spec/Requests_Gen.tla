---------------------------- MODULE Requests_Gen ----------------------------
(* (M)+(G) for Requests: for every family the well-formed base requests and *)
(* every request in scope that violates EXACTLY ONE clause (checked by the  *)
(* invariant OneClause), over shapes where a mismatch could broadcast       *)
(* (size 1) or divide (2 vs 4).                                             *)
EXTENDS Requests, Json

CONSTANT Fams          \* families of this shard

VARIABLES stim, done
vars == <<last, stim, done>>

Shapes3 == {<<2, 3, 2>>, <<3, 1, 2>>, <<2, 2>>, <<4, 2>>}
St(fam, a, want) == [fam |-> fam, a |-> a, want |-> want]      \* want: "ok" or the clause meant to fail

\* wrong sizes for a mode of size n: broadcastable 1, off by one, a multiple
Wrong(n) == {1, n + 1, 2 * n, n - 1} \ {n, 0}
ReplaceAt(s, k, x) == [j \in 1..Len(s) |-> IF j = k THEN x ELSE s[j]]

ValidDims(n) == UNION {InjSeqs(n, len) : len \in 1..n}
BadDimsOf(d, n) ==     \* one entry out of range / negative / repeated
  {<<ReplaceAt(d, k, n), "dims_in_range">> : k \in 1..Len(d)}
  \cup {<<ReplaceAt(d, k, n + 1), "dims_in_range">> : k \in 1..Len(d)}
  \cup {<<ReplaceAt(d, k, 0 - 1), "dims_nonneg">> : k \in 1..Len(d)}
  \cup {<<ReplaceAt(d, kj[1], d[kj[2]]), "dims_distinct">> : kj \in {x \in (1..Len(d)) \X (1..Len(d)) : x[1] # x[2]}}
OkBad(b) == b[1]

Lens(s, d, full) == IF full THEN s ELSE [k \in 1..Len(d) |-> s[d[k] + 1]]

TtvLike(fam, field, extra) ==
  UNION {UNION {
     \* well formed
     {St(fam, [shape |-> s, dims |-> d] @@ (field :> Lens(s, d, full)) @@ extra, "ok") :
        full \in (IF Len(d) < Len(s) THEN BOOLEAN ELSE {FALSE})}
     \* one multiplicand of the wrong size
     \cup UNION {{St(fam, [shape |-> s, dims |-> d] @@ (field :> ReplaceAt(Lens(s, d, FALSE), k, w)) @@ extra,
                     IF fam = "ttv" THEN "lengths" ELSE "sizes") : w \in Wrong(s[d[k] + 1])} : k \in 1..Len(d)}
     \* wrong number of multiplicands
     \cup {St(fam, [shape |-> s, dims |-> d] @@ (field :> Lens(s, d, FALSE) \o <<s[1]>>) @@ extra, "?")}
     \cup (IF Len(d) >= 2 THEN {St(fam, [shape |-> s, dims |-> d] @@ (field :> SubSeq(Lens(s, d, FALSE), 1, Len(d) - 1)) @@ extra, "?")}
           ELSE {})
     \* ill-formed mode list (multiplicands fitted to the in-range entries)
     \cup {St(fam, [shape |-> s, dims |-> b[1]] @@ (field :> [k \in 1..Len(d) |-> IF b[1][k] \in 0..(Len(s) - 1) THEN s[b[1][k] + 1] ELSE 2]) @@ extra, b[2]) :
             b \in BadDimsOf(d, Len(s))}
     : d \in ValidDims(Len(s))} : s \in Shapes3}

TtvStimuli == TtvLike("ttv", "vlen", <<>>)
TtmStimuli == TtvLike("ttm", "mcols", [transp |-> FALSE]) \cup TtvLike("ttm", "mcols", [transp |-> TRUE])

MttkrpStimuli ==
  UNION {UNION {
     {St("mttkrp", [shape |-> s, n |-> n, rows |-> s, cols |-> [k \in 1..Len(s) |-> 2]], "ok")}
     \cup {St("mttkrp", [shape |-> s, n |-> m, rows |-> s, cols |-> [k \in 1..Len(s) |-> 2]], "mode_in_range") : m \in {Len(s), 0 - 1}}
     \cup {St("mttkrp", [shape |-> s, n |-> n, rows |-> SubSeq(s, 1, Len(s) - 1), cols |-> [k \in 1..(Len(s) - 1) |-> 2]], "list_length")}
     \cup {St("mttkrp", [shape |-> s, n |-> n, rows |-> s \o <<2>>, cols |-> [k \in 1..(Len(s) + 1) |-> 2]], "list_length")}
     \cup {St("mttkrp", [shape |-> s, n |-> n, rows |-> s, cols |-> ReplaceAt([k \in 1..Len(s) |-> 2], j, c)], "?") :
             j \in (1..Len(s)) \ {n + 1}, c \in {1, 3}}
     \cup UNION {{St("mttkrp", [shape |-> s, n |-> n, rows |-> ReplaceAt(s, j, w), cols |-> [k \in 1..Len(s) |-> 2]], "row_counts") :
                    w \in Wrong(s[j])} : j \in (1..Len(s)) \ {n + 1}}
     \* two wrong factors whose row counts multiply to the right total (e.g. 3x4 for 4x3)
     \cup (IF Len(s) >= 3 THEN
             {St("mttkrp", [shape |-> s, n |-> n, rows |-> [k \in 1..Len(s) |-> IF k = j THEN s[i] ELSE IF k = i THEN s[j] ELSE s[k]],
                            cols |-> [k \in 1..Len(s) |-> 2]], "row_counts") :
                i \in (1..Len(s)) \ {n + 1}, j \in (1..Len(s)) \ {n + 1}}
           ELSE {})
     : n \in 0..(Len(s) - 1)} : s \in Shapes3 \cup {<<2, 3, 4>>}}
MttkrpOk(x) == x.want # "row_counts" \/ x.a.rows # x.a.shape

PermuteStimuli ==
  UNION {{St("permute", [shape |-> s, order |-> p], "ok") : p \in Perms0(Len(s))}
         \cup {St("permute", [shape |-> s, order |-> SubSeq(IdPerm0(Len(s)), 1, Len(s) - 1)], "length")}
         \cup {St("permute", [shape |-> s, order |-> IdPerm0(Len(s)) \o <<Len(s) - 1>>], "length")}
         \cup {St("permute", [shape |-> s, order |-> ReplaceAt(p, k, Len(s))], "in_range") : p \in Perms0(Len(s)), k \in 1..Len(s)}
         \cup {St("permute", [shape |-> s, order |-> ReplaceAt(p, k, 0 - 1)], "in_range") : p \in Perms0(Len(s)), k \in 1..Len(s)}
         \cup {St("permute", [shape |-> s, order |-> ReplaceAt(p, kj[1], p[kj[2]])], "distinct") :
                 p \in Perms0(Len(s)), kj \in {x \in (1..Len(s)) \X (1..Len(s)) : x[1] # x[2]}}
         : s \in Shapes3}

ReshapeStimuli ==
  UNION {{St("reshape", [shape |-> s, target |-> t], IF Prod(t) = Prod(s) THEN "ok" ELSE "count") :
            t \in {<<Prod(s)>>, <<Prod(s) + 1>>, <<Prod(s) - 1>>, <<2, Prod(s)>>, <<1, Prod(s)>>, s \o <<2>>, <<Prod(s) \div 2>>}}
         : s \in Shapes3}

OtherShapes(s) == {s, s \o <<1>>, RevSeq(s), ReplaceAt(s, 1, 1), ReplaceAt(s, Len(s), s[Len(s)] + 1), <<Prod(s)>>}
SameShapeStimuli ==
  UNION {{St("sameshape", [shape |-> s, other |-> o], IF o = s THEN "ok" ELSE "same_shape") : o \in OtherShapes(s)}
         : s \in Shapes3}

ContractStimuli ==
  UNION {{St("contract", [shape |-> s, i |-> i, j |-> j], "?") : i \in (0 - 1)..Len(s), j \in (0 - 1)..Len(s)}
         : s \in {<<2, 3, 2>>, <<2, 2>>, <<3, 1, 3>>}}

ScaleStimuli ==
  UNION {UNION {
     {St("scale", [shape |-> s, dims |-> d, fshape |-> Sub(s, SortSet(Range(d)))], "ok")}
     \cup UNION {{St("scale", [shape |-> s, dims |-> d, fshape |-> ReplaceAt(Sub(s, SortSet(Range(d))), k, w)], "factor_shape") :
                    w \in Wrong(Sub(s, SortSet(Range(d)))[k])} : k \in 1..Len(d)}
     : d \in {d \in ValidDims(Len(s)) : Len(d) <= 2}} : s \in Shapes3}

CollapseStimuli ==
  UNION {UNION {{St("collapse", [shape |-> s, dims |-> d], "ok")}
                \cup {St("collapse", [shape |-> s, dims |-> b[1]], b[2]) : b \in BadDimsOf(d, Len(s))}
                : d \in {d \in ValidDims(Len(s)) : Len(d) <= 2}} : s \in Shapes3}

TenmatStimuli ==
  UNION {{St("to_tenmat", [shape |-> s, rdims |-> SubSeq(p, 1, k), cdims |-> SubSeq(p, k + 1, Len(s))], "ok") :
             p \in Perms0(Len(s)), k \in 0..Len(s)}
         \cup {St("to_tenmat", [shape |-> s, rdims |-> <<0>>, cdims |-> SubSeq(IdPerm0(Len(s)), 1, Len(s))], "partition")}
         \cup {St("to_tenmat", [shape |-> s, rdims |-> <<0>>, cdims |-> SubSeq(IdPerm0(Len(s)), 3, Len(s))], "partition")}
         \cup {St("to_tenmat", [shape |-> s, rdims |-> <<0, 0>>, cdims |-> SubSeq(IdPerm0(Len(s)), 2, Len(s))], "partition")}
         \cup {St("to_tenmat", [shape |-> s, rdims |-> <<Len(s)>>, cdims |-> IdPerm0(Len(s))], "in_range")}
         : s \in {<<2, 3, 2>>, <<2, 2>>}}

CtorStimuli ==
  {St("ctor_tensor", [shape |-> s, count |-> c], IF c = Prod(s) THEN "ok" ELSE "count") :
     s \in Shapes3, c \in {1, 4, 6, 8, 11, 12, 13, 24}}
  \cup {St("ctor_sptensor", [shape |-> <<2, 3>>, nsubs |-> ns, nvals |-> nv, width |-> w, maxsub |-> mx], "?") :
          ns \in 1..3, nv \in 1..3, w \in 1..3, mx \in {<<1, 2>>, <<2, 2>>, <<1, 3>>}}
  \cup {St("ctor_ktensor", [rows |-> <<2, 3, 2>>, cols |-> c, nweights |-> nw], "?") :
          c \in {<<2, 2, 2>>, <<2, 1, 2>>, <<2, 2, 3>>, <<1, 1, 1>>}, nw \in 1..3}
  \cup {St("ctor_ttensor", [core |-> <<2, 2, 2>>, rows |-> r, cols |-> c], "?") :
          r \in {<<2, 3, 2>>}, c \in {<<2, 2, 2>>, <<2, 2>>, <<2, 1, 2>>, <<2, 2, 3>>, <<2, 2, 2, 2>>}}
  \cup {St("ctor_sumtensor", [shapes |-> ss], "?") :
          ss \in {<<<<2, 3>>, <<2, 3>>>>, <<<<2, 3>>, <<3, 2>>>>, <<<<2, 3>>, <<2, 3, 1>>>>, <<<<2, 3>>, <<2, 3>>, <<1, 3>>>>}}

MatStimuli ==
  {St("tenmat_mul", [left |-> l, right |-> r], "?") : l \in {<<2, 6>>, <<6, 2>>}, r \in {<<2, 6>>, <<6, 2>>, <<1, 2>>, <<3, 2>>}}
  \cup {St("tenmat_add", [left |-> l, right |-> r], "?") : l \in {<<2, 6>>}, r \in {<<2, 6>>, <<6, 2>>, <<1, 6>>, <<2, 1>>, <<3, 4>>}}
  \* a column and a row unfolding of ONE tensor shape (the harness gives both the tensor shape (6)): numpy would broadcast them
  \cup {St("tenmat_add", [left |-> l, right |-> r], "?") : l \in {<<6, 1>>, <<1, 6>>}, r \in {<<6, 1>>, <<1, 6>>}}
  \cup {St("khatrirao", [cols |-> c], "?") : c \in {<<2, 2>>, <<2, 1>>, <<2, 2, 3>>, <<1, 1, 1>>, <<3, 2, 3>>}}

AlsStimuli ==
  {St("als_options", [shape |-> <<2, 3, 2>>, rank |-> rk, dimorder |-> d, initrows |-> ir, initcols |-> [k \in 1..3 |-> ic]], "?") :
     rk \in {2, 0}, d \in {<<0, 1, 2>>, <<2, 0, 1>>, <<0, 1>>, <<0, 0, 1>>, <<0, 1, 3>>},
     ir \in {<<2, 3, 2>>, <<2, 3, 3>>, <<3, 2, 2>>}, ic \in {2, 3}}

\* ---- families added after the third seeding round (side observations on the unchanged tree)
ArrangeStimuli ==
  {St("k_arrange_perm", [R |-> 3, perm |-> p], w) :
     p \in {<<2, 0, 1>>, <<0, 1, 2>>}, w \in {"ok"}}
  \cup {St("k_arrange_perm", [R |-> 3, perm |-> <<0, 0, 1>>], "distinct"), St("k_arrange_perm", [R |-> 3, perm |-> <<2, 2, 2>>], "distinct"),
        St("k_arrange_perm", [R |-> 3, perm |-> <<0, 1, 3>>], "in_range"), St("k_arrange_perm", [R |-> 3, perm |-> <<0, 1, 0 - 1>>], "in_range"),
        St("k_arrange_perm", [R |-> 3, perm |-> <<0, 1>>], "length"), St("k_arrange_perm", [R |-> 3, perm |-> <<0, 1, 2, 0>>], "?")}
UpdateStimuli ==
  LET rows == <<2, 3, 2>> IN
  {St("k_update", [rows |-> rows, R |-> 2, modes |-> m, datalen |-> SumSeq([k \in 1..Len(m) |-> rows[m[k] + 1] * 2])], "ok") :
     m \in {<<0>>, <<1>>, <<0, 1>>, <<0, 1, 2>>}}
  \cup {St("k_update", [rows |-> rows, R |-> 2, modes |-> m, datalen |-> SumSeq([k \in 1..Len(m) |-> rows[m[k] + 1] * 2]) + d], "data_length") :
          m \in {<<0>>, <<0, 1>>, <<1, 2>>}, d \in {0 - 1, 0 - 4}}
  \cup {St("k_update", [rows |-> rows, R |-> 2, modes |-> <<0, 1>>, datalen |-> 11], "ok")}
  \cup {St("k_update", [rows |-> rows, R |-> 2, modes |-> <<m>>, datalen |-> 4], "modes_in_range") : m \in {3, 0 - 2, 5}}
SpReshapeStimuli ==
  {St("sp_reshape_modes", [shape |-> <<2, 3, 2>>, old_modes |-> <<1, 2>>, target |-> t], IF Prod(t) = 6 THEN "ok" ELSE "count") :
     t \in {<<6>>, <<3, 2>>, <<5>>, <<2, 2>>, <<7, 1>>}}
  \cup {St("sp_reshape_modes", [shape |-> <<2, 3, 2>>, old_modes |-> m, target |-> <<2, 1>>], w[2]) :
          m \in {<<0 - 1>>}, w \in {<<0, "modes_in_range">>}}
  \cup {St("sp_reshape_modes", [shape |-> <<2, 3, 2>>, old_modes |-> <<3>>, target |-> <<2>>], "modes_in_range"),
        St("sp_reshape_modes", [shape |-> <<2, 3, 2>>, old_modes |-> <<0, 0>>, target |-> <<4>>], "?")}
CtorTenmatStimuli ==
  {St("ctor_tenmat", [shape |-> <<2, 2, 2>>, rdims |-> <<0>>, cdims |-> <<1, 2>>, mshape |-> ms], IF ms = <<2, 4>> THEN "ok" ELSE "matrix_shape") :
     ms \in {<<2, 4>>, <<4, 2>>, <<8, 1>>, <<1, 8>>}}
  \cup {St("ctor_tenmat", [shape |-> <<2, 3>>, rdims |-> <<1>>, cdims |-> <<0>>, mshape |-> ms], IF ms = <<3, 2>> THEN "ok" ELSE "matrix_shape") :
          ms \in {<<3, 2>>, <<2, 3>>, <<6, 1>>}}
CtorSptenmatStimuli ==
  {St("ctor_sptenmat", [shape |-> <<2, 3, 2>>, rdims |-> <<0>>, cdims |-> <<1, 2>>, maxrow |-> r, maxcol |-> c],
      IF r < 2 /\ c < 6 THEN "ok" ELSE IF r >= 2 /\ c >= 6 THEN "?" ELSE IF r >= 2 THEN "rows_inside" ELSE "cols_inside") :
     r \in {1, 2, 3}, c \in {5, 6, 7}}
CtorSpNegStimuli ==
  {St("ctor_sptensor_neg", [shape |-> s, minsub |-> m], IF m >= 0 THEN "ok" ELSE "nonneg") : s \in {<<2, 3>>, <<2, 3, 2>>}, m \in {0, 0 - 1, 0 - 2}}

\* ---- families added after the fourth seeding round (side observations: arguments accepted silently)
ModeArgStimuli ==
  {St("k_mode_arg", [N |-> 3, op |-> o, mode |-> m], IF m \in 0..2 THEN "ok" ELSE "mode_in_range") :
     o \in {"normalize_wf", "normalize_mode", "redistribute", "arrange_wf"}, m \in {0, 2, 3, 5, 0 - 1, 0 - 3}}
ExtractStimuli ==
  {St("k_extract", [R |-> 3, idx |-> i, form |-> f], "?") :
     i \in {<<0>>, <<2>>, <<1, 0>>, <<0, 1, 2>>, <<3>>, <<0, 3>>, <<0 - 1>>, <<0, 0 - 1>>, <<0 - 3>>, <<0 - 4, 1>>, <<>>, <<0, 1, 2, 0>>},
     f \in {"list", "tuple", "array"}}
  \cup {St("k_extract", [R |-> 3, idx |-> <<i>>, form |-> "int"], "?") : i \in {0, 2, 3, 0 - 1, 0 - 3}}
\* ---- families added after the ninth seeding round (side observations)
SptenmatSetStimuli ==
  {St("sptenmat_setitem", [nrows |-> 2, ncols |-> 4, r |-> r, c |-> c], "?") : r \in {0, 1, 2, 10, 0 - 1}, c \in {0, 3, 4, 10, 0 - 1}}
MttkrpsStimuli ==
  {St("mttkrps_factors", [shape |-> <<2, 3, 2>>, rows |-> rw, cols |-> cl], "?") :
     rw \in {<<2, 3, 2>>, <<2, 4, 2>>, <<2, 3, 1>>, <<3, 3, 2>>, <<2, 3>>, <<2, 3, 2, 2>>},
     cl \in {<<2, 2, 2, 2>>, <<2, 3, 2, 2>>, <<1, 1, 1, 1>>}}
SetBlockStimuli ==
  {St("setitem_block", [shape |-> <<2, 2>>, hi |-> h, vshape |-> v], "?") :
     \* (value shapes that numpy could broadcast into the region - a row into a block - are left out: dense assignment
     \* follows numpy there, DESIGN 12.9)
     h \in {<<2, 2>>, <<3, 3>>, <<2, 4>>}, v \in {<<2, 2>>, <<3, 3>>, <<2, 4>>, <<2, 3>>, <<3, 2>>}}
FixsignsStimuli ==
  {St("fixsigns_other", [rows |-> <<2, 3, 2>>, R |-> 2, orows |-> orw, oR |-> r], "?") :
     orw \in {<<2, 3, 2>>, <<3, 3, 2>>, <<2, 3, 4>>, <<2, 3>>}, r \in {1, 2, 3}}
\* the weights pseudo-mode -1 together with factor modes: data short by less than one block, or sufficient
UpdateWeightsStimuli ==
  {St("k_update", [rows |-> <<2, 3, 2>>, R |-> 2, modes |-> m, datalen |-> d],
      IF d >= SumSeq([k \in 1..Len(m) |-> IF m[k] = 0 - 1 THEN 2 ELSE <<2, 3, 2>>[m[k] + 1] * 2]) THEN "ok" ELSE "data_length") :
     m \in {<<0 - 1>>, <<0 - 1, 0>>, <<0 - 1, 1, 2>>}, d \in {1, 2, 4, 5, 6, 11, 12}}
UpdateRepStimuli ==
  {St("k_update", [rows |-> <<2, 3, 2>>, R |-> 2, modes |-> m, datalen |-> 24], "modes_distinct") : m \in {<<0, 0>>, <<1, 2, 1>>}}
ReconstructStimuli ==
  {St("tt_reconstruct", [N |-> 3, modes |-> m], w) :
     m \in {<<0>>, <<2, 0>>, <<0, 1, 2>>}, w \in {"ok"}}
  \cup {St("tt_reconstruct", [N |-> 3, modes |-> <<3>>], "modes_in_range"), St("tt_reconstruct", [N |-> 3, modes |-> <<0 - 1>>], "modes_in_range"),
        St("tt_reconstruct", [N |-> 3, modes |-> <<0, 5>>], "modes_in_range"),
        St("tt_reconstruct", [N |-> 3, modes |-> <<0, 0>>], "modes_distinct"), St("tt_reconstruct", [N |-> 3, modes |-> <<1, 2, 1>>], "modes_distinct")}
TuckerRankStimuli ==
  {St("tucker_ranks", [shape |-> <<3, 4, 2>>, ranks |-> r, auto |-> au], "?") :
     r \in {<<2, 2, 2>>, <<3, 4, 2>>, <<1, 1, 1>>, <<2, 0, 2>>, <<0, 0, 0>>, <<4, 2, 2>>, <<2, 2, 3>>, <<2, 2>>, <<2, 2, 2, 2>>, <<0 - 1, 2, 2>>, <<2, 5, 1>>},
     au \in {TRUE, FALSE}}
OptdimsStimuli ==
  {St("als_optdims", [N |-> 3, optdims |-> d], "?") :
     d \in {<<0, 1, 2>>, <<1>>, <<2, 0>>, <<0, 3>>, <<7>>, <<0 - 1>>, <<0, 0>>, <<1, 2, 1>>}}
CtorSptenmatNegStimuli ==
  {St("ctor_sptenmat_neg", [minrow |-> r, mincol |-> c], IF r >= 0 /\ c >= 0 THEN "ok" ELSE "nonneg") : r \in {0, 0 - 1}, c \in {0, 0 - 2}}

\* symmetry groups: disjoint sets of modes; overlaps between neighbouring and between non-neighbouring groups
SymGroupStimuli ==
  {St("sym_groups", [N |-> 5, grps |-> g[1], version |-> v], g[2]) :
     g \in {<< <<<<0, 1>>, <<2, 3>>>>, "ok" >>, << <<<<0, 1>>, <<2, 3>>, <<4, 0>>>>, "groups_disjoint" >>,
            << <<<<0, 1>>, <<1, 2>>>>, "groups_disjoint" >>, << <<<<0>>, <<1>>, <<0>>>>, "groups_disjoint" >>,
            << <<<<0, 4>>, <<1, 3>>, <<3, 2>>>>, "groups_disjoint" >>, << <<<<0, 1, 2>>>>, "ok" >>,
            << <<<<0, 0>>>>, "groups_disjoint" >>, << <<<<0, 5>>>>, "modes_in_range" >>, << <<<<0 - 1, 0>>>>, "modes_in_range" >>,
            << <<<<0, 1>>, <<0 - 2, 3>>>>, "modes_in_range" >>, << <<<<3, 1>>, <<4, 2>>>>, "ok" >>},
     v \in {0, 1}}

NvecsArgStimuli ==
  {St("nvecs_args", [shape |-> <<3, 4, 2>>, n |-> n, r |-> r], "?") : n \in {0, 2, 3, 0 - 1}, r \in {1, 2, 3, 5, 0}}

All ==
  (IF "ttv" \in Fams THEN TtvStimuli ELSE {}) \cup (IF "ttm" \in Fams THEN TtmStimuli ELSE {})
  \cup (IF "mttkrp" \in Fams THEN {x \in MttkrpStimuli : MttkrpOk(x)} ELSE {})
  \cup (IF "permute" \in Fams THEN PermuteStimuli ELSE {})
  \cup (IF "misc" \in Fams THEN ReshapeStimuli \cup SameShapeStimuli \cup ContractStimuli \cup ScaleStimuli
                               \cup CollapseStimuli \cup TenmatStimuli \cup CtorStimuli \cup MatStimuli \cup AlsStimuli
        ELSE {})
  \cup (IF "more" \in Fams THEN ArrangeStimuli \cup UpdateStimuli \cup SpReshapeStimuli \cup CtorTenmatStimuli
                               \cup CtorSptenmatStimuli \cup CtorSpNegStimuli ELSE {})
  \cup (IF "args" \in Fams THEN ModeArgStimuli \cup ExtractStimuli \cup UpdateRepStimuli \cup UpdateWeightsStimuli \cup ReconstructStimuli \cup TuckerRankStimuli
                               \cup OptdimsStimuli \cup CtorSptenmatNegStimuli \cup SymGroupStimuli \cup NvecsArgStimuli
                               \cup SptenmatSetStimuli \cup MttkrpsStimuli \cup SetBlockStimuli \cup FixsignsStimuli ELSE {})

\* keep the well-formed requests and those violating exactly one clause
\* keep the well-formed requests and those violating at most two clauses (single-clause violations
\* exercise each clause on its own; pairs catch checks that only look at one aspect, e.g. set(order))
Keep(x) == Cardinality(Failing(x.fam, x.a)) <= 2

Init == /\ stim \in {x \in All : Keep(x)} /\ last = "none" /\ done = FALSE

DoEmit == /\ ~done
          /\ LET f == Failing(stim.fam, stim.a)
                 res == [raised |-> f # {}, unchanged |-> TRUE]
             IN  /\ (Answer(stim.fam, stim.a, res) \/ Reject(stim.fam, stim.a, res))
                 /\ PrintT(ToJson([fam |-> stim.fam, a |-> stim.a,
                                   clause |-> IF f = {} THEN "ok" ELSE CHOOSE c \in f : TRUE]))
          /\ done' = TRUE /\ UNCHANGED stim

Next == DoEmit
Spec == Init /\ [][Next]_vars

\* (M) every constructed stimulus fails exactly the clause it was meant to fail
OneClause == stim.want = "?" \/
             (IF stim.want = "ok" THEN Failing(stim.fam, stim.a) = {} ELSE stim.want \in Failing(stim.fam, stim.a))

=============================================================================
