------------------------------- MODULE Gcp_Gen ------------------------------
(* (M)+(G) for Gcp: models, data, weights, losses, sample lists.            *)
EXTENDS Gcp, Json

CONSTANT ShapeC

VARIABLES stim, done
vars == <<last, stim, done>>

N0 == Len(ShapeC)
NC == Prod(ShapeC)
\* models: rank 1..2, entries in -1..2, weights all one or (2,-1)/(3)
FacE(k, i, r, sel) == ((i + 2 * r + k + sel) % 4) - 1
\* weights: all one / mixed (some exactly one, some not) / none equal to one
Model(R, sel, wk) == [w |-> CASE wk = "ones"  -> [r \in 1..R |-> 1]
                            [] wk = "mixed" -> [r \in 1..R |-> IF r = 1 THEN 1 ELSE 3]
                            [] wk = "non"   -> [r \in 1..R |-> IF r = 1 THEN 2 ELSE 0 - 1],
                        U |-> [k \in 1..N0 |-> [i \in 1..ShapeC[k] |-> [r \in 1..R |-> FacE(k, i, r, sel)]]]]
Data(sel) == [shape |-> ShapeC, v |-> [c \in 1..NC |-> (c * 3 + sel) % 4]]
Ones  == ConstD(ShapeC, 1)
Wts(sel) == [shape |-> ShapeC, v |-> [c \in 1..NC |-> (c + sel) % 3]]
Losses == {[name |-> "gaussian", t |-> 0], [name |-> "huber", t |-> 1], [name |-> "huber", t |-> 2],
           [name |-> "huber", t |-> 50], [name |-> "quad", t |-> 0]}

AllSubs == [c \in 1..NC |-> Unlin(ShapeC, c - 1)]
\* sample lists: every entry once (F order / reversed / rotated), a sub-list, a list with repetitions
SampleIdx == {[c \in 1..NC |-> c], [c \in 1..NC |-> NC + 1 - c], [c \in 1..NC |-> (c % NC) + 1],
              [c \in 1..(NC - 1) |-> c + 1], [c \in 1..(NC + 2) |-> ((c * 3) % NC) + 1], <<1>>}

Stimuli ==
  {[op |-> "evaluate", a |-> [loss |-> l, K |-> Model(R, sel, u), X |-> Data(sel), W |-> w, hasW |-> w # Ones,
                             sparse |-> sp]] :
     l \in Losses, R \in 1..2, sel \in 0..2, u \in {"ones", "mixed", "non"}, w \in {Ones, Wts(0), Wts(1)}, sp \in BOOLEAN}
  \cup
  {[op |-> "estimate", a |-> [loss |-> l, K |-> Model(R, sel, u), X |-> Data(sel),
                             subs |-> [s \in 1..Len(ix) |-> AllSubs[ix[s]]],
                             vals |-> [s \in 1..Len(ix) |-> Data(sel).v[ix[s]]],
                             ws |-> [s \in 1..Len(ix) |-> IF uw THEN 1 ELSE (s % 3) + (IF cr > 0 THEN 1 ELSE 0)],
                             crng |-> IF Len(ix) >= 2 THEN cr ELSE 0,
                             full_unit |-> (uw /\ cr = 0 /\ ix = [c \in 1..NC |-> c])]] :
     l \in Losses, R \in 1..2, sel \in 0..1, u \in {"ones", "mixed", "non"}, ix \in SampleIdx, uw \in BOOLEAN, cr \in {0, 2}}

GridX == <<0, 0, 0, 1, 1, 2, 2, 3, 3, 3, 0, 2>>
GridM == <<0, 1, 0 - 2, 1, 3, 2, 0 - 1, 0, 5, 3, 4, 0 - 3>>
ElemStimuli == {[op |-> "element", a |-> [loss |-> l, xs |-> GridX, ms |-> GridM]] : l \in {x \in Losses : x.name # "quad"}}

Init == stim \in Stimuli \cup ElemStimuli /\ last = "none" /\ done = FALSE
DoEmit == ~done /\ PrintT(ToJson(stim)) /\ done' = TRUE /\ UNCHANGED <<stim, last>>
Next == DoEmit
Spec == Init /\ [][Next]_vars

\* (M) the chain-rule gradient is the exact derivative (central difference) for the quadratic
\* losses; the estimator on every entry with unit weights is the exact objective / gradient
QuadraticLoss(l) == l.name \in {"gaussian", "quad"} \/ (l.name = "huber" /\ l.t >= 50)
GradLaw == (stim.op = "evaluate" /\ QuadraticLoss(stim.a.loss) /\ UnitWeights(stim.a.K)) =>
             GradCR(stim.a.loss, stim.a.K, stim.a.X, stim.a.W) = GradCD(stim.a.loss, stim.a.K, stim.a.X, stim.a.W)
ElementLaw == \A l \in Losses : QuadraticLoss(l) =>
                \A x \in 0..3, m \in (0 - 4)..4 : F(l, x, m + 1) - F(l, x, m - 1) = 2 * G(l, x, m)
\* without a correction range the corrected estimators are the plain ones
CrngLaw == (stim.op = "estimate" /\ stim.a.crng = 0) =>
             /\ EstFc(stim.a.loss, stim.a.K, stim.a.subs, stim.a.vals, stim.a.ws, 0) = EstF(stim.a.loss, stim.a.K, stim.a.subs, stim.a.vals, stim.a.ws)
             /\ EstGc(stim.a.loss, stim.a.K, stim.a.subs, stim.a.vals, stim.a.ws, 0) = EstG(stim.a.loss, stim.a.K, stim.a.subs, stim.a.vals, stim.a.ws)
EstLaw == (stim.op = "estimate" /\ stim.a.full_unit) =>
            /\ EstF(stim.a.loss, stim.a.K, stim.a.subs, stim.a.vals, stim.a.ws) = Objective(stim.a.loss, stim.a.K, stim.a.X, Ones)
            /\ UnitWeights(stim.a.K) =>
                 EstG(stim.a.loss, stim.a.K, stim.a.subs, stim.a.vals, stim.a.ws) = GradCR(stim.a.loss, stim.a.K, stim.a.X, Ones)

=============================================================================
