#!/usr/bin/env python3
"""tools/seed_matrix.py [ids...] : apply each seeded change to /repo, run the property's quick check, undo, record the verdict in
seeded/<id>/meta.json ("detected_by").  Development aid; never run concurrently with other checks (it edits /repo)."""
import json, os, re, subprocess, sys
from pathlib import Path
V = Path("/verif")
ids = sys.argv[1:] or sorted(p.name for p in (V / "seeded").iterdir() if p.is_dir())
for sid in ids:
    d = V / "seeded" / sid
    meta = json.loads((d / "meta.json").read_text())
    prop = meta["property"]
    if subprocess.run(["git", "-C", "/repo", "diff", "--quiet"]).returncode != 0:
        sys.exit("repo dirty")
    ok = False
    for cmd in (["git", "-C", "/repo", "apply", str(d / "patch.diff")], ["git", "-C", "/repo", "apply", "-C1", str(d / "patch.diff")],
                ["sh", "-c", f"cd /repo && patch -p1 -s --fuzz=3 < {d / 'patch.diff'}"]):
        if subprocess.run(cmd, capture_output=True).returncode == 0:
            ok = True
            break
    if not ok:
        subprocess.run(["git", "-C", "/repo", "checkout", "--", "."])
        print(sid, "PATCH DOES NOT APPLY")
        meta["detected_by"] = {"status": "patch no longer applies to the repaired tree"}
        (d / "meta.json").write_text(json.dumps(meta, indent=1))
        continue
    try:
        r = subprocess.run([str(V / "check"), prop, "--tier", "quick"], capture_output=True, text=True, timeout=3000)
    finally:
        subprocess.run(["git", "-C", "/repo", "checkout", "--", "."])
        subprocess.run(["sh", "-c", "cd /repo && git clean -fdq -- pyttb"], capture_output=True)
    viol = [l for l in r.stdout.splitlines() if l.startswith("VIOLATION")]
    clauses = sorted({re.sub(r"\s*\(\d+ case.*", "", l.split("#", 1)[1].strip()) if "#" in l else "" for l in viol})
    meta["detected_by"] = {"check": f"./check {prop} --tier quick", "exit_code": r.returncode, "violation_lines": len(viol),
                           "clauses": clauses[:8]}
    (d / "meta.json").write_text(json.dumps(meta, indent=1))
    print(sid, "rc=%d" % r.returncode, len(viol), clauses[:2])
