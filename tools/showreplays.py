#!/venv/bin/python
import json,glob,sys
for f in sorted(glob.glob(f'/verif/replays/{sys.argv[1]}_*.json')):
    d=json.load(open(f))
    st=d["stimulus"]; ev=st["ev"][-1]
    w=int(sys.argv[2]) if len(sys.argv)>2 else 260
    print("##",d["site"], d["why"], d["count_in_group"], d.get("tags"))
    print("   init:", json.dumps(st["init"])[:w], "| pres", st.get("pres"))
    print("   ev:", json.dumps({k:ev[k] for k in ("op","args")})[:w+200])
    print("   ret:", json.dumps(ev["ret"])[:w], "| exp:", json.dumps(st.get("expected"))[:w])
