#!/venv/bin/python
"""showsrc.py FILE name [name...] : print functions without docstrings (dev aid)."""
import ast, sys
fn=sys.argv[1]; names=set(sys.argv[2:])
src=open(fn).read(); lines=src.split('\n')
tree=ast.parse(src)
for node in ast.walk(tree):
    if isinstance(node,(ast.FunctionDef,)) and (node.name in names or not names):
        start=node.lineno; end=node.end_lineno
        body0=node.body[0]; ds=None
        if isinstance(body0,ast.Expr) and isinstance(getattr(body0,'value',None),ast.Constant) and isinstance(body0.value.value,str):
            ds=(body0.lineno,body0.end_lineno)
        print(f"--- {fn}:{start} {node.name}")
        for i in range(start,end+1):
            if ds and ds[0]<=i<=ds[1]: continue
            print(f"{i}: {lines[i-1]}")
