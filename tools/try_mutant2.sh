#!/bin/sh
# try_mutant2.sh <dir-with-patch.diff> <check-id> [tier]
# development aid: apply a seeded change to a scratch worktree (never to /repo), run the check against it with
# evidence / replays redirected to a scratch directory, print the verdict, remove everything.
D=$1; ID=$2; TIER=${3:-quick}
N=$(basename "$D")
WT=/tmp/mw_$N; OUT=/tmp/mw_${N}_out
rm -rf "$WT" "$OUT"; git -C /repo worktree prune
git -C /repo worktree add -q --detach "$WT" HEAD || exit 9
( cd "$WT" && ( git apply "$D/patch.diff" 2>/dev/null || git apply -C1 "$D/patch.diff" 2>/dev/null || patch -p1 -s --fuzz=3 < "$D/patch.diff" ) ) || { echo "$N: patch does not apply"; git -C /repo worktree remove --force "$WT"; exit 9; }
mkdir -p "$OUT"
VERIF_REPO=$WT VERIF_OUT=$OUT /verif/check "$ID" --tier "$TIER" > "$OUT/log.txt" 2>&1
RC=$?
echo "$N rc=$RC $(grep -c 'VIOLATION' $OUT/log.txt) violation line(s): $(grep 'VIOLATION' $OUT/log.txt | sed 's/.*# //' | cut -c1-110 | head -3 | tr '\n' ';')"
[ "$RC" = 2 ] && tail -5 "$OUT/log.txt"
git -C /repo worktree remove --force "$WT"; rm -rf "$OUT"
exit $RC
