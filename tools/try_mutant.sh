#!/bin/sh
# try_mutant.sh <patch.diff> <check-id> [tier]   (development aid: apply, run the check, undo)
P=$1; ID=$2; TIER=${3:-quick}
cd /repo || exit 9
git diff --quiet || { echo "repo dirty"; exit 9; }
git apply "$P" 2>/dev/null || git apply -C1 "$P" 2>/dev/null || patch -p1 -s --fuzz=3 < "$P" || { echo "patch does not apply"; git checkout -- .; exit 9; }
cd /verif && ./check "$ID" --tier "$TIER" 2>&1 | tail -${TAIL:-6}
RC=$?
git -C /repo checkout -- .
git -C /repo diff --quiet && echo "[repo restored]"
