#!/bin/sh
# seed2_one.sh <dir> : confirm a seeded change in a scratch worktree (demo clean -> 0, patched -> non-zero, pinned
# suite passes with the patch), run the property's quick check against the patched worktree, write <dir>/result.json
D=$1; N=$(basename "$D"); ID=$(echo "$N" | cut -c1-3)
WT=/tmp/mw_$N; OUT=/tmp/mw_${N}_out
rm -rf "$WT" "$OUT"; git -C /repo worktree prune
git -C /repo worktree add -q --detach "$WT" HEAD || exit 9
cd "$WT" || exit 9
PYTHONPATH=$WT timeout 600 /venv/bin/python "$D/demo.py" > "$D/demo_clean.log" 2>&1; DC=$?
APPLIES=true
git apply "$D/patch.diff" 2>/dev/null || git apply -C1 "$D/patch.diff" 2>/dev/null || patch -p1 -s --fuzz=3 < "$D/patch.diff" || APPLIES=false
PYTHONPATH=$WT timeout 600 /venv/bin/python "$D/demo.py" > "$D/demo_patched.log" 2>&1; DP=$?
PT=$(timeout 1200 /venv/bin/python -m pytest -ra -q -p no:cacheprovider --timeout=900 --continue-on-collection-errors 2>&1 | tail -1)
mkdir -p "$OUT"
VERIF_REPO=$WT VERIF_OUT=$OUT /verif/check "$ID" --tier quick > "$OUT/log.txt" 2>&1; RC=$?
grep '^VIOLATION' "$OUT/log.txt" | sed 's/.*# //' | sed 's/ *([0-9]* case.*//' | cut -c1-160 | sort -u | head -8 > "$D/clauses.txt"
NV=$(grep -c '^VIOLATION' "$OUT/log.txt")
[ "$RC" = 2 ] && tail -8 "$OUT/log.txt" > "$D/machinery.txt"
cd /; git -C /repo worktree remove --force "$WT"; rm -rf "$OUT"
printf '{"id":"%s","applies":%s,"demo_clean_exit":%s,"demo_patched_exit":%s,"pytest":"%s","check_rc":%s,"violation_lines":%s}\n' "$N" "$APPLIES" "$DC" "$DP" "$PT" "$RC" "$NV" > "$D/result.json"
cat "$D/result.json"
