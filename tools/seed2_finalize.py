#!/usr/bin/env python3
"""Copy confirmed seeded changes (rounds 2-4) from their scratch directory into /verif/seeded with their meta.json."""
import json, shutil, sys
from pathlib import Path
SRC, DST = Path(sys.argv[1] if len(sys.argv) > 1 else "/tmp/seed2"), Path("/verif/seeded")
ROUND = int(sys.argv[2]) if len(sys.argv) > 2 else 2
MISSED = {"C02C": "sparse collapse with max / min on sign-definite data added to Products_Gen",
          "C06C": "scalar assignment into regions holding stored entries added to the C06 operation table",
          "C13C": "line-search-limited (maxls = 1, 2) L-BFGS-B runs on data near the start added",
          "C16C": "4-way and 5-way dense shapes with two inner modes > 1 added to FileFormat_Gen",
          "C19C": "receivers without stored entries added to every request family",
          "C09C": "run options drawn independently (sum-tensor data was only ever run with printitn = 0 in the quick tier)",
          "C09D": "ranks 3 with non-monotone component sizes added (sorting permutation that is not an involution)",
          "C01D": "Kruskal / Tucker holders of order 5 and unbalanced order 4 added (three factors in one Khatri-Rao group)",
          "C10D": "unbalanced Tucker rank vectors (one rank larger than the product of the others) added",
          "C14C": "dense holder with int16 storage added",
          "C18C": "scale factors 1e-6 and 1e6 added"}
if ROUND == 3:
    MISSED = {"C01E": "'grown' presentation: dense tensors completed by assignment beyond their shape (C-ordered internal data)",
              "C01F": "narrow-integer (int8) subscript arrays and a sparse shape whose mode products exceed 127",
              "C02E": "a reducer with non-integer values on integer-typed data (halved sum)",
              "C04E": "read results are held across the following write (neither may change the other)",
              "C04F": "strided slices in the key alphabet of reads and writes",
              "C05F": "tensor-valued assignments; an in-place operation may not make the receiver share an operand",
              "C06E": "one subscript batch that deletes, changes and adds entries",
              "C07E": "'grown' presentation (see C01E)",
              "C08E": "Kruskal tensors with C-ordered internal factor matrices (the state normalize(weight_factor) leaves behind)",
              "C08F": "unevenly balanced Kruskal parameterisation (factor scaled by 2^-60, weights by 2^60)",
              "C09F": "integer-typed (int64) dense and sparse data",
              "C10E": "int32 data of magnitude 2e4 and float32 data for hosvd",
              "C10F": "all runs of one problem start from the same list object; the first result and the list are re-checked afterwards",
              "C11E": "warm starts with non-uniform weights and the tightest iteration limits",
              "C11F": "runs ended by the time limit (stoptime = 0)",
              "C12E": "correction range with non-unit sample weights in the sampled estimators (EstFc / EstGc)",
              "C12F": "order-5 and lopsided order-4 shapes (two or more intermediate modes contracted at once)",
              "C14E": "data magnitudes 1e-9 and 1e7",
              "C14F": "oblique (non-orthogonal) Kruskal components with unequal weights",
              "C15E": "injective relabelling of the values to +-inf for issymmetric",
              "C15F": "signed weights for symmetric Kruskal inputs of even order",
              "C17E": "injective relabelling of row entries (negative, huge)",
              "C17F": "mixed element types of the Khatri-Rao factors",
              "C18E": "unequal Tucker ranks under relabelling",
              "C18F": "element type (int64) as a presentation coordinate",
              "C19F": "ill-formed factor collections handed over as a Kruskal tensor"}
if ROUND == 4:
    MISSED = {"C03H": "a common power-of-two magnitude (2^-600, 2^600) on both operands of the logical and comparison operators",
              "C05G": "a receiver with a singleton mode and unfoldings that move only that mode",
              "C06H": "a tensor at non-dyadic values compared with its own sorted / reversed storage",
              "C07G": "IndexMaps_Wide: reshaped modes longer than every mode of the operand, narrow subscript types",
              "C08H": "the parameter vector stays with the caller and a second Kruskal tensor is built from it",
              "C09G": "data magnitude (2^-40, 2^30) as a presentation of the CP-ALS problem",
              "C10G": "'choose the rank automatically' spelled as an explicit vector of zeros; vectors as array / list / tuple",
              "C11G": "integer-typed (int64) count data",
              "C12G": "integer-typed data (int64, uint8) for the count and indicator losses",
              "C15G": "8-bit and boolean element types for symmetrize / issymmetric",
              "C15H": "Kruskal symmetry test on factor matrices that differ by 1e-7 .. 1e-12 relative",
              "C16G": "sparse tensors at the far end of a mode longer than 2^53",
              "C17H": "last-index-fastest numbering of the mirrored problem (order='C')",
              "C18G": "starting guesses with an all-zero row for the CP-APR problems",
              "C18H": "an option object that has already solved a problem of another size; long L-BFGS-B runs",
              "C20G": "function handles returning C-ordered / strided arrays"}
if ROUND == 5:
    MISSED = {"C02J": "the receiver's arrays are compared before / after every product (first run: TLC integer overflow = machinery failure, not a verdict)",
              "C03I": "sparse operand holding halves against an integer-typed dense operand (the other half added by the harness)",
              "C03J": "scalar products scaled to 2^-80 (small products are entries like any other)",
              "C04I": "the right-hand side of an assignment is compared before / after (it may be assigned again)",
              "C05J": "a matrix-shaped sparse receiver so that the scipy converter is applied to a live object",
              "C06I": "the matricized form compared with that of the sorted operand (isequal and stored arrays)",
              "C06J": "scalar products that underflow to exactly zero",
              "C07I": "values relabelled to label + 2^53 stored as int64 (tiny operands under both value presentations)",
              "C08I": "a column may be zero in the normal form only if it was zero in the operand",
              "C09I": "counts stored in 8 bits",
              "C10I": "the rank request object is compared before / after the call",
              "C11J": "zero rows of the guess surviving a single outer iteration (objective -inf) as explicit witnesses",
              "C13J": "histories with the solver's own default sampler on one object over different data (PlainWhy)",
              "C14I": "the holder's arrays are compared before / after nvecs",
              "C15J": "the symmetrised tensor may not share storage with its operand",
              "C16I": "subscript offset 2^62 (the element count of the index space exceeds 2^63)",
              "C16J": "header numbers with two digits (rank 10 / 12, mode length 11, 10 columns)",
              "C17I": "the empty selection for dims and exclude_dims",
              "C17J": "int16 / uint8 row matrices",
              "C18I": "the starting guess is one object shared by all runs of a problem",
              "C19I": "the weights pseudo-mode -1 in update requests, data short by less than one block",
              "C20I": "aggregated values scaled by 2^-40 / 2^40"}
if ROUND == 6:
    MISSED = {"C01K": "the matricized form through the constructor with a redundant pair of entries that cancel",
              "C01L": "small magnitudes (2^-40) through sptenmat.from_array",
              "C02K": "homogeneity of the norm on integer-typed data whose squares do not fit the element type",
              "C03L": "quotients by a scalar compared bit for bit with numpy's own division",
              "C04L": "one read that names a position more than once",
              "C06K": "sptenmat constructor with a repeated pair that cancels exactly",
              "C06L": "assignments that add entries to an sptenmat holding its entries in the operand's stored order",
              "C07K": "IndexMaps_Bits: power-of-two shapes with up to 2^62 cells, subscripts as bit strings",
              "C07L": "the result of an index map may not share storage with its operand",
              "C09K": "data magnitude 2^-70",
              "C10K": "16-bit data for tucker_als",
              "C10L": "data magnitudes 2^-30 / 2^25 for hosvd",
              "C12K": "the all-modes kernel against the one-mode kernel for integer-typed factor matrices and non-integer entries",
              "C12L": "model values up to +-300 for the logit losses",
              "C13K": "histories with absurd rates (order 3, rank 2, signed guess): epochs whose estimate is not a number",
              "C13L": "integer- and boolean-typed data for the samplers",
              "C14K": "a symmetric Kruskal tensor whose modes all hold one array object",
              "C15K": "an already symmetric tensor at non-dyadic values keeps its value bit for bit (default algorithm)",
              "C16K": "a sparse tensor with 4500 stored entries",
              "C17L": "the reverse flag of khatrirao as a numpy boolean",
              "C20K": "aggregated values stored in 8 bits",
              "C20L": "every generator call returns a new object (the first result is overwritten before the second call)"}
if ROUND == 7:
    MISSED = {"C02M": "the norm of a Kruskal tensor that denotes zero (difference of two parameterisations) is a number",
              "C02N": "an order-sensitive reducer (weighted sum over the first-index-fastest vector of selected entries)",
              "C03M": "Elementwise_Big: operands with more than 2048 stored entries, values position by position",
              "C04M": "linear slices with bounds counted from the end, running past the end, and with step -1",
              "C05M": "the diagonal generators fed with the caller's arrays",
              "C06N": "a sparse block assigned through an index list that grows the first mode by one",
              "C07M": "the order argument as unsigned / narrow integer arrays",
              "C08M": "every factor huge and the weights tiny: only the product of the column norms leaves the double range",
              "C09M": "starting guesses made of coordinate vectors (Gram matrices with exact zeros)",
              "C11N": "a starting guess with a weight that is exactly zero",
              "C14N": "the sign flag as a numpy boolean / 0-1 integer",
              "C16M": "an export with explicit lossy formats precedes every default-format export",
              "C18M": "runs ended by the time limit under different printing intervals",
              "C18N": "the same counts times 60 kept in 16 bits for hosvd",
              "C19M": "a column and a row unfolding of one tensor shape in tenmat addition",
              "C19N": "constructors called with copy=False",
              "C20M": "the same entries in an index space of more than 2^64 cells"}
if ROUND == 8:
    MISSED = {"C01P": "the result of every conversion shares no storage with its operand (overwritten afterwards)",
              "C02O": "sparse operands with a mode longer than eight indices",
              "C03P": "unsigned narrow numpy scalars as the second operand",
              "C04O": "a linear index one past the end of a dense tensor (growth by linear assignment is rejected)",
              "C05P": "sums, differences, products and quotients with an all-zero / all-one operand of the other holder kind",
              "C06O": "a sparse block assigned through a stepped slice",
              "C07P": "shapes with a mode of size zero for the dense, Kruskal and Tucker holders",
              "C09P": "Tucker data whose core is rescaled in place after its norm was taken (history of the data object)",
              "C10O": "data of magnitude 2^-70 for tucker_als (fit is scale free)",
              "C10P": "tucker_als on a data tensor completed by assignment beyond its first shape (C-ordered storage)",
              "C12P": "joint objective / gradient evaluation with every cell masked out (objective exactly zero)",
              "C14P": "single-component models (a singleton mode) with negative dominant entries",
              "C15P": "the symmetrized tensor of non-integer data passes the symmetry test",
              "C16O": "plain arrays that are not 2-way (kind 'array' added to FileFormat)",
              "C17O": "searches with 1030 and 2500 rows (family 'long' of Helpers_Gen)",
              "C17P": "sub2ind / ind2sub on 2^k shapes with up to 2^62 cells as bit strings (IndexMaps_Bits)",
              "C18P": "cp_als data with a sparsely populated mode (sparse single-mode products)",
              "C19P": "family k_extract: component lists with negative, out-of-range and surplus entries in four spellings",
              "C20P": "teneye of order 6"}
if ROUND == 9:
    MISSED = {"C03Q": "the zeros of a dense divisor stored as negative zeros (x / -0 = -(x / 0))",
              "C06Q": "operands with more than 2048 stored entries (Elementwise_Big shared with C03)",
              "C07Q": "spellings of the target shape of a reshape: tuple, list, integer array, bare integer",
              "C09Q": "sparse data with a sparsely populated mode (sparse single-mode products)",
              "C11Q": "admissible guesses with complementary zeros in two factor matrices (model zero at an observed count)",
              "C13Q": "the bare zero sampler with and without replacement (kind 'zeros' in Sampler.tla)",
              "C14Q": "Tucker tensors with unit-norm but oblique factors",
              "C16Q": "the index base as a numpy integer scalar, also of a narrow type",
              "C18Q": "cp_als problems with one mode held fixed (optdims) under relabelling",
              "C20Q": "densities of index spaces with 2^60 .. 2^64 cells (sptenrand_pow2 in Generators.tla)"}
if ROUND == 10:
    MISSED = {"C13S": "sparse data whose nonzeros are stored reversed / row-sorted / shuffled (stored order as a presentation of the samplers' and solvers' data)",
              "C15S": "values relabelled to 1 + v * 2^-30 for issymmetric (entries that differ, differ by a hair: the test is exact, not a closeness test)"}
if ROUND == 11:
    MISSED = {"C02U": "a Kruskal operand of mttkrp in the parameterisation 'every weight 1 + 2^-20, the weights proper in a factor' (weights a hair away from one are weights)",
              "C05T": "hosvd with a rank request holding zeros ('choose this rank'), as a vector and as a row: the chosen ranks may not be written into the caller's array",
              "C12U": "model value 0.0 (the lower bound of the non-negative models, where only the EPS guard keeps the expressions finite) and data value 0 for the beta loss",
              "C18T": "scale factor 1e-9 in Presentation_Gen, and hosvd problems with the tight tolerance 0.05 in the quick tier (small eigenvalues decide the ranks)"}
if ROUND == 12:
    MISSED = {"C08W": "weights of magnitude one with a negative sign added to Kruskal_Gen (<<-1>>, <<1,-1>>, <<-1,-1,1>>)",
              "C14V": "signed weights for the oblique Kruskal instances of the general-input contract",
              "C04V": "a slice start counted from the end that reaches before the beginning (clipped to the beginning)"}
for d in sorted(SRC.glob("C??[CDEFGHIJKLMNOPQRSTUVWXYZ]")):
    rj = d / "result.json"
    if not rj.exists():
        print(d.name, "no result"); continue
    r = json.loads(rj.read_text())
    ok = r["applies"] and r["demo_clean_exit"] == 0 and r["demo_patched_exit"] != 0 and "208 passed" in r["pytest"]
    if not ok:
        print(d.name, "NOT CONFIRMED", r); continue
    t = DST / d.name
    t.mkdir(exist_ok=True)
    for f in ("patch.diff", "demo.py", "notes.md"):
        shutil.copy(d / f, t / f)
    clauses = [l.strip() for l in (d / "clauses.txt").read_text().splitlines() if l.strip()] if (d / "clauses.txt").exists() else []
    meta = {"property": d.name[:3], "mutant": d.name[3], "round": ROUND,
            "needs_to_manifest": (d / "notes.md").read_text().strip()[:2500],
            "confirmed": {"worktree": "scratch git worktree of /repo HEAD under /tmp (removed afterwards)", "patch_applies": True,
                          "pytest_with_patch": r["pytest"], "demo_clean_exit": r["demo_clean_exit"],
                          "demo_with_patch_exit": r["demo_patched_exit"],
                          "commands": ["tools/seed2_one.sh <dir>: demo.py on the clean worktree, git apply patch.diff, demo.py, pinned pytest command, "
                                       "VERIF_REPO=<worktree> ./check <ID> --tier quick"]},
            "detected_by": {"check": f"./check {d.name[:3]} --tier quick", "exit_code": r["check_rc"],
                            "violation_lines": r["violation_lines"], "clauses": clauses[:8]}}
    if d.name in MISSED:
        meta["first_run"] = {"detected": False, "strengthening": MISSED[d.name]}
    (t / "meta.json").write_text(json.dumps(meta, indent=1))
    print(d.name, "rc", r["check_rc"], r["violation_lines"])
