#!/usr/bin/env python3
"""Copy the confirmed round-2 seeded changes from /tmp/seed2 into /verif/seeded with their meta.json."""
import json, shutil, sys
from pathlib import Path
SRC, DST = Path("/tmp/seed2"), Path("/verif/seeded")
MISSED = {"C02C": "sparse collapse with max / min on sign-definite data added to Products_Gen",
          "C06C": "scalar assignment into regions holding stored entries added to the C06 operation table",
          "C13C": "line-search-limited (maxls = 1, 2) L-BFGS-B runs on data near the start added",
          "C16C": "4-way and 5-way dense shapes with two inner modes > 1 added to FileFormat_Gen",
          "C19C": "receivers without stored entries added to every request family",
          "C09C": "run options drawn independently (sum-tensor data was only ever run with printitn = 0 in the quick tier)",
          "C09D": "ranks 3 with non-monotone component sizes added (sorting permutation that is not an involution)",
          "C01D": "Kruskal / Tucker holders of order 5 and unbalanced order 4 added (three factors in one Khatri-Rao group)",
          "C10D": "unbalanced Tucker rank vectors (one rank larger than the product of the others) added",
          "C14C": "dense holder with int16 storage added",
          "C18C": "scale factors 1e-6 and 1e6 added"}
for d in sorted(SRC.glob("C??[CD]")):
    rj = d / "result.json"
    if not rj.exists():
        print(d.name, "no result"); continue
    r = json.loads(rj.read_text())
    ok = r["applies"] and r["demo_clean_exit"] == 0 and r["demo_patched_exit"] != 0 and "208 passed" in r["pytest"]
    if not ok:
        print(d.name, "NOT CONFIRMED", r); continue
    t = DST / d.name
    t.mkdir(exist_ok=True)
    for f in ("patch.diff", "demo.py", "notes.md"):
        shutil.copy(d / f, t / f)
    clauses = [l.strip() for l in (d / "clauses.txt").read_text().splitlines() if l.strip()] if (d / "clauses.txt").exists() else []
    meta = {"property": d.name[:3], "mutant": d.name[3], "round": 2,
            "needs_to_manifest": (d / "notes.md").read_text().strip()[:2500],
            "confirmed": {"worktree": "scratch git worktree of /repo HEAD under /tmp (removed afterwards)", "patch_applies": True,
                          "pytest_with_patch": r["pytest"], "demo_clean_exit": r["demo_clean_exit"],
                          "demo_with_patch_exit": r["demo_patched_exit"],
                          "commands": ["tools/seed2_one.sh <dir>: demo.py on the clean worktree, git apply patch.diff, demo.py, pinned pytest command, "
                                       "VERIF_REPO=<worktree> ./check <ID> --tier quick"]},
            "detected_by": {"check": f"./check {d.name[:3]} --tier quick", "exit_code": r["check_rc"],
                            "violation_lines": r["violation_lines"], "clauses": clauses[:8]}}
    if d.name in MISSED:
        meta["first_run"] = {"detected": False, "strengthening": MISSED[d.name]}
    (t / "meta.json").write_text(json.dumps(meta, indent=1))
    print(d.name, "rc", r["check_rc"], r["violation_lines"])
