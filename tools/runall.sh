#!/bin/sh
# tools/runall.sh [quick|thorough] : run every check registered in MANIFEST.json, summarise
TIER=${1:-quick}
cd "$(dirname "$0")/.."
mkdir -p /tmp/verif-runall
for id in C01 C02 C03 C04 C05 C06 C07 C08 C09 C10 C11 C12 C13 C14 C15 C16 C17 C18 C19 C20; do
  s=$(date +%s)
  ./check $id --tier $TIER > /tmp/verif-runall/$id.$TIER.log 2>&1
  rc=$?
  e=$(date +%s)
  echo "$id rc=$rc $((e-s))s known=$(grep -c '^KNOWN-FINDING' /tmp/verif-runall/$id.$TIER.log) viol=$(grep -c '^VIOLATION' /tmp/verif-runall/$id.$TIER.log) | $(tail -1 /tmp/verif-runall/$id.$TIER.log | cut -c1-150)"
done
