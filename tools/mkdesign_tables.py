#!/usr/bin/env python3
"""Fill the generated tables of DESIGN.md section 12 from known_findings.json and seeded/*/meta.json."""
import json, re
from pathlib import Path
V = Path("/verif")
k = json.loads((V / "known_findings.json").read_text())["findings"]
s = (V / "DESIGN.md").read_text()


def put(tag, body):
    global s
    s = re.sub(rf"<!-- {tag}-BEGIN -->.*?<!-- {tag}-END -->", f"<!-- {tag}-BEGIN -->\n{body}\n<!-- {tag}-END -->", s, flags=re.S)


esc = lambda t: str(t).replace("|", "\\|").replace("\n", " ")
rows = ["| property | commit | site | what failed |", "|---|---|---|---|"]
for f in sorted([f for f in k if f["status"] == "fixed"], key=lambda f: f["property"]):
    rows.append(f"| {f['property']} | {esc(f.get('commit'))} | `{esc(f.get('site') or f.get('site_prefix'))}` | {esc(f.get('what'))[:260]} |")
put("FIXED-TABLE", "\n".join(rows))
rows = ["| id | site | when (stimulus predicate) | what fails, and why it is not repaired |", "|---|---|---|---|"]
for f in [f for f in k if f["status"] == "open"]:
    rows.append(f"| {f['id']} | `{esc(f.get('site') or f.get('site_prefix'))}` | {esc(f.get('when'))} | {esc(f.get('what'))[:420]} |")
put("OPEN-TABLE", "\n".join(rows))
rows = ["| seeded change | round | what it changes / needs | caught by | failing clauses reported | first run |", "|---|---|---|---|---|---|"]
for d in sorted((V / "seeded").iterdir()):
    if not (d / "meta.json").exists():
        continue
    m = json.loads((d / "meta.json").read_text())
    need = m.get("needs_to_manifest", "")
    first = need.strip().split("\n")[0].lstrip("- ").replace("Change:", "").replace("**", "").strip()
    det = m.get("detected_by") or {}
    if det.get("check"):
        by = f"`{det['check']}` (exit {det['exit_code']}, {det['violation_lines']} VIOLATION line(s))" if det.get("exit_code") == 1 else f"NOT caught (exit {det.get('exit_code')})"
        cl = "; ".join(det.get("clauses", [])[:3])
    else:
        by, cl = esc(det.get("status", "not run")), ""
    fr = m.get("first_run")
    frs = ("missed; " + fr["strengthening"]) if fr and not fr.get("detected") else "caught"
    rows.append(f"| {d.name} | {m.get('round', 1)} | {esc(first)[:230]} | {by} | {esc(cl)[:260]} | {esc(frs)} |")
put("SEEDED-TABLE", "\n".join(rows))
(V / "DESIGN.md").write_text(s)
print("ok")
