#!/venv/bin/python
"""Regenerate MANIFEST.json from the table below (single source of truth for the interface)."""
import json, sys
from pathlib import Path
V = Path(__file__).resolve().parent.parent
props = [json.loads(l) for l in open(V / "properties.jsonl")]

COMMON_NOTE = ("Trusted base: TLC 1.8 evaluating the TLA+ specification in /verif/spec; alpha/gamma in "
               "harness/bind.py (plain constructors and attribute reads of pyttb objects). Small-scope "
               "assumption of DESIGN 2.5 for the exhaustive part; simulated / random traces go beyond it.")

CHECKS = {
 "C11": dict(engine="CpApr", design="3/C11",
   text=("CpApr.tla: control skeleton of the three Poisson CP algorithms (redistribute mass into mode n, at most MaxInner "
         "inner steps, normalise mass back, one diagnostic entry per outer iteration) model-checked by TLC for its mass "
         "discipline, counting identities and termination; contract on the returned triple validated by TLC on traces "
         "recorded from the real cp_apr over three algorithms x dense / sparse count data with empty slices and all-zero "
         "fibres x orders 2-4 x iteration limits x inner limits x option sets x guesses with all-zero rows: rank/shape, "
         "non-negativity, reported objective = independently recomputed Poisson log-likelihood, one non-negative KKT entry "
         "per outer iteration, limits respected, not less likely than the start, data and guess untouched, diagnostics of "
         "truncated runs prefix-consistent."),
   technique="TLA+ control-skeleton spec CpApr model-checked with TLC; observation-contract trace validation by TLC on traces recorded from the real algorithms",
   note=("Open known findings: pqnr raises 'L-BFGS first iterate is bad' on dense data with an all-zero slice (pinned upstream "
         "as known to fail) and with stoptol = 0 at a stationary row.  The mass discipline inside a run is checked on the "
         "specification only.  Trusted base: numpy log-likelihood oracle in harness/c11.py, TLC.")),
 "C13": dict(engine="GcpSolve+Sampler", design="3/C13",
   text=("GcpSolve.tla: epoch loop of the stochastic GCP solvers (fixed function sample, update steps, failed-epoch detection, "
         "rollback to the best model, termination on failures / tolerance / epoch limit) and the life cycle of one optimizer "
         "object over several solves; TLC checks best = min(trace), trace length, limits and reusability for all estimate "
         "orders over a small domain, and rejects the sanity mutant in which object state survives the start of a solve.  "
         "Sampler.tla: what a valid (subscripts, values, weights) sample is; TLC enumerates every zero pattern of small tensors "
         "x kinds x request counts (0 .. beyond the supply) and checks the contract is satisfiable.  Real runs are recorded "
         "hook-free (wrapped loss handle, wrapped sampler) as start / grad / epoch / return events with estimates abstracted "
         "to ranks and validated by TLC: histories of 2-3 solves on one SGD / Adam / Adagrad object vs fresh objects, "
         "L-BFGS-B observation contract (objective truthful and not worse, bounds, callback slot restored, reusable)."),
   technique="TLA+ state-machine specs GcpSolve / Sampler; TLC model checking incl. a sanity mutant; TLC-enumerated sampling requests; TLC trace validation of recorded solver histories",
   note=("Estimates are abstracted to ranks (the solver's own comparisons kept exact; the recomputed estimate of the returned "
         "model identified with the smallest estimate within 1e-9 relative).  Semi-stratified 'zero' draws are unconfirmed by "
         "definition.  Trusted base: recording wrappers and numpy re-evaluation in harness/c13.py, loss handles (C12), TLC.")),
 "C18": dict(engine="Presentation", design="3/C18",
   text=("Presentation.tla: a problem (algorithm, data denotation, start, options) and its presentations (holder, printing "
         "interval, seed identity, positive scale, mode relabelling); Run events carry the distance of the result - after "
         "Transform undid scale and relabelling - to the base run, and the spec demands equal model, fit / objective and "
         "iteration count, naming the coordinate on which the result depends.  TLC checks the Transform laws on integer Kruskal "
         "and Tucker models (relabelling / scaling a model = relabelling / scaling its denotation; the relabelled mode order) "
         "and enumerates, per algorithm, every admissible presentation differing from the base in one coordinate; every "
         "presentation is run on the real cp_als, cp_apr (mu, pdnr, pqnr), hosvd, tucker_als and gcp_opt + L-BFGS-B with given "
         "and random starts, and the recorded traces are validated by TLC."),
   technique="TLA+ spec Presentation; TLC law checking and enumeration of presentations; TLC trace validation of recorded run pairs",
   note=("Open known finding: pqnr raises on the dense presentation of data with an all-zero slice (same defect as C11's).  "
         "'Up to rounding' = 1e-6 relative after a fixed small number of iterations.  Scale applies to cp_als / hosvd / "
         "tucker_als, relabelling to the algorithms with a mode-order option.  Trusted base: numpy reconstruction and distance "
         "in harness/c18.py, TLC.")),
 "C14": dict(engine="Nvecs", design="3/C14",
   text=("Nvecs.tla (extending the exact class of Hosvd.tla): for tensors with diagonal integer Gram matrices rotated in "
         "mode n by a rational orthogonal matrix (identity, signed permutation, 3-4-5 rotation), the r leading mode-n "
         "vectors are the rotated unit vectors in decreasing eigenvalue order with the sign rule applied - integers "
         "after scaling by the rotation's denominator.  TLC checks their orthogonality law and enumerates tensors x "
         "modes x r (iterative and dense branch) x rotations x flipsign; each case is presented in five holders "
         "(dense, sparse, Kruskal, Tucker with dense / sparse core) and the real nvecs output must equal the "
         "specified integer columns exactly.  General graded inputs are validated against the observation contract "
         "(real, orthonormal, eigenpairs of the Gram matrix, decreasing order, dominant energy, sign rule)."),
   technique="TLA+ exact-arithmetic spec Nvecs on a decidable input class; TLC generation + law checking; replay in five representations; TLC trace validation",
   note=("Open known finding: sptensor.nvecs dense branch (row/column mix-up, pinned by its own doctest).  Trusted base: "
         "holder construction and numpy eigen-observations in harness/c14.py, TLC.")),
 "C10": dict(engine="Hosvd", design="3/C10",
   text=("Hosvd.tla makes HOSVD a discrete state machine on the class of tensors whose nonzeros pairwise differ in two "
         "coordinates (diagonal Gram matrices with integer eigenvalues): modes are processed in the given order, the "
         "rank is the requested one or the smallest r whose discarded eigenvalue sum is <= tol^2 ||X||^2 / d (rational "
         "tolerance, integer comparisons), sequential truncation drops the cut-off slices.  TLC explores it for every "
         "tensor of the class in scope x tolerances x both strategies x every mode order and proves the error bound by "
         "design (discarded energy <= tol^2 ||X||^2, energy split, ranks in range); the real hosvd must return exactly "
         "the specified leading unit vectors and ranks.  General dense inputs and Tucker-ALS (random / nvecs / given "
         "starts, exactly low-rank and full-rank cases, truncated runs) are validated by TLC against the observation "
         "contract: orthonormal factors, core = data x transposed factors, error bound or exact ranks, truthful fit, "
         "monotone fits, iteration bound, data untouched."),
   technique="TLA+ exact-arithmetic state machine Hosvd on a decidable input class; TLC exploration (error bound by design) + generation; replay; TLC trace validation of exact results and observation contracts",
   note=("Numeric observations are recomputed with plain numpy (trusted, in harness/c10.py); the exact class excludes "
         "eigenvalue ties; general inputs use tolerance 1e-6.")),
 "C09": dict(engine="CpAls", design="3/C09",
   text=("CpAls.tla is the control skeleton of the alternating least-squares fit observed through the data tensor's "
         "kernel: Start / Kernel(n, factor identities) / Return(observations) / Truncated(k).  TLC model-checks it "
         "against an abstract Gauss-Seidel implementation for every mode order x every set of optimised modes x "
         "iteration limit (the contract is implementable, iteration bound, non-optimised modes never updated, one "
         "update per mode and sweep) and checks that a Jacobi-style implementation is refused.  Each configuration is "
         "run on dense / sparse / Tucker / sum data through a duck-typed recording wrapper; TLC validates the recorded "
         "traces: mode order, every kernel call sees the latest factors and the freshly updated one, first call uses "
         "the returned initial guess, iteration count, normal form, reported fit and residual = recomputed (1e-7), "
         "normal equations of the last updated factor, data and guess untouched, truncated runs prefix-consistent "
         "with non-decreasing fit."),
   technique="TLA+ control-state machine CpAls; TLC model checking (incl. refusal of a Jacobi mutant) + configuration generation; recorded kernel-call traces validated by TLC",
   note=("Numeric observations (fit, residual, stationarity, normal form) are recomputed with plain numpy on dense arrays "
         "(trusted, in harness/c09.py); TLC decides the relations on every recorded run.")),
 "C12": dict(engine="Gcp", design="3/C12",
   text=("Two specifications.  Gcp.tla (exact integers): objective = weighted sum of the element loss over all entries, "
         "factor gradients by the chain rule, the sampled estimator as a weighted sum over an arbitrary sample list; "
         "TLC proves on every generated instance that the chain-rule gradient is the exact central-difference "
         "derivative for the quadratic losses and that the estimator on every entry with unit weights equals the exact "
         "evaluation, enumerates models / data / weight arrays / sample lists for orders 2-4 and validates the real "
         "evaluate() / estimate() / handle values.  Losses.tla (symbolic): each of the nine smooth built-in losses and "
         "its gradient as sums of terms with rational coefficients over a small basis (powers, log, exp, log(exp+1), "
         "sigmoid); TLC differentiates the loss term set symbolically and checks Grad = dLoss/dm exactly; the harness "
         "interprets both term sets numerically on a grid inside the loss's domain and TLC validates the observed "
         "agreement of the implementation's handle pair with them."),
   technique="TLA+ specs Gcp (exact integer objective/gradient/estimator) and Losses (symbolic differentiation of term sets); TLC law checking + generation; replay; TLC trace validation",
   note=("Element level: the identity Grad = dLoss/dm is symbolic and exact in TLC; the binding of the implementation's "
         "transcendental handles to the term sets is numerical (grid, relative tolerance 1e-9) and is performed by the "
         "harness's interpreter of the term language (trusted, ~25 lines).")),
 "C08": dict(engine="Kruskal", design="3/C08",
   text=("Kruskal.tla gives, for every re-parameterisation, the array the result must denote (exact, from the integer "
         "parameters), the exact resulting parameters where only parameters are moved or multiplied (arrange by "
         "permutation, redistribute, extract, permute, + - unary- scalar*, vector round trip, update), and the set of "
         "normal-form predicates the operation promises (unit columns per mode and norm type, non-negative / sorted / "
         "all-one weights, equal column norms for 'all', sign conventions, list / score contracts, operand unaffected "
         "by re-parameterising the result).  TLC checks the parameter-level laws and enumerates every option of every "
         "operation over shapes with 1-3 modes, ranks 1-3, weights of both signs / zero / ties and a column catalogue "
         "with zero columns; the real results (full() rounded to integers with error <= 1e-9, exact parameters, "
         "predicates observed with tolerance 1e-9) are validated by TLC against Kruskal_Trace."),
   technique="TLA+ spec Kruskal (denotation effects, exact parameters, promised normal forms); TLC law checking + exhaustive option generation; replay; TLC trace validation"),
 "C16": dict(engine="FileFormat", design="3/C16",
   text=("FileFormat.tla specifies the four file types as token sequences (keyword / integer / opaque value token = the "
         "four 16-bit limbs of a double's bit pattern), Export(obj) with 1-based subscripts and stored order preserved, "
         "and Import(tokens, base) as its inverse; TLC checks Import o Export = id for both index bases and the header "
         "laws on every generated object (dense, sparse with pattern classes and two stored orders, Kruskal ranks 1-3, "
         "matrices; 1-way and singleton shapes) over a catalogue of special and seeded random doubles.  For each object "
         "the real export_data file is tokenised and compared with the specified sequence, the specification's file is "
         "fed to the real import_data for both bases, and the real round trip is taken; TLC validates all three "
         "observations against FileFormat_Trace bit for bit."),
   technique="TLA+ token-level spec FileFormat; TLC inverse-law checking + object generation; file-level replay both directions; TLC trace validation"),
 "C15": dict(engine="Symmetry", design="3/C15",
   text=("Symmetry.tla defines the symmetrised tensor (scaled by prod |g|! to stay integral) as the sum over all "
         "permutations of the modes inside each group and the symmetry test as invariance under all of them; TLC "
         "checks the laws (result symmetric, idempotent, fixes symmetric tensors, number of group permutations = "
         "scale, sum preserved) on every generated case and enumerates 17 (shape, groups) configurations - full "
         "group, proper and non-adjacent sub-groups, two disjoint groups - x labelled / symmetric / zero / sign-mixed "
         "/ every unit tensor x both algorithm versions x details on/off x float and integer dtype; results of the "
         "real tensor.symmetrize / issymmetric (and ktensor.symmetrize as an observation contract) are validated by "
         "TLC against Symmetry_Trace."),
   technique="TLA+ spec Symmetry (scaled integer averages); TLC law checking + exhaustive generation; replay; TLC trace validation"),
 "C20": dict(engine="Generators", design="3/C20",
   text=("Generators.tla specifies the deterministic generators by value (ones, zeros, super-diagonal with the "
         "max(len, size) shape rule, aggregation of duplicate subscripts with sum / max / min / counting reducers and "
         "zero dropping, from_function layouts, the identity tensor by its defining property I x^(m-1) = |x|^(m-2) x "
         "on all vectors over {-1,0,1,2}) and the random ones by contract (shape, well-formedness, number of distinct "
         "nonzeros for a count or density, values produced by the supplied function, range, reproducibility under "
         "the global seed).  TLC checks laws of the specified values, enumerates every call in scope (e.g. every "
         "subscript list with <= 4 rows over a 2x2 grid in every order) and validates the results recorded from the "
         "real generators against Generators_Trace."),
   technique="TLA+ spec Generators (values + contracts); TLC exhaustive call generation; replay; TLC trace validation",
   note=("Open known finding: random sparse generators return fewer distinct nonzeros than requested when random "
         "subscripts collide.  Trusted base: TLC, projections and labelled value functions in harness/c20.py.")),
 "C19": dict(engine="Requests", design="3/C19",
   text=("Requests.tla gives every operation family a precondition as a set of named clauses over the shape-level "
         "description of the call, and Answer / Reject actions (a request is rejected iff a clause fails; a rejected "
         "request leaves receiver and operands unchanged).  TLC enumerates the well-formed base requests and every "
         "request in scope violating one (or two) clauses - wrong sizes incl. broadcastable 1 and multiples, wrong "
         "counts, modes out of range / negative / repeated, non-permutations, element-count changes, shape mismatches, "
         "inconsistent constructor components and algorithm options - and checks that each construction fails the "
         "clause it is meant to fail.  Each abstract request is instantiated on every class offering the operation "
         "(~10k concrete calls); TLC validates the recorded (raised, unchanged) observations against Requests_Trace."),
   technique="TLA+ precondition clauses + Answer/Reject actions; TLC enumeration of single-clause violations; replay on all classes; TLC trace validation"),
 "C05": dict(engine="Ownership", design="3/C05",
   text=("Ownership.tla models objects as owners of buffers with Call / in-place / no-copy-constructor / Poke actions; "
         "TLC shows on a 4-handle model that pokes stay local under admissible calls and that the property fails as "
         "soon as a view-returning call is admitted (sanity mutant of the specification).  TLC enumerates every chain "
         "of type-compatible operations (depth 2, 3 in the thorough tier) from the harness's operation table (~190 "
         "operation/class pairs: all seven classes, helper functions taking caller arrays, the five algorithm entry "
         "points).  Each chain is executed; after every call the bytes of every array reachable from every live "
         "object are compared and the result is tested (overlap + demonstrated poke) against all live objects; TLC "
         "validates the recorded (changed, aliased) observations against Ownership_Trace."),
   technique="TLA+ ownership state machine; TLC chain generation from a typed operation table; byte-snapshot / poke observations; TLC trace validation",
   note=("Open known findings: gcp_opt normalizes the caller's init (pinned by upstream tests), sumtensor + shares parts. "
         "Trusted base: operation table and snapshot/poke oracle in harness/c05.py, numpy.shares_memory, TLC.")),
 "C04": dict(engine="ArrayHistory", design="3/C04",
   text=("ArrayHistory.tla is a state machine over one abstract growable F-ordered array: region / subscript / linear "
         "writes (with growth in size and order) and the corresponding reads.  TLC checks on it the frame property "
         "(last write wins, every other position unchanged, growth pads with zeros, never shrinks) and the read laws, "
         "and enumerates histories: depth 1 over the full key alphabet, depth 2-3(4) over a 13-write alphabet from 7 "
         "start tensors, plus simulated walks.  Every history drives a dense and a sparse holder in lock step and is "
         "followed by a read-back through 12 read forms; TLC validates the recorded traces against ArrayHistory_Trace "
         "(after every write both holders must be well formed and denote the abstract array)."),
   technique="TLA+ state machine ArrayHistory; TLC action-property checking + history generation; lock-step replay on dense and sparse holders; TLC trace validation",
   note=("One open known finding: dense region keys combining an index list with another non-slice index follow numpy "
         "pairing semantics.  Trusted base: TLC, holder construction and key translation in harness/c04.py.")),
 "C06": dict(engine="SparseOrder", design="3/C06",
   text=("SparseOrder.tla states well-formedness of sparse results (one value per subscript, subscripts in range and "
         "pairwise distinct, reported nnz = stored entries, no explicit zero after combining / filtering operations) "
         "and order independence (the results of one call on the same abstract operands under different stored "
         "orders denote the same value).  TLC generates every sparsity pattern with <= 3 (4) nonzeros with ALL n! "
         "stored orders (for binary operations also of the second operand) for ~75 public sparse operations and checks "
         "that re-ordering preserves denotation; each call is executed under every presentation and TLC validates the "
         "recorded result tuples against SparseOrder_Trace."),
   technique="TLA+ spec SparseOrder; TLC generation of all stored orders; replay of an operation table; TLC trace validation"),
 "C03": dict(engine="Elementwise", design="3/C03",
   text=("Elementwise.tla defines every element-wise operator position by position on integers with IEEE special "
         "results encoded as uniformly typed rational triples; TLC checks the laws of that value domain, enumerates "
         "ALL pairs of sparsity patterns of the two operands for arrays of up to 4 cells (6 / 8 cells for a subset "
         "of operators) with sign-mixed value schemes, scalar / dense / sparse right-hand sides and varied stored "
         "orders, and validates the results recorded from the real sptensor operators against Elementwise_Trace: "
         "the result, sparse or dense, must denote the dense-semantics array at every position."),
   technique="TLA+ spec Elementwise over a rational/IEEE value domain; TLC exhaustive pattern-pair generation; replay; TLC trace validation",
   note=("Two upstream conventions are recorded as open known findings (sparse/sparse x/0 -> NaN, sparse/dense 0/0 -> 0); an "
         "event is attributed to them only if the observed result is exactly what the convention produces. "
         "Trusted base: TLC, bind.rat projection of floats to small rationals, apply() in harness/c03.py.")),
 "C02": dict(engine="Products", design="3/C02",
   text=("Products.tla defines every multilinear product by its explicit sum over indices; TLC cross-validates "
         "these definitions against independent ones (ttm via matricization, mttkrp via repeated ttv and via "
         "Khatri-Rao, innerprod via ttt, collapse via ttv with ones, contract via ttt with an identity) on every "
         "generated call, enumerates all calls in scope (receiver kinds x operations x every dims / exclude_dims "
         "designation x multiplicand-list lengths), and the calls are executed on the real classes; TLC validates "
         "the recorded results against Products_Trace, which accepts a result iff its denotation (whatever its "
         "kind) equals the defined value."),
   technique="TLA+ spec Products; TLC law checking + exhaustive call generation; replay into pyttb; TLC trace validation"),
 "C01": dict(engine="Convert", design="3/C01",
   text=("TLC model-checks Convert (Unmat o Mat = id for every ordered partition, cyclic conventions are partitions "
         "with the documented column order, dense<->sparse<->sparse-matricized preserve denotation and nonzero "
         "count, denotation and well-formedness invariant along conversion histories) and enumerates every "
         "conversion in scope on all seven object kinds; behaviours (single conversions exhaustively, chains by "
         "simulation) are replayed into the real classes and the recorded traces are validated by TLC against "
         "Convert_Trace: reported shape / tshape / rdims / cdims / matrix shape / nnz and the denotation must be "
         "those the specification derives."),
   technique="TLA+ spec Convert; TLC exhaustive generation + law invariants; replay into pyttb; TLC trace validation"),
 "C17": dict(engine="Helpers", design="3/C17",
   text=("TLC model-checks Helpers (Lin/Unlin bijection and stride law for every shape in scope, set-algebra "
         "laws of the row helpers, mode-selection laws, Khatri-Rao associativity and Kronecker row formula) "
         "and enumerates every helper call in scope with its canonical result; every call is executed on the "
         "real helper and the recorded events are validated by TLC against Helpers_Trace, whose actions "
         "accept exactly the admissible results (set-level for the row helpers, exact elsewhere)."),
   technique="TLA+ spec Helpers; TLC exhaustive generation + law invariants; replay into pyttb_utils/khatrirao; TLC trace validation"),
 "C07": dict(engine="IndexMaps", design="3/C07",
   text=("TLC model-checks IndexMaps (laws: inverse permutation, reshape round trip, F-order flat "
         "invariance, holder commutation) and enumerates every behaviour (all shapes in scope x all mode "
         "orders x all ordered factorizations x all old-mode lists x sparsity patterns x stored orders x "
         "four holders, plus simulated chains); each behaviour is replayed into the real classes and the "
         "recorded traces are validated by TLC against IndexMaps_Trace, which binds every result to the "
         "action's enabling condition (well-formed, denotation = index formula)."),
   technique="TLA+ spec IndexMaps; TLC exhaustive generation + law invariants; replay into pyttb; TLC trace validation"),
}

def main():
    m = {
     "version": 1,
     "setup_cmd": "./setup.sh",
     "hooks": {
      "guard": "PYTTB_VERIF",
      "enable": "none required: recorders wrap the public API from /verif (no source hooks in /repo)",
      "baseline_off_cmd": "cd /repo && /venv/bin/python -m pytest -ra -q -p no:cacheprovider --timeout=900 --continue-on-collection-errors",
      "source_commits": [],
      "add_only": True
     },
     "engines": [],
     "checks": [],
     "notes": ("All checks: ./check <id> --tier quick|thorough ; exit 0 held / 1 VIOLATION / 2 machinery failure. "
               "known_findings.json lists genuine defects (open => KNOWN-FINDING lines, fixed => suppress nothing). "
               "Extension modules X01 (Printing), X02 (MatAlgebra), X03 (DenseElem), X04 (Arguments), X05 (Plumbing) extend the specification beyond the 20 "
               "listed properties (./check X0n --tier quick|thorough; evidence in evidence_ext/, divergences printed as "
               "EXT-VIOLATION); they are not claimed as property checks.  Every driver rotates the memory layout and the "
               "element type of the arrays handed to pyttb, and further property-specific presentations (magnitudes, scalar "
               "types, key forms, index offsets; DESIGN 12.7); pure operations are also checked for leaving their operands "
               "unchanged.  %d seeded property-breaking changes with their verdicts are kept under seeded/ (DESIGN 12.6)." % len([d for d in (V / "seeded").iterdir() if d.is_dir()])),
     "not_applicable": []
    }
    engines = {}
    for p in props:
        pid = p["id"]
        c = CHECKS.get(pid)
        if not c:
            m["not_applicable"].append({"property_id": pid, "reason": "check not built yet (work in progress; see DESIGN.md section 8 build order)"})
            continue
        m["checks"].append({
          "property_id": pid,
          "quick_cmd": f"./check {pid} --tier quick",
          "thorough_cmd": f"./check {pid} --tier thorough",
          "evidence_file": f"/verif/evidence/{pid}.json",
          "replay_cmd_template": f"./check {pid} --replay {{path}}",
          "engine": c["engine"],
          "level_claimed": {"category": c.get("level", "model_checking"), "text": c["text"], "design_ref": c["design"]},
          "level_note": c.get("note", COMMON_NOTE),
          "technique": c["technique"],
        })
        engines.setdefault(c["engine"], []).append(pid)
    for e, ps in engines.items():
        m["engines"].append({"name": e, "path": f"/verif/spec/{e}.tla", "serves_properties": ps,
                             "kind_free_text": "TLA+ specification checked with TLC (model checking, behaviour generation, trace validation)"})
    for name, what in (("Printing", "X01: printed form of every class"), ("MatAlgebra", "X02: tenmat / sptenmat / sumtensor / ttensor algebra"),
                       ("DenseElem", "X03: dense element-wise operations and tenfun"),
                       ("Arguments", "X04: argument validators, index-key classification, shape / vector normalisers"),
                       ("Plumbing", "X05: completion of row / column modes of an unfolding, renumbering of subscripts into and out of a region")):
        m["engines"].append({"name": name, "path": f"/verif/spec/{name}.tla", "serves_properties": [],
                             "kind_free_text": "TLA+ specification beyond the listed properties (extension module " + what + ")"})
    json.dump(m, open(V / "MANIFEST.json", "w"), indent=1)
    import jsonschema  # noqa
if __name__ == "__main__":
    main()
