#!/bin/sh
# confirm_seed.sh Cxx : confirm the agent's mutants in its scratch worktree and store them in /verif/seeded
ID=$1; WT=/tmp/wt/$ID
cd "$WT" || exit 1
git checkout -q -- . 
for K in A B; do
  M=$WT/_out/mut$K; [ -f "$M/patch.diff" ] || { echo "$ID$K: missing"; continue; }
  /venv/bin/python $M/demo.py >/dev/null 2>&1; CLEAN=$?
  git apply "$M/patch.diff" || { echo "$ID$K: patch does not apply"; continue; }
  T=$(/venv/bin/python -m pytest -q -p no:cacheprovider 2>&1 | tail -1)
  /venv/bin/python $M/demo.py >/dev/null 2>&1; MUT=$?
  git checkout -q -- .
  echo "$ID$K: demo clean=$CLEAN mutated=$MUT tests: $T"
  case "$T" in *"208 passed"*) ;; *) echo "  -> rejected (tests)"; continue;; esac
  [ "$CLEAN" = 0 ] && [ "$MUT" != 0 ] || { echo "  -> rejected (demo)"; continue; }
  D=/verif/seeded/$ID$K; mkdir -p $D
  cp $M/patch.diff $M/demo.py $D/; cp $M/notes.md $D/notes.md 2>/dev/null
  PROP=$ID K=$K T="$T" /venv/bin/python - <<'PY'
import json, os
d=f"/verif/seeded/{os.environ['PROP']}{os.environ['K']}"
notes=open(d+"/notes.md").read() if os.path.exists(d+"/notes.md") else ""
meta={"property":os.environ['PROP'],"mutant":os.environ['K'],
 "needs_to_manifest":notes.strip()[:1500],
 "confirmed":{"worktree":"scratch git worktree of /repo at 6d06ee6 under /tmp/wt (removed afterwards)",
   "patch_applies":True,"pytest_with_patch":os.environ['T'],"demo_clean_exit":0,"demo_with_patch_exit":"non-zero",
   "commands":["git apply patch.diff","/venv/bin/python -m pytest -q -p no:cacheprovider","/venv/bin/python demo.py (cwd = worktree root)"]},
 "detected_by":None}
json.dump(meta,open(d+"/meta.json","w"),indent=1)
PY
done
